#!/usr/bin/env python3
"""tools/refactor_task.py <id> <area...>: scratch worktree /tmp/wt/<id> of /repo with a TASK.md asking a fresh
sub-agent for a substantial but strictly behaviour-preserving refactoring of one area (used to test that the checks
raise no alarm on code where the properties hold).  Nothing from /verif goes into the worktree."""
import subprocess
import sys
rid, area = sys.argv[1], ' '.join(sys.argv[2:])
wt = '/tmp/wt/%s' % rid
subprocess.run(['git', '-C', '/repo', 'worktree', 'add', '-q', '--detach', wt, 'HEAD'], check=True)
open(wt + '/TASK.md', 'w').write('''# Task: a substantial, strictly BEHAVIOUR-PRESERVING refactoring

You work ONLY inside this git worktree (%(wt)s).  Do NOT read, list or touch /repo or /verif (off limits).
Always run Python with `PYTHONPATH=%(wt)s/modules` (the virtualenv has an editable install of another copy):
    cd %(wt)s && PYTHONPATH=%(wt)s/modules /venv/bin/python -m pytest -q -p no:cacheprovider      # 55 tests, must ALL still pass
Check that `import pel; print(pel.__file__)` prints a path under this worktree.

## Area to refactor
%(area)s

## What to deliver
1. Refactor that area the way an experienced maintainer would in a clean-up sprint: restructure control flow, extract
   helpers, replace hand-written loops by library calls, introduce small classes or tables, rename locals, reorder
   independent statements, change internal data structures.  Be bold about STRUCTURE (at least 80 changed lines), but
   the OBSERVABLE behaviour must be exactly the same for every input, option combination, sequence of calls and
   failure: same stdout and stderr text, same files written / deleted and when (including what is on disk if a write
   fails half-way), same exit statuses, same exceptions escaping (type and message) from public functions, same
   modules imported and when, same arguments passed to parser plug-ins, same results when the same function is called
   many times in one process or when input files change between calls.  Public function names and signatures stay.
   Do not fix bugs, do not improve messages, do not add features, do not add caches that outlive one call.
2. differential.py in the worktree root: a differential test that imports the ORIGINAL code (e.g. `git stash` /
   `git worktree` is not available to you - instead copy the original files to orig_modules/ BEFORE you start editing
   and import them under a different sys.path in a subprocess) and your refactored code, drives both with a few
   thousand generated inputs (valid, truncated, corrupted; every option of the area) and compares everything
   observable.  It must report 0 differences.  Do not leave orig_modules/ inside modules/.
3. NOTES.md: what you restructured and why it cannot change behaviour; the commands you ran and their results.
   Leave the worktree with the refactoring applied (`git diff -- modules` shows it).

Final answer: a short summary (what was restructured, number of changed lines, test and differential results).
''' % dict(wt=wt, area=area))
print(wt)
