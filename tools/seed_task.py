#!/usr/bin/env python3
"""tools/seed_task.py <suffix> <Cxx>...: for each property, create a scratch worktree /tmp/wt/<Cxx><suffix> of /repo
with a TASK.md for a fresh sub-agent (property text, relevant code, format primer, the ideas already filed under
seeded/ for that property).  Prints the worktree paths.  Nothing from /verif is copied into the worktree except
the one-line descriptions of earlier ideas."""
import glob
import json
import os
import subprocess
import sys
V = os.path.dirname(os.path.dirname(os.path.abspath(__file__)))
props = {}
for l in open(os.path.join(V, 'properties.jsonl')):
    p = json.loads(l)
    props[p['id']] = p
PRIMER = '''## PEL binary format primer (there are no sample PEL files in the repo; build bytes by hand)
Every section starts with an 8-byte header: id(2 ASCII) length(2, whole section) version(1) subtype(1) component id(2). All big endian.
- Private Header 'PH' (48 bytes, always first): create time(8, BCD YYYY MM DD hh mm ss cc) commit time(8) creator id byte ('O' BMC, 'B' hostboot, 'H' PHYP, 'M' I/O drawer ...) reserved(2) section count(1, includes PH and UH) BMC log id(4) creator version(8) platform log id(4) entry id(4).
- User Header 'UH' (24 bytes, always second): subsystem(1) scope(1) severity(1, e.g. 0x40) type(1) reserved(4) problem domain(1) vector(1) action flags(2; 0x8000 service action, 0x4000 hidden, 0x2000 report) states(4).
- SRC 'PS' primary / 'SS' secondary: header(8) version(1) flags(1; 0x01 = callout subsection follows) reserved(1) word count(1, 9 = all) reserved(2) size(2) = 72 + callout subsection length, 8 hex words (words 2..9, 4 bytes each), 32 ASCII characters (reference code padded with blanks).  Callout subsection: id 0xC0(1) flags(1) length in words(2), then callouts: length(1) flags(1) priority(1 ASCII) location code length(1) location code, then substructures FRU identity 'ID'(2) len(1) flags(1) ..., PCE 'PE', MRU 'MR'.
- Extended User Header 'EH': machine type(8) serial(12) fw version(16) subsystem fw version(16) reserved(4) reference time(8) reserved(3) symptom length(1) symptom id.
- Failing MTMS 'MT' (28): machine type model(8) serial(12).  Impacted Partition 'LP': partition id(2) name length(1) target count(1) log id(4) name, targets(2 each), 2 pad bytes if the count is odd.
- User Data 'UD': header + payload; creator 'O' + component 0x2000: subtype 1 = JSON text, 3 = text lines, else hex dump.
Decode in-process with pel.peltool.peltool.parsePEL(pel.datastream.DataStream(data, byte_order='big', is_signed=False), cfg, False) where cfg = pel.peltool.config.Config(); cfg.every_pel = True.  The CLI is modules/pel/peltool/peltool.py (outside a BMC the `-p <dir>` option is required; in-process: patch sys.argv and call pel.peltool.peltool.main(), catching SystemExit).
'''
RELEVANT = {
 'C01': 'modules/pel/peltool/peltool.py (parsePEL, parseHeader, sectionFun, buildOutput, getSectionName) and every section class under modules/pel/peltool/ (src.py, imp_partition.py, extend_user_header.py, failing_mtms.py, user_data.py, ext_user_data.py, default.py), pel_values.py (sectionNames)',
 'C02': 'modules/pel/peltool/{private_header,user_header,extend_user_header,failing_mtms,imp_partition,comp_id,pel_values,pel_types}.py and peltool.py (parsePEL)',
 'C03': 'modules/pel/peltool/src.py, registry.py, pel_values.py',
 'C04': 'modules/pel/peltool/{parse_user_data,user_data,ext_user_data,default}.py, modules/pel/hexdump.py',
 'C05': 'modules/pel/datastream.py, modules/pel/peltool/peltool.py (parsePEL, parseAndPrintPELFile, main), all section classes, modules/udparsers/*, modules/pel/hwdiags/parserdata.py',
 'C06': 'modules/pel/peltool/peltool.py: prettyPrint, keyEndIndex and every place that prints or writes documents (parsePEL, listOption, parsePelFromPLID / parsePelFromSRCID, extractAllPELsData, parseAndWriteOutput, printPELCount)',
 'C07': 'modules/pel/peltool/peltool.py (considerPEL, considerPELIfSeverityMatches, main option wiring), user_header.py (isHidden, isServiceable), pel_types.py, pel_values.py (severityGroupValues), config.py, modules/pel/peltool/README.md',
 'C08': 'modules/pel/peltool/peltool.py (getFileList, listOption, extractAllPELsData, printPELCount, parsePELSummary, extractAndSummarizePEL, printPELInHexFormat, main)',
 'C09': 'modules/pel/peltool/peltool.py (every directory mode: listOption, extractAllPELsData, printPELCount, parsePelFromPLID, parsePelFromSRCID, parsePelFromBmcID, parseAndWriteOutput, getFileList, main), the section decoders',
 'C10': 'modules/pel/peltool/peltool.py (processId, parsePelFromID, parsePelFromBmcID, parsePelFromPLID, parsePelFromSRCID, parsePELSummary, considerPEL, main), private_header.py',
 'C11': 'modules/pel/peltool/peltool.py (deletePELFromPELId, deleteAllPELs, processId, parseAndWriteOutput, main and its mode dispatch)',
 'C12': 'modules/pel/peltool/peltool.py (parseAndWriteOutput, parseAndPrintPELFile, printPELInHexFormat, main: -f ... -c and -j ... -c)',
 'C13': 'modules/pel/hexdump.py (hexdump, parse, DEFAULT_LINE_FORMAT), modules/io_drawer/dump.py (HEX_DUMP_LINE_FORMATS, parse_dump_file), peltool.py (printPELInHexFormat, -x); test/test_pel/test_hexdump.py shows what is pinned. I/O drawer text formats: \'0010:  20202020 00000000 00000000 0000003C  <    ...........<>\' and \'8D E3 DF A0 01 01 44 EF 02 20 01 42 46 41 4E 53 ......D.. .BFANS\' (a short last line keeps the columns, padded with blanks)',
 'C14': 'modules/io_drawer/ilog.py, modules/io_drawer/utils.py, the shipped tables mex_pte.h / nimitz_pte.h (do not edit the tables), test/test_io_drawer/test_ilog.py shows what is pinned',
 'C15': 'modules/io_drawer/trace.py, utils.py, modules/pel/hexdump.py; test/test_io_drawer/test_trace.py shows what is pinned. Buffer: 32-byte header ver(1) hdr_len(1) time_flg(1) endian_flg(1) comp(12) reserved(4) size(4) times_wrap(4) next_free(4); entry tbh(2) tbl(2) length(2) tag(2; 0x4654 trace, 0x4644 binary) hash(4) line(4) data(length) pad to 4, total size(4)',
 'C16': 'modules/io_drawer/hlog.py, modules/pel/hexdump.py, modules/pel/datastream.py, the field tables at the end of modules/io_drawer/mex_pte.h / nimitz_pte.h (do not edit them), modules/udparsers/m2c00/m2c00.py; test/test_io_drawer/test_hlog.py shows what is pinned',
 'C17': 'modules/io_drawer/dump.py, ilog.py, trace.py, modules/pel/hexdump.py; test/test_io_drawer/test_dump.py shows what is pinned. Header start bytes 02 20 01 42 then one of IICS IICM POWR FANS INFO ERRL',
 'C18': 'modules/pel/peltool/parse_user_data.py, src.py (SRC.parse, getProcedureDesc), modules/srcparsers/osrc/osrc.py, srcparsers/oe500, udparsers/m2c00, udparsers/oe500, calloutparsers/ocallouts; throw-away parser packages can be added by appending a temp dir to udparsers.__path__ / srcparsers.__path__ / calloutparsers.__path__',
 'C19': 'process-wide state: modules/pel/peltool/src.py (registry, calloutParsers, srcParsers), parse_user_data.py (userDataParsers), comp_id.py, registry.py, srcparsers/osrc/osrc.py; per-decode state in the section classes; peltool.py',
 'C20': 'modules/pel/hwdiags/parserdata.py, modules/udparsers/oe500/oe500.py, modules/srcparsers/oe500/oe500.py; chip data can be supplied by pointing pel.hwdiags.data.__file__ at a temp directory holding files like {"model_ec": {"id": "20da0020", "type": "proc", "desc": "P10 2.0"}, "attn_types": {"1": "CS"}, "signatures": {"abcd": ["SIG_NAME", {"23": "description of bit 23"}]}, "registers": {"abcdef": ["REG_NAME", {"1": "8000000012345678"}]}}; register dump payload = chip count(4) then per chip model/EC(4) position(2) node(1) register count(4), per register id(3) instance(1) size(1) data',
}
TEMPLATE = '''# Task: write ONE realistic, subtle seeded defect that breaks property %(id)s

You work ONLY inside this git worktree (%(wt)s).  Do NOT read, list or touch /repo or /verif (off limits).
Always run Python with `PYTHONPATH=%(wt)s/modules` (the virtualenv has an editable install of another copy):
    cd %(wt)s && PYTHONPATH=%(wt)s/modules /venv/bin/python -m pytest -q -p no:cacheprovider      # 55 tests, must ALL still pass
Check that `import pel; print(pel.__file__)` prints a path under this worktree.

## The property your change must BREAK
%(id)s: %(title)s
Statement: %(statement)s
Quantified over: %(quant)s

## Relevant code
%(relevant)s

%(primer)s
## What to deliver
1. A change to the repository source under modules/ (NOT the tests, NOT shipped data tables) that makes the tool violate the property for SOME inputs / situations only, while everything still imports and all 55 tests pass.  It must look like a plausible maintenance edit, refactoring slip, optimisation or feature tweak (not sabotage), and it must need something SPECIFIC to manifest (a particular input shape / value range / length / ordering, a particular option combination, a particular sequence of operations, a particular failure point, or two cooperating sites that each look fine alone).  Ordinary inputs must behave exactly as before.
2. IMPORTANT - be original: other people have already tried the following ideas for this property, so do something of a DIFFERENT kind, in a different part of the code or triggered by a different dimension of the input:
%(avoid)s
%(extra)s3. demo.py in the worktree root: a standalone script (run with the PYTHONPATH above) that builds the specific input, runs the REAL code, checks the property against an expectation computed independently from the statement, and exits 0 when the property holds and 1 (printing what is wrong) when it is violated.  It must exit 1 WITH your change and 0 WITHOUT it - verify both (`git diff -- modules > seeded.diff; git checkout -- modules; run; git apply seeded.diff`).
4. seeded.diff in the worktree root (`git diff -- modules`), the worktree left with the change APPLIED, and NOTES.md: what the change is, why it breaks the property, exactly what is needed for it to manifest, the commands you ran and their results.

Final answer: a short summary (the diff, the trigger condition, the three verification results).  Make sure all three really hold before answering.
'''
suffix = sys.argv[1]
for i in sys.argv[2:]:
    wt = '/tmp/wt/%s%s' % (i, suffix)
    subprocess.run(['git', '-C', '/repo', 'worktree', 'add', '-q', '--detach', wt, 'HEAD'], check=True)
    p = props[i]
    avoid = []
    for m in sorted(glob.glob(os.path.join(V, 'seeded', i + '-*', 'meta.json'))):
        avoid.append('   - ' + json.load(open(m))['change'])
    open(wt + '/TASK.md', 'w').write(TEMPLATE % dict(id=i, wt=wt, title=p['title'], statement=p['statement'],
                                                     quant=p['quantifier']['text'], relevant=RELEVANT[i],
                                                     primer=PRIMER, avoid='\n'.join(avoid),
                                                     extra=(os.environ.get('SEED_EXTRA', '') + '\n') if os.environ.get('SEED_EXTRA') else ''))
    print(wt)
