#!/bin/sh
# run every claimed check in the quick tier for the given seeds; print one line each
cd "$(dirname "$0")/.." && V=$(pwd)   # (a snapshot of /verif runs its own copy)
for seed in "$@"; do
  for p in $(python3 -c "import json;print(' '.join(c['property_id'] for c in json.load(open('MANIFEST.json'))['checks']))") X01 X02; do
    s=$(date +%s)
    out=$(VERIF_SEED=$seed ./check $p --tier quick 2>&1); rc=$?
    e=$(date +%s)
    echo "seed=$seed $p exit=$rc $((e-s))s $(echo "$out" | grep -c KNOWN-FINDING) known $(echo "$out" | grep histogram | cut -c1-200)"
  done
done
