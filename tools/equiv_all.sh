#!/bin/bash
# every filed behaviour-preserving refactoring against every check (claimed ones and the extras): all must stay silent.
# A patch that no longer applies to the current tree (later fix: commits touched the same lines) is reported as such.
# EQUIV_JOBS (default 3) refactorings are run side by side.
cd "$(dirname "$0")/.." && V=$(pwd)   # (a snapshot of /verif runs its own copy)
props="$(python3 -c "import json;print(' '.join(c['property_id'] for c in json.load(open('MANIFEST.json'))['checks']))") X01 X02"
one() {
  d=$1; id=$(basename $d)
  out=$(/venv/bin/python -m harness.mutate $d/patch.diff $props 2>&1)
  if echo "$out" | grep -q "PATCH-FAILED"; then echo "$id: patch does not apply to the current tree"; return; fi
  bad=$(echo "$out" | grep "^MUTANT" | grep -v "exit=0" | tr '\n' ' ')
  echo "$id: $(echo "$out" | grep -c '^MUTANT.*exit=0') checks silent ${bad:+; NOT SILENT: $bad}"
}
n=0
for d in ${@:-equivalent/*/}; do
  one ${d%/} &
  n=$((n+1))
  if [ $n -ge ${EQUIV_JOBS:-3} ]; then wait -n 2>/dev/null || wait; n=$((n-1)); fi
done
wait
