#!/bin/sh
# detection margin: for every seeded change / mutant, the number of rejected records on the quick tier per seed
cd "$(dirname "$0")/.." && V=$(pwd)   # (a snapshot of /verif runs its own copy)
for s in seeded/*/patch.diff mutants/*.diff; do
  case $s in seeded/*) id=$(basename $(dirname $s));; *) id=$(basename $s .diff);; esac
  p=$(echo $id | sed 's/^c\([0-9][0-9]\).*/C\1/; s/^x\([0-9][0-9]\).*/X\1/; s/^\(C[0-9][0-9]\).*/\1/')
  line="$id $p"
  for seed in "$@"; do
    n=$(VERIF_SEED=$seed /venv/bin/python -m harness.mutate $s $p 2>/dev/null | grep -o "over [0-9]* rejected" | grep -o "[0-9]*" | head -1)
    rc=$(VERIF_SEED=$seed true)
    line="$line seed$seed=${n:-0}"
  done
  echo "$line"
done
