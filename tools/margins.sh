#!/bin/bash
# detection margin: for every seeded change / mutant, the number of rejected records on the quick tier per seed
# (MARGIN_JOBS, default 4, mutants side by side; output order is completion order)
cd "$(dirname "$0")/.." && V=$(pwd)   # (a snapshot of /verif runs its own copy)
one() {
  s=$1; shift
  case $s in seeded/*) id=$(basename $(dirname $s));; *) id=$(basename $s .diff);; esac
  p=$(echo $id | sed 's/^c\([0-9][0-9]\).*/C\1/; s/^x\([0-9][0-9]\).*/X\1/; s/^\(C[0-9][0-9]\).*/\1/')
  line="$id $p"
  for seed in "$@"; do
    n=$(VERIF_SEED=$seed /venv/bin/python -m harness.mutate $s $p 2>/dev/null | grep -o "over [0-9]* rejected" | grep -o "[0-9]*" | head -1)
    line="$line seed$seed=${n:-0}"
  done
  echo "$line"
}
n=0
for s in seeded/*/patch.diff mutants/*.diff; do
  one $s "$@" &
  n=$((n+1))
  if [ $n -ge ${MARGIN_JOBS:-4} ]; then wait -n 2>/dev/null || wait; n=$((n-1)); fi
done
wait
