#!/bin/sh
# run every claimed check (and the two extra ones) in the thorough tier for the given seed; print one line each
cd "$(dirname "$0")/.." && V=$(pwd)   # (a snapshot of /verif runs its own copy)
seed=${1:-0}
for p in $(python3 -c "import json;print(' '.join(c['property_id'] for c in json.load(open('MANIFEST.json'))['checks']))") X01 X02; do
  s=$(date +%s)
  out=$(VERIF_SEED=$seed ./check $p --tier thorough 2>&1); rc=$?
  e=$(date +%s)
  echo "seed=$seed $p thorough exit=$rc $((e-s))s $(echo "$out" | grep -c KNOWN-FINDING) known $(echo "$out" | grep -E 'histogram|MACHINERY' | cut -c1-300)"
done
