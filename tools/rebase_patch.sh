#!/bin/sh
# tools/rebase_patch.sh <patch>...: re-create a filed patch against the current /repo HEAD with a 3-way merge
# (the blobs named in the patch's index lines are in /repo's history).  The original is kept next to it.
for f in "$@"; do
  t=$(mktemp -d /tmp/verif-rebase-XXXXXX)
  git clone -q /repo $t/r
  if (cd $t/r && git apply --3way "/verif/$f" >/dev/null 2>&1 && ! git diff --name-only --diff-filter=U | grep -q .); then
    (cd $t/r && git diff HEAD) > $t/new.diff
    if [ -s $t/new.diff ] && (cd $t/r && PYTHONPATH=$t/r/modules /venv/bin/python -m pytest -q -p no:cacheprovider >/dev/null 2>&1); then
      cp "/verif/$f" "/verif/${f%.diff}_before_$(git -C /repo log --format=%h -1).diff.orig"
      cp $t/new.diff "/verif/$f"
      echo "rebased: $f"
    else
      echo "3-way ok but tests fail or empty: $f"
    fi
  else
    echo "CONFLICT: $f"
  fi
  rm -rf $t
done
