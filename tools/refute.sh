#!/bin/sh
# every deviation config in spec/mc (the design as found before a fix:, or a named wrong variant) must be REFUTED by TLC
cd "$(dirname "$0")/.." && V=$(pwd)   # (a snapshot of /verif runs its own copy)
rc=0
for pair in MC_Selection:MC_Selection_asfound MC_DataStream:MC_DataStream_unchecked MC_CleanWrite:MC_CleanWrite_asfound \
  MC_PelDir:MC_PelDir_noouterbreak MC_PelDir:MC_PelDir_noinnerbreak MC_PrettyPrint:MC_PrettyPrint_asfound \
  MC_SrcCallouts:MC_SrcCallouts_asfound MC_DecodeHistory:MC_DecodeHistory_asfound MC_DecodeHistory:MC_DecodeHistory_osrckey \
  MC_DecodeHistory:MC_DecodeHistory_pluginsmiss MC_DecodeHistory:MC_DecodeHistory_importescape MC_Listing:MC_Listing_nobarrier MC_Listing:MC_Listing_openoutside MC_Listing:MC_Listing_nosort \
  MC_HexDump:MC_HexDump_prefirst $EXTRA_REFUTE; do
  m=${pair%%:*}; c=${pair##*:}
  out=$(tools/mc.py mc/$m mc/$c 2>&1 | head -1)
  case "$out" in *violated=None*) echo "NOT REFUTED: $out"; rc=1;; *) echo "refuted: $out";; esac
done
exit $rc
