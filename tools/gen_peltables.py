"""One-off authoring aid: wrote spec/PelTables.tla from the platform tables as they
stood in pel_values.py at the pinned commit.  The committed .tla is static: the
checks never read pel_values.py, so a later edit of a table there is detected."""
import sys
sys.path.insert(0, '/repo/modules')
from pel.peltool import pel_values as v

def q(s):
    return '"' + s.replace('\\', '\\\\').replace('"', '\\"') + '"'

def table(name, d, default, keyfmt=lambda k: str(k)):
    lines = ['%s(k) ==' % name]
    first = True
    for k, val in d.items():
        lines.append('    %s k = %s -> %s' % ('CASE' if first else '  []', keyfmt(k), q(val)))
        first = False
    lines.append('      [] OTHER -> %s' % q(default))
    return '\n'.join(lines)

out = []
out.append('----------------------------- MODULE PelTables -----------------------------')
out.append('(* The published PEL name tables (creator ids, section names, subsystems,   *)')
out.append('(* scopes, event types, severities, action flags, transmission states,      *)')
out.append('(* callout FRU types and priorities), keyed by the encoded number.          *)')
out.append('(* Static transcription - see tools/gen_peltables.py.                       *)')
out.append('EXTENDS Naturals, Sequences, FiniteSets')
out.append('')
out.append(table('CreatorName', {ord(k): val for k, val in v.creatorIDs.items()}, 'Unknown'))
out.append('CreatorIds == {%s}' % ', '.join(str(ord(k)) for k in v.creatorIDs))
out.append('')
out.append(table('SectionNameOf', {ord(k[0]) * 256 + ord(k[1]): val for k, val in v.sectionNames.items()}, 'Unknown'))
out.append('SectionName(id) == SectionNameOf(id[1] * 256 + id[2])')
out.append('')
out.append(table('SubsystemName', v.subsystemValues, 'Invalid'))
out.append('')
out.append(table('ScopeName', v.eventScopeValues, 'Invalid'))
out.append('')
out.append(table('EventTypeName', v.eventTypeValues, 'Invalid'))
out.append('')
out.append(table('SeverityName', v.severityValues, 'Invalid'))
out.append('')
out.append(table('ActionFlagName', v.actionFlagsValues, '?'))
out.append('ActionFlagBits == {%s}' % ', '.join(str(k) for k in v.actionFlagsValues))
out.append('')
out.append(table('TransmissionName', v.transmissionStates, 'Unknown'))
out.append('')
out.append(table('FruTypeName', v.failingComponentType, 'Invalid'))
out.append('')
out.append(table('PriorityName', v.calloutPriorityValues, 'Invalid'))
out.append('')
out.append('ASSUME Cardinality(CreatorIds) = %d' % len(v.creatorIDs))
out.append('ASSUME Cardinality(ActionFlagBits) = %d' % len(v.actionFlagsValues))
out.append('ASSUME Cardinality({k \\in 0..255 : SubsystemName(k) # "Invalid"}) = %d' % len(v.subsystemValues))
out.append('ASSUME Cardinality({k \\in 0..255 : SeverityName(k) # "Invalid"}) = %d' % len(v.severityValues))
out.append('ASSUME Cardinality({k \\in 0..65535 : SectionNameOf(k) # "Unknown"}) = %d' % len(v.sectionNames))
out.append('=============================================================================')
open('/verif/spec/PelTables.tla', 'w').write('\n'.join(out) + '\n')
