#!/bin/sh
# tools/prove.sh: check the TLAPS proofs in spec/ with tlapm (in a scratch directory: tlapm writes a cache next to the module)
d=$(mktemp -d /tmp/verif-prove-XXXXXX)
rc=0
cp "$(dirname "$0")"/../spec/*.tla $d/; rm -f $d/TLAPS.tla
for m in CleanWriteN DecodeHistoryProof DataStreamProof SelectionProof DeleteLoopProof "$@"; do
  out=$(cd $d && timeout 900 tlapm $m.tla 2>&1 | grep -E "obligations|ERROR" | head -5)
  echo "$m: $out"
  echo "$out" | grep -q "All [0-9]* obligations proved" || rc=1
done
rm -rf $d
exit $rc
