#!/venv/bin/python
"""tools/mc.py <module> [cfg] [--workers n]: run one bounded model (paths relative to spec/, no suffix),
print states / verdict.  Exit 0 = no violation, 1 = TLC reports a violation (expected for deviation configs)."""
import os
import sys
sys.path.insert(0, os.path.dirname(os.path.dirname(os.path.abspath(__file__))))
from harness import tlc
a = [x for x in sys.argv[1:] if not x.startswith('--')]
workers = 16
for x in sys.argv[1:]:
    if x.startswith('--workers='):
        workers = int(x.split('=')[1])
r = tlc.run_tlc(a[0], a[1] if len(a) > 1 else None, workers=workers, coverage=True, allow_violation=True, xmx='8g')
print('%s %s: distinct=%s generated=%s depth=%s wall=%.1fs violated=%s' % (a[0], a[1] if len(a) > 1 else '', r.distinct, r.generated, r.depth, r.wall, r.violated))
if r.violated or '--out' in sys.argv:
    print(r.out[-2500:])
sys.exit(1 if r.violated else 0)
