#!/bin/sh
# tools/refactor_intake.sh <worktree> <id>: confirm a behaviour-preserving refactoring (tests pass), file it under
# /verif/equivalent/<id>/ and run EVERY claimed quick check on it: all must stay silent (exit 0).
wt=$1; id=$2
cd "$wt" || exit 2
export PYTHONPATH=$wt/modules PYTHONDONTWRITEBYTECODE=1
git diff -- modules > /tmp/t1/refactor_$id.diff
[ -s /tmp/t1/refactor_$id.diff ] || { echo "no changes in $wt"; exit 2; }
t=$(/venv/bin/python -m pytest -q -p no:cacheprovider 2>&1 | tail -1)
echo "CONFIRM $id tests: $t ; diff lines: $(wc -l < /tmp/t1/refactor_$id.diff)"
mkdir -p /verif/equivalent/$id
cp /tmp/t1/refactor_$id.diff /verif/equivalent/$id/patch.diff; [ -f NOTES.md ] && cp NOTES.md /verif/equivalent/$id/NOTES.md
cd /verif
props=$(python3 -c "import json;print(' '.join(c['property_id'] for c in json.load(open('MANIFEST.json'))['checks']))")
/venv/bin/python -m harness.mutate equivalent/$id/patch.diff $props 2>&1 | grep -E "^MUTANT|histogram|MACHINERY|rejected record" | cut -c1-260
