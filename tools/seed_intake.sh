#!/bin/sh
# tools/seed_intake.sh <worktree> <seed-id> <Cxx> [more checks...]
# confirm a sub-agent's change in its scratch worktree, file it under /verif/seeded/<seed-id>/, run our checks on it
wt=$1; id=$2; shift 2
cd "$wt" || exit 2
export PYTHONPATH=$wt/modules PYTHONDONTWRITEBYTECODE=1
git diff -- modules > /tmp/t1/cur.diff
[ -s seeded.diff ] || { echo "no seeded.diff"; exit 2; }
git checkout -q -- . ; git apply seeded.diff || { echo "patch does not apply"; exit 2; }
t=$(/venv/bin/python -m pytest -q -p no:cacheprovider 2>&1 | tail -1)
/venv/bin/python demo.py > /tmp/t1/demo_with.out 2>&1; with=$?
git checkout -q -- .
/venv/bin/python demo.py > /tmp/t1/demo_without.out 2>&1; without=$?
echo "CONFIRM $id tests-with-change: $t | demo with change exit=$with | demo without exit=$without"
mkdir -p /verif/seeded/$id
cp seeded.diff /verif/seeded/$id/patch.diff; cp demo.py /verif/seeded/$id/demo.py; [ -f NOTES.md ] && cp NOTES.md /verif/seeded/$id/NOTES.md
cd /verif
/venv/bin/python -m harness.mutate seeded/$id/patch.diff "$@" 2>&1 | grep -v "^$" | head -12
