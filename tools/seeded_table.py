#!/venv/bin/python
"""Regenerates the table of DESIGN.md section 15.1 from seeded/*/meta.json."""
import glob
import json
import os
import re
V = os.path.dirname(os.path.dirname(os.path.abspath(__file__)))
rows = []
for p in sorted(glob.glob(os.path.join(V, 'seeded', '*', 'meta.json'))):
    m = json.load(open(p))
    esc = lambda t: str(t).replace('|', '\\|').replace('\n', ' ')
    rows.append('| %s | %s | %s | %s |' % (os.path.basename(os.path.dirname(p)), esc(m['change']), esc(m['needs']),
                                          esc(m['detected_by'])))
table = '| id | change | needs | caught by |\n|---|---|---|---|\n' + '\n'.join(rows) + '\n'
d = open(os.path.join(V, 'DESIGN.md')).read()
new = re.sub(r'\| id \| change \| needs \| caught by \|\n\|---\|---\|---\|---\|\n(?:\|.*\n)+', lambda _: table, d, count=1)
open(os.path.join(V, 'DESIGN.md'), 'w').write(new)
print(len(rows), 'rows')
