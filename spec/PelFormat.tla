----------------------------- MODULE PelFormat -----------------------------
(***************************************************************************)
(* Abstract syntax of a PEL and its binary layout - the single statement   *)
(* of "the bytes its section header delimits" (C01-C05).                   *)
(*                                                                         *)
(* PEL     == [ph, uh, secs : Seq(Section)]                                *)
(* ph      == [ver, sub, comp(2), create(8), commit(8), creator, res(2),   *)
(*             count, bmc(4), cssver(8), plid(4), eid(4)]                  *)
(* uh      == [ver, sub, comp(2), subsys, scope, sev, etype, res(4),       *)
(*             pdomain, pvector, flags(2), states(4)]                      *)
(* Section == [kind, id(2), ver, sub, comp(2)] plus, by kind,              *)
(*   "SRC"   srcver, flags, res1, wc, res2(2), words (8 x 4), ascii(32),   *)
(*           callouts : <<>> | <<[id, flags, list : Seq(Callout)]>>        *)
(*   "EH"    mtm(8), sn(12), fw(16), subfw(16), res(4), reftime(8),        *)
(*           res3(3), symptom                                              *)
(*   "MT"    mtm(8), sn(12)                                                *)
(*   "LP"    partid(2), loglog(4), name, targets : Seq(2 bytes), pad(2)    *)
(*   "UD"    payload          "ED"  creator, res(3), payload               *)
(*   "OTHER" payload          (hexdump-only and unknown section ids)       *)
(* Callout == [flags, prio, loc, fru : [flags, pn(0|8), ccin(0|4),         *)
(*             sn(0|12)], pce : <<>> | <<[flags, mtm(8), sn(12), name]>>,  *)
(*             mru : <<>> | <<[flags_hi, res(4), items : Seq([prio(4),     *)
(*             id(4)])]>>]                                                 *)
(* Numbers wider than a byte are byte sequences (TLC integers are 32 bit). *)
(***************************************************************************)
EXTENDS Naturals, Sequences, SequencesExt

U16(n) == <<n \div 256, n % 256>>
Flat(seqs) == FoldLeft(LAMBDA acc, s : acc \o s, <<>>, seqs)

FruBytes(f) == <<73, 68, 4 + Len(f.pn) + Len(f.ccin) + Len(f.sn), f.flags>> \o f.pn \o f.ccin \o f.sn
PceBytes(p) == <<80, 69, 24 + Len(p.name), p.flags>> \o p.mtm \o p.sn \o p.name
MruBytes(m) == <<77, 82, 8 + 8 * Len(m.items), (m.flags_hi \div 16) * 16 + Len(m.items)>> \o m.res
               \o Flat([k \in 1..Len(m.items) |-> m.items[k].prio \o m.items[k].id])
\* the substructures of a callout follow its location code in the order c.order names them (a permutation of
\* "ID", "PE", "MR": the usual order is FRU identity, PCE identity, MRU - a decoder may not rely on it)
SubBytes(c, tag) == CASE tag = "ID" -> FruBytes(c.fru)
                      [] tag = "PE" -> (IF c.pce = <<>> THEN <<>> ELSE PceBytes(c.pce[1]))
                      [] tag = "MR" -> (IF c.mru = <<>> THEN <<>> ELSE MruBytes(c.mru[1]))
CalloutBody(c) == c.loc \o Flat([k \in 1..Len(c.order) |-> SubBytes(c, c.order[k])])
CalloutBytes(c) == <<4 + Len(CalloutBody(c)), c.flags, c.prio, Len(c.loc)>> \o CalloutBody(c)
CalloutsBytes(cs) ==
    LET body == Flat([k \in 1..Len(cs.list) |-> CalloutBytes(cs.list[k])])
    IN  <<cs.id, cs.flags>> \o U16((4 + Len(body)) \div 4) \o body

Body(s) ==
    CASE s.kind = "SRC" ->
            LET co == IF s.callouts = <<>> THEN <<>> ELSE CalloutsBytes(s.callouts[1])
            IN  <<s.srcver, s.flags, s.res1, s.wc>> \o s.res2 \o U16(72 + Len(co))
                \o Flat(s.words) \o s.ascii \o co
      [] s.kind = "EH" -> s.mtm \o s.sn \o s.fw \o s.subfw \o s.res \o s.reftime \o s.res3
                          \o <<Len(s.symptom)>> \o s.symptom
      [] s.kind = "MT" -> s.mtm \o s.sn
      [] s.kind = "LP" -> s.partid \o <<Len(s.name), Len(s.targets)>> \o s.loglog \o s.name
                          \o Flat(s.targets) \o (IF Len(s.targets) % 2 = 1 THEN s.pad ELSE <<>>)
      [] s.kind = "ED" -> <<s.creator>> \o s.res \o s.payload
      [] s.kind \in {"UD", "OTHER"} -> s.payload

Layout(s) == 8 + Len(Body(s))                       \* the section's declared length
SectionBytes(s) == s.id \o U16(Layout(s)) \o <<s.ver, s.sub>> \o s.comp \o Body(s)

PHBytes(ph) == <<80, 72>> \o U16(48) \o <<ph.ver, ph.sub>> \o ph.comp \o ph.create \o ph.commit
               \o <<ph.creator>> \o ph.res \o <<ph.count>> \o ph.bmc \o ph.cssver \o ph.plid \o ph.eid
UHBytes(uh) == <<85, 72>> \o U16(24) \o <<uh.ver, uh.sub>> \o uh.comp
               \o <<uh.subsys, uh.scope, uh.sev, uh.etype>> \o uh.res \o <<uh.pdomain, uh.pvector>>
               \o uh.flags \o uh.states

Encode(pel) == PHBytes(pel.ph) \o UHBytes(pel.uh)
               \o Flat([k \in 1..Len(pel.secs) |-> SectionBytes(pel.secs[k])])

\* offset (0-based) at which optional section k starts, and the end of the PEL
RECURSIVE SecStart(_, _)
SecStart(pel, k) == IF k = 1 THEN 72 ELSE SecStart(pel, k - 1) + Layout(pel.secs[k - 1])
Boundaries(pel) == [k \in 1..(Len(pel.secs) + 1) |-> SecStart(pel, k)]

(***************************************************************************)
(* Structural side conditions of a well-formed PEL                         *)
(***************************************************************************)
BitOn(w, m) == (w \div m) % 2 = 1
FruOK(f) == /\ (Len(f.pn) = 8) = (BitOn(f.flags, 8) \/ BitOn(f.flags, 2))
            /\ Len(f.pn) \in {0, 8}
            \* (both bits may be set: the ONE 8-byte field is then part number and procedure id at once)
            /\ (Len(f.ccin) = 4) = BitOn(f.flags, 4) /\ Len(f.ccin) \in {0, 4}
            /\ (Len(f.sn) = 12) = BitOn(f.flags, 1) /\ Len(f.sn) \in {0, 12}
CalloutOK(c) == /\ Len(c.order) = 3 /\ {c.order[k] : k \in 1..3} = {"ID", "PE", "MR"}
                /\ FruOK(c.fru)
                /\ Len(CalloutBytes(c)) <= 255
                /\ (c.pce # <<>> => Len(c.pce[1].name) >= 1 /\ Len(c.pce[1].mtm) = 8 /\ Len(c.pce[1].sn) = 12)
                /\ (c.mru # <<>> => Len(c.mru[1].items) <= 15)
SectionOK(s) ==
    /\ Len(s.id) = 2 /\ Len(s.comp) = 2
    /\ Layout(s) <= 65535
    /\ CASE s.kind = "SRC" -> /\ s.wc \in 0..9
                              /\ Len(s.words) = 8 /\ Len(s.ascii) = 32
                              /\ BitOn(s.flags, 1) = (s.callouts # <<>>)
                              /\ (s.callouts # <<>> =>
                                    \A k \in 1..Len(s.callouts[1].list) : CalloutOK(s.callouts[1].list[k]))
                              /\ s.id \in {<<80, 83>>, <<83, 83>>}
         [] s.kind = "EH" -> s.id = <<69, 72>> /\ Len(s.symptom) <= 255
         [] s.kind = "MT" -> s.id = <<77, 84>>
         [] s.kind = "LP" -> s.id = <<76, 80>> /\ Len(s.name) <= 255 /\ Len(s.targets) <= 255
         [] s.kind = "UD" -> s.id = <<85, 68>> /\ Len(s.payload) >= 1
         [] s.kind = "ED" -> s.id = <<69, 68>> /\ Len(s.payload) >= 1
         [] s.kind = "OTHER" -> /\ Len(s.payload) >= 1
                                /\ s.id \notin {<<80, 72>>, <<85, 72>>, <<80, 83>>, <<83, 83>>, <<69, 72>>,
                                                <<77, 84>>, <<76, 80>>, <<85, 68>>, <<69, 68>>}
WellFormed(pel) == /\ pel.ph.count = 2 + Len(pel.secs)
                   /\ Len(pel.secs) <= 253
                   /\ \A k \in 1..Len(pel.secs) : SectionOK(pel.secs[k])
=============================================================================
