----------------------------- MODULE DrawerDump -----------------------------
(***************************************************************************)
(* io_drawer/dump.py: an I/O drawer dump = ILOG data followed by zero or   *)
(* more trace buffers (C17).  A trace-buffer header is recognised by the   *)
(* four start bytes 02 20 01 42 followed by one of six buffer names.       *)
(***************************************************************************)
EXTENDS Integers, Sequences, SequencesExt, FiniteSets

START == <<2, 32, 1, 66>>
BufferNames == { <<73, 73, 67, 83>>, <<73, 73, 67, 77>>, <<80, 79, 87, 82>>,       \* IICS IICM POWR
                 <<70, 65, 78, 83>>, <<73, 78, 70, 79>>, <<69, 82, 82, 76>> }      \* FANS INFO ERRL

\* 0-based offsets at which START \o name occurs
Occ(data, name) == {p \in 0..(Len(data) - 8) : SubSeq(data, p + 1, p + 8) = START \o name}
\* the first occurrence of each name (bytes.find)
FirstOccs(data) == {CHOOSE p \in Occ(data, n) : \A q \in Occ(data, n) : p <= q : n \in {m \in BufferNames : Occ(data, m) # {}}}

RECURSIVE SortSet(_)
SortSet(S) == IF S = {} THEN <<>> ELSE LET m == CHOOSE x \in S : \A y \in S : x <= y IN <<m>> \o SortSet(S \ {m})

\* regions [kind, from, to) in address order: the ILOG region first, then one trace region per header
Regions(data) ==
    LET offs == SortSet(FirstOccs(data))
        bounds == offs \o <<Len(data)>>
    IN  <<[kind |-> "ILOG", from |-> 0, to |-> bounds[1]]>>
        \o [k \in 1..Len(offs) |-> [kind |-> "Trace", from |-> offs[k], to |-> bounds[k + 1]]]

\* the regions cover every byte exactly once, in address order
Partition(regs, n) ==
    /\ regs[1].from = 0
    /\ regs[Len(regs)].to = n
    /\ \A k \in 1..(Len(regs) - 1) : regs[k].to = regs[k + 1].from
    /\ \A k \in 1..Len(regs) : regs[k].from <= regs[k].to

(***************************************************************************)
(* Judge clauses.  r: data, sections (seq of [kind, lines]) as found in    *)
(* the real output, alone (seq of the outputs of the stand-alone real      *)
(* decoders on the regions THIS module computes), file_same (decoding the  *)
(* dump written as a hex-dump text file, in either format, gave the same   *)
(* lines), empty_out (BOOLEAN: no output at all)                           *)
(***************************************************************************)
Failing(r) ==
    IF r.data = <<>> THEN {x \in {"EmptyGivesNothing"} : ~r.empty_out}
    ELSE LET regs == Regions(r.data) IN
         {x \in {"PartitionSane", "RegionCount", "RegionKinds", "RegionsDecodedAlone", "RegionBounds", "FileEqualsRaw"} :
            \/ x = "PartitionSane" /\ ~Partition(regs, Len(r.data))
            \/ x = "RegionCount" /\ Len(r.sections) # Len(regs)
            \/ x = "RegionKinds" /\ Len(r.sections) = Len(regs)
                  /\ \E k \in 1..Len(regs) : r.sections[k].kind # regs[k].kind
            \/ x = "RegionBounds" /\ r.bounds # [k \in 1..Len(regs) |-> <<regs[k].from, regs[k].to>>]
            \/ x = "RegionsDecodedAlone" /\ Len(r.sections) = Len(r.alone)
                  /\ \E k \in 1..Len(r.alone) : r.sections[k].lines # r.alone[k]
            \/ x = "FileEqualsRaw" /\ ~r.file_same }
=============================================================================
