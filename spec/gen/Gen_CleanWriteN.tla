-------------------------- MODULE Gen_CleanWriteN --------------------------
(* Emits behaviours of CleanWriteN (the -j -c loop over several files, with  *)
(* every step free to fail and - if AllowCrash - the process free to die at  *)
(* any point) for the harness to REPLAY through the real peltool: each       *)
(* step's outcome becomes a fault injected at the corresponding I/O call of  *)
(* the corresponding file, and the state of the disk afterwards is compared  *)
(* with the final state of the behaviour (Trace_C12, kind "multi").          *)
EXTENDS CleanWriteN, Sequences, TLC, Json, IOUtils
CONSTANT AllowCrash
VARIABLE h
GenFiles == {"f1", "f2", "f3"}
GenNoFile == "-"
Rec(a, f, ok) == [a |-> a, f |-> f, ok |-> ok, at |-> pc]
StepRec ==
    IF pc' = "crashed" THEN Rec("crash", cur, TRUE)
    ELSE CASE pc = "pick" /\ pc' = "decode" -> Rec("pick", cur', TRUE)
           [] pc = "pick" /\ pc' = "done" -> Rec("end", GenNoFile, TRUE)
           [] pc = "decode" -> Rec("decode", cur, pc' = "open")
           [] pc = "open" -> Rec("open", cur, pc' = "write")
           [] pc = "write" /\ pc' = "write" -> Rec("write", cur, TRUE)
           [] pc = "write" /\ pc' = "closefail" -> Rec("write", cur, FALSE)
           [] pc = "write" /\ pc' = "close" -> Rec("written", cur, TRUE)
           [] pc = "close" -> Rec("close", cur, pc' = "remove")
           [] pc = "closefail" -> Rec("closefail", cur, TRUE)
           [] pc = "remove" -> Rec("remove", cur, input' # input)
           [] OTHER -> Rec("?", cur, TRUE)
GInit == Init /\ h = <<>>
GNext == /\ Next
         /\ AllowCrash \/ pc' # "crashed"
         /\ h' = Append(h, StepRec)
GSpec == GInit /\ [][GNext]_<<vars, h>>
Emit == pc \in {"done", "crashed"} =>
          Serialize(ToJson([steps |-> h, input |-> input, out |-> out, crashed |-> pc = "crashed"]) \o "\n",
                    IOEnv.GEN_FILE,
                    [format |-> "TXT", charset |-> "UTF-8",
                     openOptions |-> <<"WRITE", "CREATE", "APPEND">>]).exitValue = 0
=============================================================================
