SPECIFICATION Spec
CONSTANTS
  MaxLen = 3
CHECK_DEADLOCK FALSE
