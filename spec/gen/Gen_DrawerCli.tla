--------------------------- MODULE Gen_DrawerCli ---------------------------
(* Emits every command line of DrawerCli (288) for the harness to run        *)
(* through the real io_drawer/dump.py main().                                *)
EXTENDS Naturals, Sequences, FiniteSets, TLC, Json, IOUtils, SequencesExt
D == INSTANCE DrawerCli WITH line <- [type |-> "mex"], pc <- "", status <- 0, shows <- "", hdr <- <<>>, str <- <<>>
ASSUME ndJsonSerialize(IOEnv.GEN_FILE, SetToSeq(D!Lines))
VARIABLE x
Spec == x = 0 /\ [][x' = x]_x
=============================================================================
