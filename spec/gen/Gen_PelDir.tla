----------------------------- MODULE Gen_PelDir -----------------------------
(* Generator of command sequences for C11 (spec -> code direction).  The     *)
(* abstract tree says which of a fixed set of abstract files exist; the      *)
(* effect of each command on it follows the rules of PelDir.tla, so that     *)
(* later commands of a behaviour meet the situations earlier ones created    *)
(* (delete after delete, list after delete-all, json into the PEL dir ...).  *)
(* Run with -simulate; each behaviour of Depth commands is appended to       *)
(* IOEnv.GEN_FILE as one JSON line [tree0, cmds].  The harness builds a      *)
(* concrete tree for tree0, runs the real CLI for every command and the      *)
(* trace judge decides each step.                                            *)
EXTENDS Naturals, Sequences, FiniteSets, TLC, Json, IOUtils
CONSTANT Depth

\* abstract files directly in the directory; the number is the entry id class
\* whose id the NAME contains (0 = none); kind says what the file holds
TopUniverse == { [f |-> "p1", nameid |-> 1, holds |-> "pel1"],
                 [f |-> "p1b", nameid |-> 1, holds |-> "pel2"],    \* name contains id 1, holds PEL 2
                 [f |-> "p2", nameid |-> 2, holds |-> "pel2hidden"],
                 [f |-> "p3", nameid |-> 0, holds |-> "pel3"],     \* name does not contain its id
                 [f |-> "j1", nameid |-> 3, holds |-> "junk"],
                 [f |-> "o1", nameid |-> 0, holds |-> "text"] }
SubUniverse == { "none", "archive_with_pel1", "dir_named_id1" }

IdArgs == {1, 2, 3, 4, 5, 6}      \* 4: an id no file name contains; 5, 6: ids with leading zeros (0x00001234, 0)
Kinds == {"list", "all", "count", "plid", "src", "srcex", "id", "bmcid", "listhex", "allrev", "listext",
          "delete", "deleteall", "json", "jsonout", "jsonclean", "file", "fileclean", "filehex",
          "list+deleteall", "count+delete", "deletebadid", "all+deleteall", "plid+delete"}
WithId == {"id", "delete", "count+delete", "plid+delete", "plid"}
WithFile == {"file", "fileclean", "filehex"}

VARIABLES top, sub, tree0, cmds
vars == <<top, sub, tree0, cmds>>

Init == /\ top \in {T \in SUBSET TopUniverse : Cardinality(T) >= 2}
        /\ sub \in SubUniverse
        /\ tree0 = [top |-> {t.f : t \in top}, sub |-> sub]
        /\ cmds = <<>>

Effect(c, T) ==
    CASE c.k = "delete" ->
            LET cands == {t \in T : t.nameid = c.id} IN
            IF cands = {} THEN {T} ELSE {T \ {x} : x \in cands}
      [] c.k = "deleteall" -> {{}}
      [] c.k = "jsonclean" -> {{t \in T : t.holds \notin {"pel1", "pel2", "pel3"}}}
      [] c.k = "fileclean" -> {{t \in T : t.f # c.f}, T}
      [] OTHER -> {T}

Cmd(k) == IF k \in WithId THEN {[k |-> k, id |-> i] : i \in IdArgs}
          ELSE IF k \in WithFile THEN {[k |-> k, f |-> t.f] : t \in TopUniverse}
          ELSE {[k |-> k]}

Next == /\ Len(cmds) < Depth
        /\ \E k \in Kinds : \E c \in Cmd(k) :
              /\ cmds' = Append(cmds, c)
              /\ top' \in Effect(c, top)
        /\ UNCHANGED <<sub, tree0>>
Spec == Init /\ [][Next]_vars

Emit == Len(cmds) = Depth =>
          Serialize(ToJson([tree0 |-> tree0, cmds |-> cmds]) \o "\n", IOEnv.GEN_FILE,
                    [format |-> "TXT", charset |-> "UTF-8",
                     openOptions |-> <<"WRITE", "CREATE", "APPEND">>]).exitValue = 0
=============================================================================
