SPECIFICATION GSpec
CONSTANTS
  Mods <- GenMods
  Absent <- GenAbsent
  Broken <- GenBroken
  Variant = "repaired"
  MaxHistory = 100
  Depth = 2
INVARIANT Emit
CHECK_DEADLOCK FALSE
