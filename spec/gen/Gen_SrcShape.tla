---------------------------- MODULE Gen_SrcShape ----------------------------
(* Emits every callout shape: legal FRU-identity flag combination (part       *)
(* number | maintenance procedure | neither) x CCIN x serial number, optional *)
(* PCE identity (name of 1, 4 or 12 bytes), optional MRU list (0, 1, 2 or 15  *)
(* ids), location-code length.  The harness composes SRC sections from them.  *)
EXTENDS Integers, Sequences, FiniteSets, TLC, Json, IOUtils, FiniteSetsExt, SequencesExt
Fru == {"", "p", "m", "c", "s", "pc", "ps", "pcs", "mc", "ms", "mcs", "cs", "pm", "pmc", "pms", "pmcs"}
Pce == {-1, 1, 4, 12}
Mru == {-1, 0, 1, 2, 15}
Loc == {0, 4, 20, 80}
Shapes == {[fru |-> f, pce |-> p, mru |-> m, loc |-> l] : f \in Fru, p \in Pce, m \in Mru, l \in Loc}
ASSUME ndJsonSerialize(IOEnv.GEN_FILE, SetToSeq(Shapes))
VARIABLE x
Spec == x = 0 /\ [][x' = x]_x
=============================================================================
