----------------------------- MODULE Gen_UDRoute -----------------------------
(* Emits the route space of user-data-like sections: section kind x selecting *)
(* creator class x component class x sub-type class x plugins on/off x parser *)
(* behaviour.  UserData!Route is total over it (checked by MC_UserData).      *)
EXTENDS UserData, FiniteSets, TLC, Json, IOUtils, FiniteSetsExt
Kinds == {"UD", "ED", "OTHER"}
Creators == {"bmc", "fixture", "plain"}     \* 'O' | a creator with fixture parser modules | one without
Comps == {"builtin", "served", "unserved"}  \* 0x2000 | a component a parser module serves | any other
Subs == {1, 2, 3, 4, 85}
Behs == {"absent", "ok", "nondict", "none", "raise", "raise_empty", "importerror", "importfails"}
Routes == {[kind |-> k, creator |-> c, comp |-> m, sub |-> s, plugins |-> p, beh |-> b] :
              k \in Kinds, c \in Creators, m \in Comps, s \in Subs, p \in BOOLEAN, b \in Behs}
\* behaviours make sense only where a parser module can be consulted
Sensible(r) == /\ (r.beh # "absent") = (r.comp = "served" /\ r.creator = "fixture" /\ r.kind # "OTHER")
               /\ (r.comp = "served" => r.creator = "fixture")
ASSUME ndJsonSerialize(IOEnv.GEN_FILE, SetToSeq({r \in Routes : Sensible(r)}))
VARIABLE x
Spec == x = 0 /\ [][x' = x]_x
=============================================================================
