SPECIFICATION GSpec
CONSTANTS
  Files <- GenFiles
  NoFile <- GenNoFile
  NChunks = 2
  AllowCrash = TRUE
INVARIANT Emit
CHECK_DEADLOCK FALSE
