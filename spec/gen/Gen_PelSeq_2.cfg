SPECIFICATION Spec
CONSTANTS
  MaxLen = 2
CHECK_DEADLOCK FALSE
