----------------------------- MODULE Gen_CliModes -----------------------------
(* Emits every combination of the twelve mode options of peltool (plus the     *)
(* --clean switch): the harness runs each combination on a tree and the judge  *)
(* demands that the tree changes as ONE of the named modes allows (the         *)
(* statement does not fix which one wins when several are named) - C11's       *)
(* "all CLI modes and option combinations".                                    *)
EXTENDS Naturals, Sequences, FiniteSets, TLC, Json, IOUtils, FiniteSetsExt, SequencesExt
Modes == {"file", "json", "id", "bmcid", "plid", "src", "srcex", "list", "count", "all", "delete", "deleteall"}
Combos == {[modes |-> SetToSeq(S), clean |-> c] : S \in SUBSET Modes, c \in BOOLEAN}
ASSUME ndJsonSerialize(IOEnv.GEN_FILE, SetToSeq(Combos))
VARIABLE x
Spec == x = 0 /\ [][x' = x]_x
=============================================================================
