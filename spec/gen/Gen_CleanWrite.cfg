SPECIFICATION Spec
CONSTANTS
  Variant = "repaired"
CHECK_DEADLOCK FALSE
