-------------------------- MODULE Gen_DecodeHistory --------------------------
(* Emits behaviours of DecodeHistory (sequences of consultations of parser    *)
(* modules through the three import caches) as NDJSON: with -simulate, each   *)
(* behaviour of Depth items is one line.  The harness realises every item as  *)
(* a PEL, decodes the sequence in ONE interpreter and each PEL again in a     *)
(* fresh one; Trace_C19 replays the history through DecodeHistory!ImplStep.   *)
EXTENDS DecodeHistory, TLC, Json, IOUtils
CONSTANT Depth
VARIABLE h
GInit == Init /\ h = <<>>
GNext == /\ Len(h) < Depth
         /\ \E it \in Items : Decode(it) /\ h' = Append(h, it)
GSpec == GInit /\ [][GNext]_<<vars, h>>
Emit == Len(h) = Depth =>
          Serialize(ToJson([items |-> h]) \o "\n", IOEnv.GEN_FILE,
                    [format |-> "TXT", charset |-> "UTF-8",
                     openOptions |-> <<"WRITE", "CREATE", "APPEND">>]).exitValue = 0
GenMods == {"m1", "m2"}
GenAbsent == {"a1"}
GenBroken == {"b1"}
=============================================================================
