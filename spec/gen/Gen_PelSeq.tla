----------------------------- MODULE Gen_PelSeq -----------------------------
(* Emits every sequence of <= MaxLen optional-section kind classes (structure *)
(* of a PEL; the harness fills shapes and values).  Classes: PS SS EH MT LP UD *)
(* ED, HD (one of the hexdump-only ids), XX (unknown id), and the three        *)
(* unknown ids that collide with callout substructure tags: TI='ID' TP='PE'    *)
(* TM='MR'.                                                                    *)
EXTENDS Naturals, Sequences, FiniteSets, TLC, Json, IOUtils, FiniteSetsExt, SequencesExt
CONSTANT MaxLen
Kinds == {"PS", "SS", "EH", "MT", "LP", "UD", "ED", "HD", "XX", "TI", "TP", "TM"}
Seqs == UNION {[1..n -> Kinds] : n \in 0..MaxLen}
ASSUME ndJsonSerialize(IOEnv.GEN_FILE, SetToSeq({[kinds |-> s] : s \in Seqs}))
VARIABLE x
Spec == x = 0 /\ [][x' = x]_x
=============================================================================
