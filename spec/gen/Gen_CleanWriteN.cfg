SPECIFICATION GSpec
CONSTANTS
  Files <- GenFiles
  NoFile <- GenNoFile
  NChunks = 2
  AllowCrash = FALSE
INVARIANT Emit
CHECK_DEADLOCK FALSE
