--------------------------- MODULE Gen_CleanWrite ---------------------------
(* Emits every fault schedule of CleanWrite (every initial state: mode x the *)
(* step that fails) as NDJSON into IOEnv.GEN_FILE; the harness replays each  *)
(* against the real code with faults injected at the I/O seam.               *)
EXTENDS CleanWrite, TLC, Json, IOUtils, FiniteSetsExt, SequencesExt
Schedules == {[mode |-> m, fault |-> f] : m \in Modes, f \in Faults}
Valid == {s \in Schedules : s.fault \in FaultsOf(s.mode)}
ASSUME ndJsonSerialize(IOEnv.GEN_FILE, SetToSeq(Valid))
=============================================================================
