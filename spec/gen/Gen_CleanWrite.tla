--------------------------- MODULE Gen_CleanWrite ---------------------------
(* Emits every fault schedule of CleanWrite (every initial state: mode x the *)
(* step that fails) as NDJSON into IOEnv.GEN_FILE; the harness replays each  *)
(* against the real code with faults injected at the I/O seam.               *)
EXTENDS CleanWrite, TLC, Json, IOUtils, FiniteSetsExt, SequencesExt
\* the error the failing step raises: ENOSPC / EIO are OSError, EPIPE is BrokenPipeError
Errors == {"ENOSPC", "EIO", "EPIPE"}
IOFaults == {"open", "write", "flush", "close"}
Schedules == {[mode |-> m, fault |-> f, err |-> e] : m \in Modes, f \in Faults, e \in Errors}
Valid == {s \in Schedules : s.fault \in FaultsOf(s.mode) /\ (s.fault \notin IOFaults => s.err = "EIO")}
ASSUME ndJsonSerialize(IOEnv.GEN_FILE, SetToSeq(Valid))
=============================================================================
