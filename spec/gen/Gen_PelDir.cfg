SPECIFICATION Spec
CONSTANTS
  Depth = 4
INVARIANT Emit
CHECK_DEADLOCK FALSE
