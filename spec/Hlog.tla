-------------------------------- MODULE Hlog --------------------------------
(***************************************************************************)
(* io_drawer/hlog.py: history log = full hex dump + the non-zero fields    *)
(* (C16).  fields: sequence of [name (code points), size (1 | 2)] in       *)
(* header-file order.                                                      *)
(***************************************************************************)
EXTENDS Integers, Sequences, SequencesExt, HexDump

\* offsets: fields are consumed contiguously from 0
RECURSIVE Offset(_, _)
Offset(fields, k) == IF k = 1 THEN 0 ELSE Offset(fields, k - 1) + fields[k - 1].size
Fits(fields, k, n) == Offset(fields, k) + fields[k].size <= n
\* listing stops at the first field that does not fit
LastFitting(fields, n) ==
    LET Bad == {k \in 1..Len(fields) : ~Fits(fields, k, n)}
    IN  IF Bad = {} THEN Len(fields) ELSE (CHOOSE k \in Bad : \A j \in Bad : k <= j) - 1
ValueBytes(data, fields, k) == SubSeq(data, Offset(fields, k) + 1, Offset(fields, k) + fields[k].size)
NonZero(bs) == \E j \in 1..Len(bs) : bs[j] # 0
HexUpper(bs) == FoldLeft(LAMBDA acc, b : acc \o Hex2(b), <<>>, bs)

\* the listed fields: [name, digits (2 * size upper-case hex digits)]
NonZeroFields(data, fields) ==
    LET last == LastFitting(fields, Len(data))
        keep == SelectSeq([k \in 1..last |-> k], LAMBDA k : NonZero(ValueBytes(data, fields, k)))
    IN  [j \in 1..Len(keep) |-> [name |-> fields[keep[j]].name, digits |-> HexUpper(ValueBytes(data, fields, keep[j]))]]
=============================================================================
