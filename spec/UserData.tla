------------------------------ MODULE UserData ------------------------------
(***************************************************************************)
(* How a user-data, extended-user-data or decoder-less section is routed   *)
(* and what its entry must contain (C04), and which parser module is       *)
(* consulted with which arguments (C18).                                   *)
(*                                                                         *)
(* A section is seen as [kind ("UD" | "ED" | "OTHER"), creator (the byte   *)
(* that selects the parser: the PEL's creator for UD, the section's own    *)
(* for ED), comp (2 bytes), sub, ver, payload].                            *)
(* beh is the behaviour of the parser module for this call:                *)
(*   "absent" (no such module), "ok" (returns a JSON object), "nondict"    *)
(*   (returns other JSON), "none" (returns None), "raise" (raises),        *)
(*   "raise_empty" (raises an exception whose message is empty),          *)
(*   "importerror" (raises ImportError from inside the call),              *)
(*   "importfails" (the module exists but raises something other than      *)
(*   ImportError while being loaded - the parser function is never run).   *)
(***************************************************************************)
EXTENDS Integers, Sequences, SequencesExt, HexDump

BMC == 79
IsBuiltin(s) == s.kind \in {"UD", "ED"} /\ s.creator = BMC /\ s.comp = <<32, 0>>

\* outcome classes of the statement
\*   "json"   the built-in JSON value itself        "text"  the built-in text lines
\*   "plugin" whatever the parser module returned   "dump"  lossless hex dump
\*   "dump+error" lossless hex dump plus an error note
Route(s, plugins, beh) ==
    IF s.kind = "OTHER" THEN "dump"
    ELSE IF IsBuiltin(s) THEN (IF s.sub = 1 THEN "json" ELSE IF s.sub = 3 THEN "text" ELSE "dump")
    ELSE IF ~plugins THEN "dump"
    ELSE CASE beh = "absent" -> "dump"
           [] beh \in {"ok", "nondict"} -> "plugin"
           [] beh \in {"none", "raise", "raise_empty", "importerror", "importfails"} -> "dump+error"

\* NeverDropped: every route ends in exactly one class, and every class other than a
\* rendering carries the payload
Classes == {"json", "text", "plugin", "dump", "dump+error"}
CarriesDump(c) == c \in {"dump", "dump+error"}

\* built-in text: lines split on LF, characters outside 0x20..0x7E shown as '.';
\* NUL padding at the end is not text
RECURSIVE RStripNul(_)
RStripNul(s) == IF s # <<>> /\ s[Len(s)] = 0 THEN RStripNul(SubSeq(s, 1, Len(s) - 1)) ELSE s
Dot(c) == IF c < 32 \/ c > 126 THEN 46 ELSE c
TextLines(payload) ==
    LET t == RStripNul(payload)
        step(st, c) == IF c = 10 THEN [lines |-> Append(st.lines, st.cur), cur |-> <<>>]
                       ELSE [lines |-> st.lines, cur |-> Append(st.cur, Dot(c))]
        fin == FoldLeft(step, [lines |-> <<>>, cur |-> <<>>], t)
    IN  IF fin.cur # <<>> THEN Append(fin.lines, fin.cur) ELSE fin.lines

Lossless(lines, payload) == Parse(lines, Template(16, 4)) = payload

(***************************************************************************)
(* Parser modules (C18)                                                    *)
(***************************************************************************)
Lower(c) == IF 65 <= c /\ c <= 90 THEN c + 32 ELSE c
HexLow(n) == IF n < 10 THEN 48 + n ELSE 87 + n
Hex4Lower(comp) == <<HexLow(comp[1] \div 16), HexLow(comp[1] % 16), HexLow(comp[2] \div 16), HexLow(comp[2] % 16)>>
DOT == <<46>>
Str(s) == s   \* names are code-point sequences; these literals spell the package names
UDPARSERS == <<117, 100, 112, 97, 114, 115, 101, 114, 115>>                      \* "udparsers"
SRCPARSERS == <<115, 114, 99, 112, 97, 114, 115, 101, 114, 115>>                 \* "srcparsers"
CALLOUTPARSERS == <<99, 97, 108, 108, 111, 117, 116, 112, 97, 114, 115, 101, 114, 115>>   \* "calloutparsers"
SRC == <<115, 114, 99>>                                                          \* "src"
CALLOUTS == <<99, 97, 108, 108, 111, 117, 116, 115>>                             \* "callouts"

UdModName(creator, comp) ==
    LET n == <<Lower(creator)>> \o Hex4Lower(comp) IN UDPARSERS \o DOT \o n \o DOT \o n
SrcModName(creator) ==
    LET n == <<Lower(creator)>> \o SRC IN SRCPARSERS \o DOT \o n \o DOT \o n
CalloutModName(creator) ==
    LET n == <<Lower(creator)>> \o CALLOUTS IN CALLOUTPARSERS \o DOT \o n \o DOT \o n
\* the BMC SRC wrapper: component named by characters 5-6 of the reference code, or the
\* hostboot parser for BC codes
OsrcTarget(ascii) ==
    IF SubSeq(ascii, 1, 2) = <<66, 67>>
    THEN SRCPARSERS \o DOT \o <<98, 115, 114, 99>> \o DOT \o <<98, 115, 114, 99>>
    ELSE LET n == <<111, Lower(ascii[5]), Lower(ascii[6]), 48, 48>> IN SRCPARSERS \o DOT \o n \o DOT \o n
=============================================================================
