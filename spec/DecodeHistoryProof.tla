------------------------- MODULE DecodeHistoryProof -------------------------
(***************************************************************************)
(* DecodeHistory.tla is checked by TLC for histories of length <= 3 over   *)
(* two present, one absent and one broken module.  This module proves the  *)
(* statement of C19 at the design level for EVERY history length and every *)
(* set of modules: with the import caches used the way the repaired code   *)
(* uses them, the result of a consultation never depends on what was       *)
(* consulted before it (HistoryIndependent), and a module that exists is   *)
(* never remembered as missing (NoPoisoning).  Checked by tlapm            *)
(* (tools/prove.sh, ./check C19).                                          *)
(***************************************************************************)
EXTENDS DecodeHistory, TLAPS

ASSUME Repaired == Variant = "repaired"
ASSUME Disjoint == Mods \cap Absent = {} /\ Mods \cap Broken = {} /\ Absent \cap Broken = {}
ASSUME HistNat == MaxHistory \in Nat

CacheStates == {"unseen", "module", "none"}
TypeOK == /\ cache \in [Caches -> [Names -> CacheStates]]
          /\ hist \in Nat

\* what the caches can hold: a present module is unseen or loaded, an absent one unseen or known to be missing,
\* a broken one is remembered as missing only by the SRC and callout sites
CacheOK == \A c \in Caches :
             /\ \A m \in Mods : cache[c][m] \in {"unseen", "module"}
             /\ \A a \in Absent : cache[c][a] \in {"unseen", "none"}
             /\ \A b \in Broken : cache[c][b] \in (IF c \in {"src", "co"} THEN {"unseen", "none"} ELSE {"unseen"})

IndInv == TypeOK /\ CacheOK /\ HistoryIndependent

LEMMA StepResult ==
    ASSUME NEW it \in Items, NEW c \in [Caches -> [Names -> CacheStates]],
           \A k \in Caches :
             /\ \A m \in Mods : c[k][m] \in {"unseen", "module"}
             /\ \A a \in Absent : c[k][a] \in {"unseen", "none"}
             /\ \A b \in Broken : c[k][b] \in (IF k \in {"src", "co"} THEN {"unseen", "none"} ELSE {"unseen"})
    PROVE  /\ ImplStep(it, c).result = Rule(it)
           /\ ImplStep(it, c).cache \in [Caches -> [Names -> CacheStates]]
           /\ \A k \in Caches :
                /\ \A m \in Mods : ImplStep(it, c).cache[k][m] \in {"unseen", "module"}
                /\ \A a \in Absent : ImplStep(it, c).cache[k][a] \in {"unseen", "none"}
                /\ \A b \in Broken : ImplStep(it, c).cache[k][b]
                                        \in (IF k \in {"src", "co"} THEN {"unseen", "none"} ELSE {"unseen"})
  <1> USE Repaired, Disjoint DEF Items, Caches, Behs, Names, CacheStates, Key, Poisons
  <1>1. it.cache \in Caches /\ it.mod \in Names /\ it.plugins \in BOOLEAN /\ it.beh \in Behs OBVIOUS
  <1>2. CASE ~it.plugins
        BY <1>2 DEF ImplStep, Rule, RuleAbsent
  <1>3. CASE it.plugins /\ it.mod \in Absent
        BY <1>3 DEF ImplStep, Rule, RuleAbsent
  <1>4. CASE it.plugins /\ it.mod \in Broken
        BY <1>4 DEF ImplStep, Rule, RuleAbsent, RuleBroken
  <1>5. CASE it.plugins /\ it.mod \in Mods
    <2>1. it.mod \notin Absent /\ it.mod \notin Broken BY <1>5
    <2>2. c[it.cache][it.mod] \in {"unseen", "module"} BY <1>5
    <2>3. ImplStep(it, c) = [result |-> RuleResult(it), cache |-> [c EXCEPT ![it.cache][it.mod] = "module"]]
          BY <1>5, <2>1, <2>2 DEF ImplStep
    <2>4. Rule(it) = RuleResult(it) BY <1>5, <2>1 DEF Rule
    <2>5. [c EXCEPT ![it.cache][it.mod] = "module"] \in [Caches -> [Names -> CacheStates]] BY <1>1
    <2> DEFINE c2 == [c EXCEPT ![it.cache][it.mod] = "module"]
    <2>6. \A k \in Caches : \A n \in Names :
            c2[k][n] = IF k = it.cache /\ n = it.mod THEN "module" ELSE c[k][n]
          BY <1>1
    <2>7. \A k \in Caches :
             /\ \A m \in Mods : c2[k][m] \in {"unseen", "module"}
             /\ \A a \in Absent : c2[k][a] \in {"unseen", "none"}
             /\ \A b \in Broken : c2[k][b] \in (IF k \in {"src", "co"} THEN {"unseen", "none"} ELSE {"unseen"})
          BY <2>1, <2>6
    <2> QED BY <2>3, <2>4, <2>5, <2>7
  <1> QED BY <1>1, <1>2, <1>3, <1>4, <1>5

THEOREM InitInv == Init => IndInv
  BY DEF Init, IndInv, TypeOK, CacheOK, HistoryIndependent, CacheStates, Caches, Names

THEOREM StepInv == IndInv /\ [Next]_vars => IndInv'
  <1> SUFFICES ASSUME IndInv, [Next]_vars PROVE IndInv' OBVIOUS
  <1>1. CASE UNCHANGED vars
        BY <1>1 DEF vars, IndInv, TypeOK, CacheOK, HistoryIndependent
  <1>2. CASE Next
    <2>1. PICK it \in Items : Decode(it) BY <1>2 DEF Next
    <2>2. /\ ImplStep(it, cache).result = Rule(it)
          /\ ImplStep(it, cache).cache \in [Caches -> [Names -> CacheStates]]
          /\ \A k \in Caches :
               /\ \A m \in Mods : ImplStep(it, cache).cache[k][m] \in {"unseen", "module"}
               /\ \A a \in Absent : ImplStep(it, cache).cache[k][a] \in {"unseen", "none"}
               /\ \A b \in Broken : ImplStep(it, cache).cache[k][b]
                                       \in (IF k \in {"src", "co"} THEN {"unseen", "none"} ELSE {"unseen"})
          BY StepResult DEF IndInv, TypeOK, CacheOK
    <2>3. cache' = ImplStep(it, cache).cache /\ lastResult' = ImplStep(it, cache).result /\ last' = it
          /\ hist' = hist + 1
          BY <2>1 DEF Decode
    <2> QED BY <2>2, <2>3 DEF IndInv, TypeOK, CacheOK, HistoryIndependent
  <1> QED BY <1>1, <1>2

THEOREM Independence == Spec => [](HistoryIndependent /\ NoPoisoning)
  <1>1. IndInv => HistoryIndependent /\ NoPoisoning
        BY DEF IndInv, CacheOK, NoPoisoning
  <1> QED BY InitInv, StepInv, <1>1, PTL DEF Spec
=============================================================================
