----------------------------- MODULE PelDisplay -----------------------------
(***************************************************************************)
(* What the tool must show for each header-type section and for SRCs       *)
(* (C02, C03): Show*(abstract section, env) gives the expected display as  *)
(* a record of normalised fields; harness/project.py brings the real JSON  *)
(* entry into the same shape (ids and counts as numbers / byte sequences,  *)
(* text as code points, table names and True/False as the printed          *)
(* strings).  Absent optional text is <<-1>>, absent optional flag "absent".*)
(*                                                                         *)
(* env == [names : Seq([creator, comp (4 hex code points), name (code      *)
(*         points)])]  - component names from a registry directory, empty  *)
(*         when none is installed.                                         *)
(***************************************************************************)
EXTENDS Integers, Sequences, SequencesExt, FiniteSets, PelTables

HexU(n) == IF n < 10 THEN 48 + n ELSE 55 + n
HexL(n) == IF n < 10 THEN 48 + n ELSE 87 + n
Hex2U(b) == <<HexU(b \div 16), HexU(b % 16)>>
Hex2L(b) == <<HexL(b \div 16), HexL(b % 16)>>
HexBytesU(bs) == FoldLeft(LAMBDA acc, b : acc \o Hex2U(b), <<>>, bs)
DBitOn(w, m) == (w \div m) % 2 = 1
TF(b) == IF b THEN "True" ELSE "False"
ABSENT == <<-1>>

\* str.strip("\u0000") and rstrip
RECURSIVE LStrip(_, _)
LStrip(s, X) == IF s # <<>> /\ Head(s) \in X THEN LStrip(Tail(s), X) ELSE s
RECURSIVE RStrip(_, _)
RStrip(s, X) == IF s # <<>> /\ s[Len(s)] \in X THEN RStrip(SubSeq(s, 1, Len(s) - 1), X) ELSE s
Strip(s, X) == RStrip(LStrip(s, X), X)
NUL == {0}
WS == {9, 10, 11, 12, 13, 28, 29, 30, 31, 32}        \* what str.strip() removes in ASCII

\* BCD time stamp YYYY MM DD hh mm ss cc  ->  MM/DD/YYYY hh:mm:ss
Timestamp(t) == Hex2L(t[3]) \o <<47>> \o Hex2L(t[4]) \o <<47>> \o Hex2L(t[1]) \o Hex2L(t[2]) \o <<32>>
                \o Hex2L(t[5]) \o <<58>> \o Hex2L(t[6]) \o <<58>> \o Hex2L(t[7])

CompDisplay(comp, creator, env) ==
    IF creator = 72 THEN (IF comp[1] # 0 /\ comp[2] # 0 THEN <<comp[1], comp[2]>> ELSE HexBytesU(comp))
    ELSE LET hits == SelectSeq(env.names, LAMBDA e : e.creator = creator /\ e.comp = HexBytesU(comp))
         IN  IF hits # <<>> THEN hits[1].name ELSE HexBytesU(comp)

ShowPH(ph, env) ==
    [ver |-> ph.ver, sub |-> ph.sub, createdby |-> CompDisplay(ph.comp, ph.creator, env),
     created |-> Timestamp(ph.create), committed |-> Timestamp(ph.commit),
     creator |-> CreatorName(ph.creator), cssver |-> ph.cssver, plid |-> ph.plid, eid |-> ph.eid,
     bmc |-> ph.bmc]

ActionFlagSet(f) == {ActionFlagName(b) : b \in {x \in ActionFlagBits : DBitOn(f[1] * 256 + f[2], x)}}

ShowUH(uh, creator, env) ==
    [ver |-> uh.ver, sub |-> uh.sub, committedby |-> CompDisplay(uh.comp, creator, env),
     subsystem |-> SubsystemName(uh.subsys), scope |-> ScopeName(uh.scope),
     severity |-> SeverityName(uh.sev), etype |-> EventTypeName(uh.etype),
     flags |-> ActionFlagSet(uh.flags),
     host |-> TransmissionName(uh.states[4]), hmc |-> TransmissionName(uh.states[3])]

ShowEH(s, creator, env) ==
    [ver |-> s.ver, sub |-> s.sub, createdby |-> CompDisplay(s.comp, creator, env),
     mtm |-> Strip(s.mtm, NUL), sn |-> Strip(s.sn, NUL), fw |-> Strip(s.fw, NUL),
     subfw |-> Strip(s.subfw, NUL), reftime |-> Timestamp(s.reftime),
     symlen |-> Len(s.symptom), symptom |-> Strip(s.symptom, NUL)]

ShowMT(s, creator, env) ==
    [ver |-> s.ver, sub |-> s.sub, createdby |-> CompDisplay(s.comp, creator, env),
     mtm |-> Strip(s.mtm, NUL), sn |-> Strip(s.sn, NUL)]

ShowLP(s, creator, env) ==
    [ver |-> s.ver, sub |-> s.sub, createdby |-> CompDisplay(s.comp, creator, env),
     partid |-> s.partid, namelen |-> Len(s.name), count |-> Len(s.targets), loglog |-> s.loglog,
     name |-> RStrip(s.name, NUL), targets |-> s.targets]

(***************************************************************************)
(* SRC                                                                     *)
(***************************************************************************)
OptText(present, t) == IF present THEN t ELSE ABSENT

ShowCallout(c) ==
    LET f == c.fru IN
    [frutype |-> FruTypeName((f.flags \div 16) * 16),
     prio |-> PriorityName(c.prio),
     loc |-> OptText(Strip(c.loc, NUL) # <<>>, Strip(c.loc, NUL)),
     pn |-> OptText(DBitOn(f.flags, 8), Strip(f.pn, NUL)),
     proc |-> OptText(DBitOn(f.flags, 2), Strip(f.pn, NUL)),
     ccin |-> OptText(DBitOn(f.flags, 4), Strip(f.ccin, NUL)),
     sn |-> OptText(DBitOn(f.flags, 1), Strip(f.sn, NUL)),
     pcemtms |-> IF c.pce # <<>> /\ Strip(c.pce[1].mtm, NUL) # <<>>
                 THEN Strip(c.pce[1].mtm, NUL) \o <<95>> \o Strip(c.pce[1].sn, NUL) ELSE ABSENT,
     pcename |-> IF c.pce # <<>> /\ Strip(c.pce[1].name, NUL) # <<>> THEN Strip(c.pce[1].name, NUL) ELSE ABSENT,
     mruid |-> IF c.mru = <<>> THEN ABSENT
               ELSE FoldLeft(LAMBDA acc, k : acc \o (IF k = 1 THEN <<>> ELSE <<44>>) \o HexBytesU(c.mru[1].items[k].id),
                             <<>>, [k \in 1..Len(c.mru[1].items) |-> k])]

SrcType(s) == SubSeq(s.ascii, 1, 2)
IsBmcSrc(s) == SrcType(s) \in {<<66, 68>>, <<49, 49>>}
IsHbSrc(s) == SrcType(s) = <<66, 67>>

\* registry: env.registry is a sequence of [type (2 code points), reason (4 code points, upper case),
\* message (code points, with %1..%9), args (seq of word numbers 2..9)]
RegHits(s, env) == SelectSeq(env.registry, LAMBDA e : e.type = SrcType(s) /\ e.reason = SubSeq(s.ascii, 5, 8))

ShowSRC(s, creator, env) ==
    [ver |-> s.ver, sub |-> s.sub, createdby |-> CompDisplay(s.comp, creator, env),
     srcver |-> s.srcver, format |-> s.words[1][4],
     virt |-> TF(DBitOn(s.flags, 128)), i5 |-> TF(DBitOn(s.flags, 16)), hyp |-> TF(DBitOn(s.flags, 4)),
     ccin |-> IF IsBmcSrc(s) THEN SubSeq(s.words[2], 1, 2) ELSE ABSENT,
     term |-> IF IsBmcSrc(s) THEN TF(DBitOn(s.words[4][1], 32)) ELSE "absent",
     deconf |-> IF IsBmcSrc(s) \/ IsHbSrc(s) THEN TF(DBitOn(s.words[4][1], 2)) ELSE "absent",
     guarded |-> IF IsBmcSrc(s) \/ IsHbSrc(s) THEN TF(DBitOn(s.words[4][1], 1)) ELSE "absent",
     wc |-> s.wc, refcode |-> Strip(s.ascii, WS),
     words |-> [k \in 1..(s.wc - 1) |-> <<k + 1>> \o s.words[k]],
     callouts |-> IF s.callouts = <<>> THEN <<>>
                  ELSE <<[count |-> Len(s.callouts[1].list),
                          list |-> [k \in 1..Len(s.callouts[1].list) |-> ShowCallout(s.callouts[1].list[k])]]>>]

(***************************************************************************)
(* Generic comparison: the names of the fields that differ                 *)
(***************************************************************************)
Mismatch(exp, act) ==
    {f \in DOMAIN exp : f \notin DOMAIN act \/ act[f] # exp[f]} \cup (DOMAIN act \ DOMAIN exp)
=============================================================================
