------------------------------ MODULE TraceBuf ------------------------------
(***************************************************************************)
(* io_drawer/trace.py: decoding a binary trace buffer against a trace      *)
(* string file (C15).                                                      *)
(*                                                                         *)
(* data    : bytes.  32-byte header: ver, hdr_len, time_flg, endian_flg,   *)
(*           comp(12), reserved(4), size(4), times_wrap(4), next_free(4).  *)
(*           Entries: tbh(2) tbl(2) length(2) tag(2) hash(4) line(4),      *)
(*           `length` data bytes, padding to a multiple of 4, then the     *)
(*           total entry size(4).                                          *)
(* strings : sequence of [hash (4 bytes), msg, loc (code points)] in file  *)
(*           order.                                                        *)
(* 32-bit quantities are 4-byte sequences.                                 *)
(***************************************************************************)
EXTENDS Integers, Sequences, SequencesExt, PyFormat, HexDump

FIXED == 16
MAXDATA == 1024
BIN == <<70, 68>>                               \* tag 0x4644 "FD": binary trace
B16(b) == b[1] * 256 + b[2]
\* a 32-bit number as an integer when it is small, else a number larger than any offset
Clamp32(b) == IF b[1] = 0 /\ b[2] < 64 THEN b[2] * 65536 + b[3] * 256 + b[4] ELSE 1073741824
Mod100000(b) ==
    LET hi == b[1] * 256 + b[2]  lo == b[3] * 256 + b[4]
    IN  (((hi * 6) % 10) * 10000 + hi * 5536 + lo) % 100000

Pad(n) == IF n % 4 = 0 THEN 0 ELSE 4 - (n % 4)

(***************************************************************************)
(* Entry framing: Entries(data, pos, size) = the entries read from offset  *)
(* pos (0-based) while pos < declared size, stopping at the first entry    *)
(* that is truncated, oversized or whose trailing size word disagrees.     *)
(***************************************************************************)
Avail(data, pos, n) == pos + n <= Len(data)
At(data, pos, n) == SubSeq(data, pos + 1, pos + n)

\* [ok |-> BOOLEAN, next |-> position after the entry, e |-> entry record]
ReadEntry(data, pos) ==
    IF ~Avail(data, pos, FIXED) THEN [ok |-> FALSE]
    ELSE LET len == B16(At(data, pos + 4, 2))
             e == [tbh |-> B16(At(data, pos, 2)), tbl |-> At(data, pos + 2, 2), len |-> len,
                   tag |-> At(data, pos + 6, 2), hash |-> At(data, pos + 8, 4), line |-> At(data, pos + 12, 4),
                   data |-> IF len > 0 /\ len <= MAXDATA /\ Avail(data, pos + FIXED, len)
                            THEN At(data, pos + FIXED, len) ELSE <<>>]
             p1 == pos + FIXED + len
             p2 == p1 + Pad(len)
         IN  IF len > MAXDATA THEN [ok |-> FALSE]
             ELSE IF len > 0 /\ ~Avail(data, pos + FIXED, len) THEN [ok |-> FALSE]
             ELSE IF len > 0 /\ Pad(len) > 0 /\ ~Avail(data, p1, Pad(len)) THEN [ok |-> FALSE]
             ELSE IF ~Avail(data, p2, 4) THEN [ok |-> FALSE]
             ELSE IF Clamp32(At(data, p2, 4)) # p2 + 4 - pos THEN [ok |-> FALSE]
             ELSE [ok |-> TRUE, next |-> p2 + 4, e |-> e]

RECURSIVE Entries(_, _, _)
Entries(data, pos, size) ==
    IF ~(pos < size) THEN <<>>
    ELSE LET r == ReadEntry(data, pos) IN
         IF ~r.ok THEN <<>> ELSE <<r.e>> \o Entries(data, r.next, size)

(***************************************************************************)
(* Trace strings                                                           *)
(***************************************************************************)
Exact(strings, h) == {k \in 1..Len(strings) : strings[k].hash = h}
Partial(strings, h) == {k \in 1..Len(strings) : strings[k].hash # h /\ Mod100000(strings[k].hash) = Mod100000(h)}
\* index of the string used: the first exact match, else the LAST partial match, else 0
Lookup(strings, h) ==
    IF Exact(strings, h) # {} THEN CHOOSE k \in Exact(strings, h) : \A j \in Exact(strings, h) : k <= j
    ELSE IF Partial(strings, h) # {} THEN CHOOSE k \in Partial(strings, h) : \A j \in Partial(strings, h) : k >= j
    ELSE 0
Args(e) == IF e.tag = BIN THEN <<>>
           ELSE [k \in 1..MinN(5, Len(e.data) \div 4) |-> SubSeq(e.data, 4 * (k - 1) + 1, 4 * k)]

(***************************************************************************)
(* Rendering                                                               *)
(***************************************************************************)
TwoD(n) == <<48 + (n \div 10), 48 + (n % 10)>>
FormatTimestamp(t) ==
    IF t >= 65535 THEN <<45, 45, 45, 45, 45, 45, 45, 45>>
    ELSE LET hh == t \div 3600  mm == (t % 3600) \div 60  ss == t % 60
         IN  (IF hh < 10 THEN <<32, 48 + hh>> ELSE TwoD(hh)) \o <<58>> \o TwoD(mm) \o <<58>> \o TwoD(ss)
INDENT == Spaces(20)
NOTRACE == <<78, 111, 32, 116, 114, 97, 99, 101, 32, 115, 116, 114, 105, 110, 103, 32, 102, 111, 117, 110, 100, 32,
             119, 105, 116, 104, 32, 104, 97, 115, 104, 32, 118, 97, 108, 117, 101, 32>>
WARNING == <<87, 97, 114, 110, 105, 110, 103, 58, 32, 80, 97, 114, 116, 105, 97, 108, 32, 109, 97, 116, 99, 104, 32,
             119, 105, 116, 104, 32, 116, 114, 97, 99, 101, 32, 115, 116, 114, 105, 110, 103, 32, 102, 114, 111, 109, 32>>

EntryView(e, strings) ==
    LET k == Lookup(strings, e.hash)
        partial == k # 0 /\ strings[k].hash # e.hash
        msg == IF k = 0 THEN NOTRACE \o DecU32(e.hash) ELSE Fmt(strings[k].msg, Args(e))
        main == FormatTimestamp(e.tbh) \o <<32>> \o Hex8Of(e.tbl, TRUE) \o <<32>>
                \o PadLeft(DecU32(e.line), 5, 32) \o <<32>> \o msg
        warn == IF partial THEN <<INDENT \o WARNING \o strings[k].loc>> ELSE <<>>
        dump == IF e.tag = BIN \/ k = 0 \/ partial
                THEN [j \in 1..NLines(e.data, 16) |-> INDENT \o LineOf(e.data, j, 16, 4)] ELSE <<>>
    IN  [main |-> main, extra |-> warn \o dump]

\* component name: ASCII bytes only (others ignored), trailing NULs then trailing blanks removed
RECURSIVE RTrim(_, _)
RTrim(s, c) == IF s # <<>> /\ s[Len(s)] = c THEN RTrim(SubSeq(s, 1, Len(s) - 1), c) ELSE s
Comp(b) == RTrim(RTrim(SelectSeq(b, LAMBDA x : x < 128), 0), 32)

HasHeader(data) == Len(data) >= 32
HeaderView(data) ==
    [comp |-> Comp(At(data, 4, 12)), ver |-> DecSmall(data[1]), size |-> DecU32(At(data, 20, 4)),
     wraps |-> DecU32(At(data, 24, 4))]
EntryViews(data, strings) ==
    LET es == Entries(data, 32, Clamp32(At(data, 20, 4)))
    IN  [k \in 1..Len(es) |-> EntryView(es[k], strings)]

(***************************************************************************)
(* Judge clauses (record r: data, strings, fallback (BOOLEAN), header      *)
(* [comp, ver, size, wraps], entries: seq of [main, extra], lines: all     *)
(* output lines when the fall-back was taken)                              *)
(***************************************************************************)
Failing(r) ==
    IF ~HasHeader(r.data)
    THEN {x \in {"FallbackTaken", "FallbackLossless"} :
             \/ x = "FallbackTaken" /\ ~r.fallback
             \/ x = "FallbackLossless" /\ r.fallback /\ Parse(r.lines, Template(16, 4)) # r.data }
    ELSE IF r.fallback THEN {"HeaderNotRead"}
    ELSE LET exp == EntryViews(r.data, r.strings) IN
         {x \in {"Header", "EntryCount", "EntryLine", "WarningAndDump"} :
             \/ x = "Header" /\ r.header # HeaderView(r.data)
             \/ x = "EntryCount" /\ Len(r.entries) # Len(exp)
             \/ x = "EntryLine" /\ Len(r.entries) = Len(exp) /\ \E k \in 1..Len(exp) : r.entries[k].main # exp[k].main
             \/ x = "WarningAndDump" /\ Len(r.entries) = Len(exp)
                   /\ \E k \in 1..Len(exp) : r.entries[k].extra # exp[k].extra }
=============================================================================
