-------------------------------- MODULE Cli --------------------------------
(***************************************************************************)
(* peltool's command line as a state machine: which of the mode options    *)
(* named on one command line is carried out, what the selection options    *)
(* hand to it, which preconditions are tested on the way and with which     *)
(* status the process ends.                                                 *)
(*                                                                         *)
(* This is behaviour of the tool that no listed property fixes (the         *)
(* statement of C11 deliberately leaves open which of several named modes  *)
(* wins) - it is modelled because the other specifications start from "the *)
(* tool runs mode m with configuration c" and this module says how a       *)
(* command line becomes that pair.  peltool.main() is one long chain of    *)
(* `if args.X: ...; sys.exit(0)` blocks; each block is one action here.    *)
(*                                                                         *)
(* A command line is                                                       *)
(*   named : the set of mode options present                               *)
(*   clean : --clean                                                       *)
(*   env   : what the file system answers to the tests made on the way     *)
(*           [hasPath, pathIsDir, outGiven, outIsDir, exIsFile, printed]   *)
(***************************************************************************)
EXTENDS Naturals, Sequences, FiniteSets

Modes == {"file", "json", "id", "bmcid", "plid", "src", "srcex", "list", "count", "all", "delete", "deleteall"}
\* the order of the blocks in main()
Order == <<"file", "json", "id", "bmcid", "plid", "src", "srcex", "list", "count", "all", "delete", "deleteall">>
\* the function each block calls
Handler(m) == CASE m = "file" -> "parseAndPrintPELFile"
                [] m = "json" -> "parseAndWriteOutput"
                [] m = "id" -> "parsePelFromID"
                [] m = "bmcid" -> "parsePelFromBmcID"
                [] m = "plid" -> "parsePelFromPLID"
                [] m \in {"src", "srcex"} -> "parsePelFromSRCID"
                [] m = "list" -> "listOption"
                [] m = "count" -> "printPELCount"
                [] m = "all" -> "extractAllPELsData"
                [] m = "delete" -> "deletePELFromPELId"
                [] m = "deleteall" -> "deleteAllPELs"
ReadOnly == Modes \ {"delete", "deleteall", "json", "file"}

Envs == [hasPath : BOOLEAN, pathIsDir : BOOLEAN, outGiven : BOOLEAN, outIsDir : BOOLEAN, exIsFile : BOOLEAN,
         printed : BOOLEAN]

(***************************************************************************)
(* Rule: the outcome as a function of the command line.                    *)
(***************************************************************************)
Index(m) == CHOOSE k \in 1..Len(Order) : Order[k] = m
First(named) == IF named = {} THEN "none"
                ELSE CHOOSE m \in named : \A o \in named : Index(m) <= Index(o)
\* outcome = [mode, status, removed]
\*   mode   : the mode carried out ("none": nothing is)
\*   status : 0, or 1 for an exit with a message
RuleOutcome(named, clean, env) ==
    IF "file" \in named
    THEN [mode |-> "file", status |-> 0, removed |-> clean /\ env.printed]
    ELSE IF ~env.hasPath \/ ~env.pathIsDir
    THEN [mode |-> "none", status |-> 1, removed |-> FALSE]
    ELSE LET m == First(named) IN
         IF m = "json" /\ env.outGiven /\ ~env.outIsDir THEN [mode |-> "none", status |-> 1, removed |-> FALSE]
         ELSE IF m = "srcex" /\ ~env.exIsFile THEN [mode |-> "none", status |-> 1, removed |-> FALSE]
         ELSE [mode |-> m, status |-> 0, removed |-> FALSE]

(***************************************************************************)
(* Impl: the chain of blocks.  pc names the block about to be tested.      *)
(***************************************************************************)
VARIABLES named, clean, env,    \* the command line (fixed in a behaviour)
          pc,                   \* 0 = before the -f block, k = before block k of Order, 99 = ended
          ran,                  \* sequence of modes carried out
          status,               \* exit status once ended
          removed               \* the input file of -f was deleted
vars == <<named, clean, env, pc, ran, status, removed>>

Init == /\ named \in SUBSET Modes /\ clean \in BOOLEAN /\ env \in Envs
        /\ pc = 1 /\ ran = <<>> /\ status = 0 /\ removed = FALSE

End(st) == pc' = 99 /\ status' = st

\* if args.file: printed = parseAndPrintPELFile(..); if args.clean and printed: os.remove(..); sys.exit(0)
FileBlock == /\ pc = 1
             /\ IF "file" \in named
                THEN /\ ran' = Append(ran, "file") /\ removed' = (clean /\ env.printed) /\ End(0)
                ELSE /\ UNCHANGED <<ran, removed, status>> /\ pc' = 100     \* on to the path tests
             /\ UNCHANGED <<named, clean, env>>
\* outside the BMC: -p is required and must name a directory
PathBlock == /\ pc = 100
             /\ IF ~env.hasPath \/ ~env.pathIsDir THEN End(1) ELSE pc' = 2 /\ UNCHANGED status
             /\ UNCHANGED <<named, clean, env, ran, removed>>
\* every later block: if args.X: [precondition] handler(..); sys.exit(0)
ModeBlock(k) ==
    /\ pc = k /\ k \in 2..Len(Order)
    /\ LET m == Order[k] IN
       IF m \in named
       THEN IF (m = "json" /\ env.outGiven /\ ~env.outIsDir) \/ (m = "srcex" /\ ~env.exIsFile)
            THEN End(1) /\ UNCHANGED ran
            ELSE ran' = Append(ran, m) /\ End(0)
       ELSE /\ UNCHANGED <<ran, status>>
            /\ pc' = IF k = Len(Order) THEN 99 ELSE k + 1       \* falling off the end of main(): status 0
    /\ UNCHANGED <<named, clean, env, removed>>

Next == FileBlock \/ PathBlock \/ \E k \in 2..Len(Order) : ModeBlock(k)
Spec == Init /\ [][Next]_vars

(***************************************************************************)
(* Properties                                                              *)
(***************************************************************************)
Ended == pc = 99
ImplOutcome == [mode |-> IF ran = <<>> THEN "none" ELSE ran[1], status |-> status, removed |-> removed]
ImplMeetsRule == Ended => ImplOutcome = RuleOutcome(named, clean, env)
AtMostOneMode == Len(ran) <= 1
\* a destructive mode never wins over another mode: --delete runs only if nothing but delete / deleteall is named, --delete-all only if it alone is
DeletePrecedence ==
    /\ (ran # <<>> /\ ran[1] = "delete") => named \subseteq {"delete", "deleteall"}
    /\ (ran # <<>> /\ ran[1] = "deleteall") => named = {"deleteall"}
\* an exit with a message carries out nothing
ErrorRunsNothing == (Ended /\ status = 1) => ran = <<>> /\ ~removed
\* --clean touches the input of -f only after it was printed completely
CleanOnlyAfterPrint == removed => clean /\ env.printed /\ "file" \in named

(***************************************************************************)
(* What the selection options hand to the mode (Config).  opts is a record *)
(* of the option values as given; the configuration is a copy - no option  *)
(* changes another one's field.                                            *)
(***************************************************************************)
\* -S takes group NAMES; the configuration holds the high hex digit that Selection.tla's InGroup compares
SevValue(name) == CASE name = "Informational" -> 0 [] name = "Recovered" -> 1 [] name = "Predictive" -> 2
                    [] name = "Unrecoverable" -> 4 [] name = "Critical" -> 5 [] name = "Diagnostic" -> 6
                    [] name = "Symptom" -> 7
SevValues(names) == [k \in 1..Len(names) |-> SevValue(names[k])]
ConfigOf(opts) ==
    [allow_plugins |-> ~opts.skip_plugins, serviceable |-> opts.serviceable, non_serviceable |-> opts.non_serviceable,
     critSysTerm |-> opts.termination, hidden |-> opts.hidden, only |-> opts.only, every_pel |-> opts.every_pel,
     hex |-> opts.hex, rev |-> opts.reverse, severities |-> SevValues(opts.severities), extension |-> opts.extension]
=============================================================================
