----------------------------- MODULE PelNaming -----------------------------
(* How the entries of the decoded document are named (C01): by the section's  *)
(* display name, a name that occurs more than once numbered 0,1,2.. in order  *)
(* of appearance.  Rule: NumberedKeys.  Impl: buildOutput's two passes.       *)
EXTENDS Naturals, Sequences, SequencesExt, FiniteSets, TLC

Occurrences(names, n) == Cardinality({k \in 1..Len(names) : names[k] = n})
Ordinal(names, k) == Cardinality({j \in 1..(k - 1) : names[j] = names[k]})
NumberedKey(names, k) ==
    IF Occurrences(names, names[k]) > 1 THEN names[k] \o " " \o ToString(Ordinal(names, k)) ELSE names[k]
NumberedKeys(names) == [k \in 1..Len(names) |-> NumberedKey(names, k)]

\* buildOutput: pass 1 counts[name] = [# occurrences, counter]; pass 2 appends ' <counter>'
\* for names seen more than once and bumps the counter.  FirstNumber is the first
\* modifier handed out (0 in the code).
Pass1(names) ==
    FoldLeft(LAMBDA cnt, n : IF n \in DOMAIN cnt THEN [cnt EXCEPT ![n] = @ + 1] ELSE cnt @@ (n :> 1),
             <<>>, names)
Pass2(names, FirstNumber) ==
    LET cnt == Pass1(names)
        step(st, n) ==
            IF cnt[n] = 1 THEN [keys |-> Append(st.keys, n), ctr |-> st.ctr]
            ELSE LET m == IF n \in DOMAIN st.ctr THEN st.ctr[n] ELSE FirstNumber IN
                 [keys |-> Append(st.keys, n \o " " \o ToString(m)),
                  ctr |-> IF n \in DOMAIN st.ctr THEN [st.ctr EXCEPT ![n] = m + 1] ELSE st.ctr @@ (n :> m + 1)]
    IN  FoldLeft(step, [keys |-> <<>>, ctr |-> <<>>], names).keys
ImplKeys(names) == Pass2(names, 0)
=============================================================================
