---------------------------- MODULE SrcCallouts ----------------------------
(***************************************************************************)
(* The walk over an SRC's callout subsection (src.py: getCallouts,          *)
(* Callout.__init__, FRUIdentity, PCEIdentity, MRU) as a token machine     *)
(* (C01, C03, C05).                                                        *)
(*                                                                         *)
(* A callout is [loc, subs, looks]: location-code size, the sequence of    *)
(* its substructures (each [tag, size]) and what its own first two bytes   *)
(* (size, flags) spell when read as a substructure tag: "ID", "PE", "MR"   *)
(* or "none".  After the last callout comes `next`: what the two bytes     *)
(* following the subsection spell (the id of the next section, or "end").  *)
(*                                                                         *)
(* The code decides whether another substructure follows by PEEKING at the *)
(* next two bytes.  Advance = TRUE is the repaired loop, which adds each    *)
(* substructure's size to currentSize and stops when the callout's size is *)
(* used up; Advance = FALSE is the tree as found (deviation D6): the loop  *)
(* condition never changes, so it keeps peeking past the callout's end and *)
(* swallows whatever follows if that happens to spell a tag.               *)
(***************************************************************************)
EXTENDS Naturals, Sequences, FiniteSets

CONSTANTS Universe,      \* set of callout sequences to explore
          Advance
VARIABLES Callouts,      \* the sequence of callouts of this subsection
          NextTag        \* "end" | "other" | "ID" | "PE" | "MR"

Tags == {"ID", "PE", "MR"}

SubSize(c) == LET S == [k \in 1..Len(c.subs) |-> c.subs[k].size] IN
              IF Len(S) = 0 THEN 0 ELSE IF Len(S) = 1 THEN S[1] ELSE IF Len(S) = 2 THEN S[1] + S[2] ELSE S[1] + S[2] + S[3]
CalloutSize(c) == 4 + c.loc + SubSize(c)
RECURSIVE Total(_)
Total(cs) == IF cs = <<>> THEN 0 ELSE CalloutSize(Head(cs)) + Total(Tail(cs))
SubsectionLen == 4 + Total(Callouts)

VARIABLES pc, ci, si, cur, csize, currentSize, parsed, desync, consumed
\* ci: index of the callout being read; si: next substructure of it; cur: currentLength of
\* getCallouts; csize / currentSize: of Callout.__init__; parsed: callouts appended;
\* consumed: bytes taken from the stream
vars == <<Callouts, NextTag, pc, ci, si, cur, csize, currentSize, parsed, desync, consumed>>

Init == /\ Callouts \in Universe
        /\ NextTag \in {"end", "other", "ID", "PE", "MR"}
        /\ pc = "outer" /\ ci = 1 /\ si = 1 /\ cur = 4 /\ csize = 0 /\ currentSize = 0
        /\ parsed = 0 /\ desync = FALSE /\ consumed = 4

\* what the next two bytes of the stream spell, seen from (ci, si)
Peek == IF ci <= Len(Callouts) /\ si <= Len(Callouts[ci].subs) THEN Callouts[ci].subs[si].tag
        ELSE IF ci < Len(Callouts) THEN Callouts[ci + 1].looks
        ELSE NextTag

Outer ==                                   \* while subsectionWordLength * 4 > currentLength
    /\ pc = "outer" /\ ~desync
    /\ IF SubsectionLen > cur /\ ci <= Len(Callouts)
       THEN /\ pc' = "inner"               \* Callout(): header + location code
            /\ csize' = CalloutSize(Callouts[ci])
            /\ currentSize' = 4 + Callouts[ci].loc
            /\ consumed' = consumed + 4 + Callouts[ci].loc
            /\ si' = 1
            /\ UNCHANGED <<ci, cur, parsed, desync>>
       ELSE /\ pc' = "done"
            /\ UNCHANGED <<ci, si, cur, csize, currentSize, parsed, desync, consumed>>

EndCallout ==                              \* break / loop exit: callout appended, flattenedSize added
    /\ pc' = "outer"
    /\ parsed' = parsed + 1
    /\ cur' = cur + CalloutSize(Callouts[ci])
    /\ ci' = ci + 1
    /\ UNCHANGED <<si, csize, currentSize, desync, consumed>>

Inner ==                                   \* while self.size > currentSize: peek
    /\ pc = "inner" /\ ~desync
    /\ IF csize > currentSize
       THEN IF Peek \in Tags
            THEN IF si <= Len(Callouts[ci].subs)
                 THEN \* a real substructure of this callout
                      /\ consumed' = consumed + Callouts[ci].subs[si].size
                      /\ currentSize' = IF Advance THEN currentSize + Callouts[ci].subs[si].size ELSE currentSize
                      /\ si' = si + 1
                      /\ UNCHANGED <<pc, ci, cur, csize, parsed, desync>>
                 ELSE \* the bytes after the callout were mistaken for a substructure
                      /\ desync' = TRUE
                      /\ UNCHANGED <<pc, ci, si, cur, csize, currentSize, parsed, consumed>>
            ELSE EndCallout
       ELSE EndCallout

Next == (Outer \/ Inner) /\ UNCHANGED <<Callouts, NextTag>>
Spec == Init /\ [][Next]_vars

NoDesync == ~desync
Done == pc = "done"
WalkExact == Done => /\ parsed = Len(Callouts)
                     /\ consumed = SubsectionLen
                     /\ cur = SubsectionLen
\* every callout's substructures were all consumed before the callout was closed
AllSubsTaken == [][pc = "inner" /\ pc' = "outer" => si = Len(Callouts[ci].subs) + 1]_vars
Progress == [][consumed' >= consumed]_vars
=============================================================================
