------------------------------ MODULE Listing ------------------------------
(***************************************************************************)
(* The directory modes that show PELs (C08, C09, C10): -l, -a, -n and the  *)
(* look-ups walk the sorted top-level file list and run a (partial)        *)
(* decoder on every file inside an exception barrier.                      *)
(*                                                                         *)
(* A file is [name (rank in ascending file-name order), kind, sel]:        *)
(*   kind "pel"   decodable by every mode                                  *)
(*        "junkH" damaged headers: no mode can decode it                   *)
(*        "junkB" headers fine, body damaged: the count mode (which reads  *)
(*                only the two headers) decodes it, list/all do not        *)
(*        "junkO" cannot even be opened (a dangling link, a file removed   *)
(*                between the listing and the open)                        *)
(*   sel  whether the selection options select it                          *)
(*                                                                         *)
(* Rule:  Shown(files, mode, rev) - the selected files the mode can        *)
(*        decode, in ascending (or reversed) name order; junk contributes  *)
(*        nothing, the exit status is 0.                                   *)
(* Impl:  the loop of listOption / extractAllPELsData / printPELCount, one *)
(*        step per file.  Barrier = TRUE is the code (try/except around    *)
(*        the decode); Barrier = FALSE shows what the barrier is for.      *)
(*        OpenInside = TRUE is the code after fix c3306ce (the open stands *)
(*        inside the barrier); FALSE is the tree as found (D15): a file    *)
(*        that cannot be opened ends the run with a traceback.             *)
(***************************************************************************)
EXTENDS Naturals, Sequences, FiniteSets

CONSTANTS Files,        \* set of file records to draw directories from
          Barrier, SortList, OpenInside

Decodable(mode, f) == f.kind = "pel" \/ (f.kind = "junkB" /\ mode = "count")

\* ascending by name rank
RECURSIVE SortSeq(_)
SortSeq(S) == IF S = {} THEN <<>>
              ELSE LET m == CHOOSE x \in S : \A y \in S : x.name <= y.name IN <<m>> \o SortSeq(S \ {m})
Reverse(s) == [k \in 1..Len(s) |-> s[Len(s) + 1 - k]]
Ordered(dir, rev) == IF rev THEN Reverse(SortSeq(dir)) ELSE SortSeq(dir)

Shown(dir, mode, rev) ==
    SelectSeq(Ordered(dir, rev /\ mode # "count"), LAMBDA f : f.sel /\ Decodable(mode, f))

VARIABLES dir, mode, rev, walk, idx, out, status, errs
vars == <<dir, mode, rev, walk, idx, out, status, errs>>

\* os.walk order is arbitrary; getFileList sorts it (SortList = TRUE is the code)
Perms(S) == {p \in [1..Cardinality(S) -> S] : \A x \in S : \E k \in 1..Cardinality(S) : p[k] = x}

Init == /\ dir \in {D \in SUBSET Files : \A a, b \in D : a.name = b.name => a = b}
        /\ mode \in {"list", "all", "count"}
        /\ rev \in BOOLEAN
        /\ walk \in (IF SortList THEN {Ordered(dir, rev /\ mode # "count")} ELSE Perms(dir))
        /\ idx = 1 /\ out = <<>> /\ status = "running" /\ errs = 0

Step ==
    /\ status = "running"
    /\ IF idx > Len(walk) THEN status' = "exit0" /\ UNCHANGED <<idx, out, errs>>
       ELSE LET f == walk[idx] IN
            IF Decodable(mode, f)
            THEN /\ out' = IF f.sel THEN Append(out, f) ELSE out
                 /\ idx' = idx + 1 /\ UNCHANGED <<status, errs>>
            ELSE IF Barrier /\ (OpenInside \/ f.kind # "junkO")
                 THEN idx' = idx + 1 /\ errs' = errs + 1 /\ UNCHANGED <<out, status>>   \* diagnostic on stderr
                 ELSE status' = "traceback" /\ UNCHANGED <<idx, out, errs>>
    /\ UNCHANGED <<dir, mode, rev, walk>>

Next == Step
Spec == Init /\ [][Next]_vars /\ WF_vars(Step)

Done == status # "running"
\* what is reported is exactly the rule's list, whatever junk the directory holds
MatchesRule == status = "exit0" => out = Shown(dir, mode, rev)
ExitZero == Done => status = "exit0"
\* junk never changes what is reported for the others (consequence, stated directly)
JunkInvariant == status = "exit0" =>
                    out = Shown({f \in dir : f.kind = "pel" \/ Decodable(mode, f)}, mode, rev)
\* count, list and all agree on directories of well-formed PELs
Agree == \A D \in {dir} : (\A f \in D : f.kind = "pel") =>
            /\ Len(Shown(D, "count", rev)) = Len(Shown(D, "list", rev))
            /\ Shown(D, "list", rev) = Shown(D, "all", rev)
            /\ Shown(D, "list", TRUE) = Reverse(Shown(D, "list", FALSE))
Terminates == <>Done
=============================================================================
