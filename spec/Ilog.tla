-------------------------------- MODULE Ilog --------------------------------
(***************************************************************************)
(* io_drawer/ilog.py: decoding ILOG / PTE data against a PTE table (C14).  *)
(*                                                                         *)
(* data  : byte sequence; entries are 8 bytes: timestamp(2) seq(2) pte(4)  *)
(* table : sequence of [pattern (8 code points: hex digits or '*'),        *)
(*         msg (code points, already unescaped / stripped),                *)
(*         params (sequence of byte numbers 1..4)] in header-file order    *)
(* Output: per entry that is not all zero, in order,                       *)
(*         [ts (8 code points), seq (2 bytes), pte (4 bytes), msg]         *)
(***************************************************************************)
EXTENDS Integers, Sequences, SequencesExt, PyFormat

\* H:MM:SS with a blank-padded hour, dashes for 0xFFFF
TwoD(n) == <<48 + (n \div 10), 48 + (n % 10)>>
FormatTimestamp(t) ==
    IF t >= 65535 THEN <<45, 45, 45, 45, 45, 45, 45, 45>>
    ELSE LET hh == t \div 3600  mm == (t % 3600) \div 60  ss == t % 60
         IN  (IF hh < 10 THEN <<32, 48 + hh>> ELSE TwoD(hh)) \o <<58>> \o TwoD(mm) \o <<58>> \o TwoD(ss)

UpperHex(c) == IF 97 <= c /\ c <= 102 THEN c - 32 ELSE c
STAR == 42
PatMatch(pat, hex8) == Len(pat) = 8 /\ \A k \in 1..8 : pat[k] = STAR \/ UpperHex(pat[k]) = hex8[k]

IsError(p) == p[1] \div 16 = 14                         \* (pte & 0xF0000000) = 0xE0000000
ReportedFlag(p) == (p[2] \div 4) % 2 = 1                \* pte & 0x00040000
Reported(p) == IsError(p) /\ ReportedFlag(p)
ClearReported(p) == [p EXCEPT ![2] = IF ReportedFlag(p) THEN @ - 4 ELSE @]

Matches(e, p) == \/ PatMatch(e.pattern, Hex8Of(p, TRUE))
                 \/ Reported(p) /\ PatMatch(e.pattern, Hex8Of(ClearReported(p), TRUE))

FirstMatch(table, p) ==
    LET K == {k \in 1..Len(table) : Matches(table[k], p)}
    IN  IF K = {} THEN 0 ELSE CHOOSE k \in K : \A j \in K : k <= j

SUFFIX == <<32, 45, 32, 80, 69, 76, 32, 101, 110, 116, 114, 121, 32, 99, 114, 101, 97, 116, 101, 100>>
UNDEFINED == <<85, 110, 100, 101, 102, 105, 110, 101, 100>>

Message(table, p) ==
    LET k == FirstMatch(table, p)
        base == IF k = 0 THEN UNDEFINED
                ELSE Fmt(table[k].msg, [j \in 1..Len(table[k].params) |-> <<0, 0, 0, p[table[k].params[j]]>>])
    IN  base \o (IF Reported(p) THEN SUFFIX ELSE <<>>)

Entry(data, n) == SubSeq(data, 8 * (n - 1) + 1, 8 * n)
AllZero(e) == \A k \in 1..8 : e[k] = 0
Render(data, table) ==
    LET N == Len(data) \div 8                            \* a trailing partial entry is ignored
        keep == SelectSeq([n \in 1..N |-> n], LAMBDA n : ~AllZero(Entry(data, n)))
    IN  [j \in 1..Len(keep) |->
           LET e == Entry(data, keep[j]) IN
           [ts |-> FormatTimestamp(e[1] * 256 + e[2]), seq |-> SubSeq(e, 3, 4), pte |-> SubSeq(e, 5, 8),
            msg |-> Message(table, SubSeq(e, 5, 8))]]
=============================================================================
