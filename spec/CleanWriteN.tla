---------------------------- MODULE CleanWriteN ----------------------------
(***************************************************************************)
(* `peltool -j -c` over a whole directory: the loop of main() calls        *)
(* parseAndWriteOutput for one file after the other; every step of every   *)
(* file may fail (the exception is caught and the loop goes on) and the    *)
(* process may be killed at any point.                                     *)
(*                                                                         *)
(* CleanWrite.tla is the protocol for ONE file with a fault chosen in      *)
(* advance (finite, checked completely by TLC).  This module lifts it to   *)
(* any set of files, any number of write calls per output and any          *)
(* schedule of failures, and proves - for all of them at once, with the    *)
(* TLA+ proof system - the statement of C12:                               *)
(*                                                                         *)
(*   a PEL file is deleted only if its output was written completely.      *)
(*                                                                         *)
(* THEOREM Safety at the end of the module is checked by tlapm             *)
(* (tools/prove.sh); MC_CleanWriteN checks the same invariant and the      *)
(* inductive invariant with TLC for 3 files x 2 chunks.                    *)
(***************************************************************************)
EXTENDS Naturals, FiniteSets, TLAPS

CONSTANTS Files,        \* the files of the directory
          NChunks       \* write calls needed for one output
ASSUME ChunksNat == NChunks \in Nat

VARIABLES todo,         \* files the loop has not reached yet
          cur,          \* the file being processed
          pc,           \* where parseAndWriteOutput stands for cur
          written,      \* write calls that succeeded for cur
          failed,       \* a write or close for cur failed
          input,        \* input[f]  : "present" | "removed"
          out           \* out[f]    : "absent" | "open" | "partial" | "complete"
vars == <<todo, cur, pc, written, failed, input, out>>

NoFile == CHOOSE x : x \notin Files
PCs == {"pick", "decode", "open", "write", "close", "closefail", "remove", "done", "crashed"}
Busy == {"decode", "open", "write", "close", "closefail", "remove"}

TypeOK == /\ todo \subseteq Files
          /\ cur \in Files \cup {NoFile}
          /\ pc \in PCs
          /\ written \in Nat
          /\ failed \in BOOLEAN
          /\ input \in [Files -> {"present", "removed"}]
          /\ out \in [Files -> {"absent", "open", "partial", "complete"}]

Init == /\ todo = Files
        /\ cur = NoFile
        /\ pc = "pick"
        /\ written = 0
        /\ failed = FALSE
        /\ input = [f \in Files |-> "present"]
        /\ out = [f \in Files |-> "absent"]

\* for file in files: parseAndWriteOutput(file, ...)
Pick == /\ pc = "pick"
        /\ IF todo = {}
           THEN pc' = "done" /\ UNCHANGED <<todo, cur, written, failed>>
           ELSE \E f \in todo : /\ cur' = f
                                /\ todo' = todo \ {f}
                                /\ pc' = "decode"
                                /\ written' = 0
                                /\ failed' = FALSE
        /\ UNCHANGED <<input, out>>
\* reading and decoding the file: it may be junk, or filtered out (nothing to write)
Decode == /\ pc = "decode"
          /\ \/ pc' = "open"
             \/ pc' = "pick"
          /\ UNCHANGED <<todo, cur, written, failed, input, out>>
Open == /\ pc = "open"
        /\ \/ pc' = "write" /\ out' = [out EXCEPT ![cur] = "open"]
           \/ pc' = "pick" /\ UNCHANGED out
        /\ UNCHANGED <<todo, cur, written, failed, input>>
Write == /\ pc = "write"
         /\ IF written = NChunks
            THEN pc' = "close" /\ UNCHANGED <<written, failed, out>>
            ELSE \/ /\ written' = written + 1                  \* the call succeeds
                    /\ out' = [out EXCEPT ![cur] = "partial"]
                    /\ UNCHANGED <<pc, failed>>
                 \/ /\ failed' = TRUE                         \* the call fails: the with-block is left
                    /\ pc' = "closefail"
                    /\ out' = [out EXCEPT ![cur] = "partial"]  \* some of it may have reached the file
                    /\ UNCHANGED written
         /\ UNCHANGED <<todo, cur, input>>
\* leaving the with-block normally: flush + close
Close == /\ pc = "close"
         /\ \/ pc' = "remove" /\ out' = [out EXCEPT ![cur] = "complete"] /\ UNCHANGED failed
            \/ pc' = "pick" /\ failed' = TRUE /\ UNCHANGED out
         /\ UNCHANGED <<todo, cur, written, input>>
\* leaving the with-block through an exception: the file is closed, the exception goes on to the handler
CloseFail == /\ pc = "closefail"
             /\ pc' = "pick"
             /\ UNCHANGED <<todo, cur, written, failed, input, out>>
\* if delete_after_parsing: os.remove(file) - which may fail as well
Remove == /\ pc = "remove"
          /\ \/ input' = [input EXCEPT ![cur] = "removed"]
             \/ UNCHANGED input
          /\ pc' = "pick"
          /\ UNCHANGED <<todo, cur, written, failed, out>>
Crash == /\ pc \notin {"done", "crashed"}
         /\ pc' = "crashed"
         /\ UNCHANGED <<todo, cur, written, failed, input, out>>

Next == Pick \/ Decode \/ Open \/ Write \/ Close \/ CloseFail \/ Remove \/ Crash
Spec == Init /\ [][Next]_vars

(***************************************************************************)
(* The statement, and the invariant that makes it inductive                *)
(***************************************************************************)
Safe == \A f \in Files : input[f] = "removed" => out[f] = "complete"

IndInv == /\ TypeOK
          /\ Safe
          /\ \A f \in todo : input[f] = "present"
          /\ pc \in Busy => cur \in Files /\ cur \notin todo /\ input[cur] = "present"
          /\ pc = "remove" => out[cur] = "complete"

THEOREM InitInv == Init => IndInv
  <1> SUFFICES ASSUME Init PROVE IndInv OBVIOUS
  <1>1. TypeOK BY DEF Init, TypeOK, PCs
  <1>2. Safe BY DEF Init, Safe
  <1>3. \A f \in todo : input[f] = "present" BY DEF Init
  <1>4. pc \notin Busy BY DEF Init, Busy
  <1> QED BY <1>1, <1>2, <1>3, <1>4 DEF IndInv, Busy

THEOREM StepInv == IndInv /\ [Next]_vars => IndInv'
  <1> SUFFICES ASSUME IndInv, [Next]_vars PROVE IndInv' OBVIOUS
  <1> USE DEF IndInv, TypeOK, Safe, Busy, PCs
  <1>1. CASE Pick BY <1>1 DEF Pick
  <1>2. CASE Decode BY <1>2 DEF Decode
  <1>3. CASE Open BY <1>3 DEF Open
  <1>4. CASE Write BY <1>4, ChunksNat DEF Write
  <1>5. CASE Close BY <1>5 DEF Close
  <1>6. CASE CloseFail BY <1>6 DEF CloseFail
  <1>7. CASE Remove BY <1>7 DEF Remove
  <1>8. CASE Crash BY <1>8 DEF Crash
  <1>9. CASE UNCHANGED vars BY <1>9 DEF vars
  <1> QED BY <1>1, <1>2, <1>3, <1>4, <1>5, <1>6, <1>7, <1>8, <1>9 DEF Next

THEOREM Safety == Spec => []Safe
  <1>1. IndInv => Safe BY DEF IndInv
  <1> QED BY InitInv, StepInv, <1>1, PTL DEF Spec
=============================================================================
