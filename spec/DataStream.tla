----------------------------- MODULE DataStream -----------------------------
(***************************************************************************)
(* The byte cursor of pel/datastream.py (properties C05, C01).             *)
(*                                                                         *)
(* State: index (next byte to deliver), size (length of the input, fixed), *)
(* status ("ok" until a request is refused).                               *)
(*                                                                         *)
(* Actions, one per way the code can touch the cursor:                     *)
(*   Read(n)          get_mem / get_int / inc_index with 0 < n and         *)
(*                    index + n <= size: delivers exactly bytes            *)
(*                    index+1 .. index+n and advances by n                 *)
(*   ReadRejected(n)  any other request: raises, cursor unchanged          *)
(*   UncheckedRead(n) the deviation of the tree as found when the          *)
(*                    interpreter runs with -O (the range checks were      *)
(*                    assert statements): a short or empty slice is        *)
(*                    delivered and the cursor moves by n regardless.      *)
(*                    Part of Next only when Checked = FALSE.              *)
(*                                                                         *)
(* The *P operators are the same actions as predicates over explicit       *)
(* before/after values; the trace judge (Trace_C05) applies them to every  *)
(* cursor event recorded from the real DataStream.                         *)
(***************************************************************************)
EXTENDS Integers, Sequences

CONSTANTS MaxSize, Requests, Checked
VARIABLES index, size, status, delivered   \* delivered: number of bytes handed out by the last step

vars == <<index, size, status, delivered>>

ReadP(i, i2, sz, n, got, raised) ==
    /\ n > 0 /\ i + n <= sz
    /\ ~raised
    /\ i2 = i + n
    /\ got = n

ReadRejectedP(i, i2, sz, n, got, raised) ==
    /\ ~(n > 0 /\ i + n <= sz)
    /\ raised
    /\ i2 = i
    /\ got = 0

\* what -O did before the repair: slice semantics of Python for data[i : i+n]
SliceLen(i, sz, n) ==
    LET lo == IF i > sz THEN sz ELSE i
        hi0 == i + n
        hi == IF hi0 > sz THEN sz ELSE IF hi0 < lo THEN lo ELSE hi0
    IN  hi - lo
UncheckedReadP(i, i2, sz, n, got, raised) ==
    /\ ~(n > 0 /\ i + n <= sz)
    /\ ~raised
    /\ i2 = i + n
    /\ got = SliceLen(i, sz, n)

Init == /\ size \in 0..MaxSize
        /\ index = 0
        /\ status = "ok"
        /\ delivered = 0

Read(n) == /\ status = "ok"
           /\ ReadP(index, index', size, n, delivered', FALSE)
           /\ UNCHANGED <<size, status>>

ReadRejected(n) == /\ status = "ok"
                   /\ Checked
                   /\ ReadRejectedP(index, index', size, n, delivered', TRUE)
                   /\ status' = "raised"
                   /\ UNCHANGED size

UncheckedRead(n) == /\ status = "ok"
                    /\ ~Checked
                    /\ UncheckedReadP(index, index', size, n, delivered', FALSE)
                    /\ UNCHANGED <<size, status>>

Next == \E n \in Requests :
           \/ Read(n)
           \/ ReadRejected(n)
           \/ UncheckedRead(n)

Spec == Init /\ [][Next]_vars

(***************************************************************************)
(* Properties                                                              *)
(***************************************************************************)
InBounds == 0 <= index /\ index <= size
\* a step never hands out more bytes than it advanced over, and every byte it
\* hands out lies inside the input (no fabricated data)
NoFabrication == [][ /\ delivered' = index' - index
                     /\ index' >= index ]_vars
Monotone == [][index' >= index]_vars
RaisedIsFinal == [][status = "raised" => UNCHANGED vars]_vars
=============================================================================
