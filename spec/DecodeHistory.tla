---------------------------- MODULE DecodeHistory ----------------------------
(***************************************************************************)
(* Histories of decode operations over the module-level import caches      *)
(* (C19), with the implementation-shaped routing of user data and SRC      *)
(* details through parser modules (C04, C18).                              *)
(*                                                                         *)
(* The process state that survives a decode is the four caches             *)
(*   ud   : parse_user_data.userDataParsers                                *)
(*   src  : src.srcParsers        co : src.calloutParsers                  *)
(*   osrc : srcparsers.osrc.osrcParsers                                    *)
(* each mapping a module name to "unseen" | "module" | "none".             *)
(*                                                                         *)
(* A decode request is a sequence of items; an item is one consultation    *)
(* of a parser module:  [cache, mod, beh, plugins]  where plugins says     *)
(* whether parser modules are enabled for this decode (the option          *)
(* --skip-parser-plugins turns them off) and beh is what that call         *)
(* will do ("absent": no such module; "ok" | "nondict" | "none" | "raise"  *)
(* | "importerror": behaviour of the module's function for this section).  *)
(*                                                                         *)
(* Rule    : the result of an item depends on (mod present?, beh) only.    *)
(* Impl    : the code's cache look-up / import / call / except structure.  *)
(* Variant "asfound": parseCustom wraps import AND call in one try whose   *)
(* `except ImportError` marks the module as missing, and getProcedureDesc  *)
(* does the same with a bare except (deviation D10).  "repaired": only a   *)
(* failing import marks a module as missing.  "osrc_by_component": the     *)
(* wrapper's cache keyed by the component of the reference code instead of *)
(* the resolved module name - a BC code and a BD code of one component     *)
(* then share a slot (m1 and m2 stand for such a pair).                    *)
(* "plugins_on_miss_only": the plugins switch honoured only when the       *)
(* module is not cached yet - a decode with plugins disabled then runs a   *)
(* module that an earlier decode loaded.                                   *)
(*                                                                         *)
(* Broken modules exist but fail while being loaded with something other   *)
(* than ImportError (a data table missing at import, a NameError at module *)
(* level).  That is a failing parser like any other: the section gets its  *)
(* error note and dump, an SRC simply has no details.  Variant             *)
(* "import_escape": the user-data site catches only ImportError around the *)
(* import, so the exception leaves the decoder and the whole PEL is lost   *)
(* (the state of the code between b55d183 and its follow-up fix).          *)
(***************************************************************************)
EXTENDS Naturals, Sequences, FiniteSets

CONSTANTS Mods,            \* module names that exist
          Absent,          \* module names that do not exist
          Broken,          \* module names that exist but fail while being loaded (not with ImportError)
          Variant,
          MaxHistory

Caches == {"ud", "src", "co", "osrc"}
Behs == {"ok", "nondict", "none", "raise", "raise_empty", "importerror"}
Names == Mods \cup Absent \cup Broken

\* what the statement says an item yields - no cache in sight
RuleResult(it) ==
    IF it.mod \in Absent THEN "dump"
    ELSE CASE it.cache = "ud" ->
                 (CASE it.beh \in {"ok", "nondict"} -> "plugin"
                    [] OTHER -> "dump+error")
           [] it.cache = "src" ->
                 (CASE it.beh \in {"ok", "nondict"} -> "plugin"
                    [] OTHER -> "nodetails")
           [] it.cache \in {"co", "osrc"} ->
                 (CASE it.beh \in {"ok", "nondict"} -> "plugin"
                    [] OTHER -> "nodetails")
RuleAbsent(it) == IF it.cache = "ud" THEN "dump" ELSE "nodetails"
RuleBroken(it) == IF it.cache = "ud" THEN "dump+error" ELSE "nodetails"
Rule(it) == IF ~it.plugins \/ it.mod \in Absent THEN RuleAbsent(it)
            ELSE IF it.mod \in Broken THEN RuleBroken(it) ELSE RuleResult(it)

VARIABLES cache,        \* [Caches -> [Names -> {"unseen", "module", "none"}]]
          hist,         \* number of items decoded so far
          last,         \* the last item decoded
          lastResult    \* what the implementation produced for it
vars == <<cache, hist, last, lastResult>>

Items == [cache : Caches, mod : Names, beh : Behs, plugins : BOOLEAN]

Init == /\ cache = [c \in Caches |-> [n \in Names |-> "unseen"]]
        /\ hist = 0
        /\ last = [cache |-> "ud", mod |-> CHOOSE n \in Names : TRUE, beh |-> "ok", plugins |-> TRUE]
        /\ lastResult = "none yet"

Poisons(it) ==           \* does a failing CALL mark the module as missing?
    /\ Variant = "asfound"
    /\ \/ it.cache = "ud" /\ it.beh = "importerror"
       \/ it.cache = "co" /\ it.beh \in {"raise", "raise_empty", "importerror"}

\* the slot of the cache an item uses: the module name - except in the deviation where the BMC
\* wrapper keys by component and the two modules of one component (m1, m2) share m1's slot
FirstMod == CHOOSE m \in Mods : TRUE
Key(it) == IF Variant = "osrc_by_component" /\ it.cache = "osrc" /\ it.mod \in Mods THEN FirstMod ELSE it.mod

\* one consultation, as the code does it
ImplStep(it, c) ==
    LET k == Key(it)
        st == c[it.cache][k]
        missing == RuleAbsent(it)
    IN  IF ~it.plugins /\ ~(Variant = "plugins_on_miss_only" /\ st = "module")
        THEN [result |-> missing, cache |-> c]             \* parser modules disabled: nothing is consulted
        ELSE IF st = "none" THEN [result |-> missing, cache |-> c]
        ELSE IF it.mod \in Absent
             THEN [result |-> missing, cache |-> [c EXCEPT ![it.cache][k] = "none"]]
        ELSE IF it.mod \in Broken
             THEN \* the import raises: src / co remember the module as missing (bare except / except Exception),
                  \* the BMC wrapper lets it through to SRC.parse's handler, the user-data site turns it into
                  \* the section's error note - or, in the deviation, lets it escape
                  CASE it.cache \in {"src", "co"} -> [result |-> "nodetails", cache |-> [c EXCEPT ![it.cache][k] = "none"]]
                    [] it.cache = "osrc" -> [result |-> "nodetails", cache |-> c]
                    [] it.cache = "ud" -> [result |-> IF Variant = "import_escape" THEN "pel lost" ELSE "dump+error",
                                           cache |-> c]
        ELSE LET c1 == [c EXCEPT ![it.cache][k] = "module"] IN
             IF Poisons(it)
             THEN [result |-> missing, cache |-> [c EXCEPT ![it.cache][k] = "none"]]
             ELSE IF st = "module" /\ k # it.mod
                  THEN \* the slot holds the OTHER module of this component: that one is called instead
                       [result |-> "wrong module", cache |-> c1]
             ELSE [result |-> RuleResult(it), cache |-> c1]

Decode(it) ==
    /\ hist < MaxHistory
    /\ LET r == ImplStep(it, cache) IN
       /\ cache' = r.cache
       /\ lastResult' = r.result
    /\ last' = it
    /\ hist' = hist + 1

Next == \E it \in Items : Decode(it)
Spec == Init /\ [][Next]_vars

\* the result of a decode never depends on what was decoded before it
HistoryIndependent == hist > 0 => lastResult = Rule(last)
\* a module that exists is never remembered as missing
NoPoisoning == \A c \in Caches : \A m \in Mods : cache[c][m] # "none"
\* a failing parser gets its error note (C18: "error note plus raw hex dump")
ErrorNoted == (hist > 0 /\ last.plugins /\ last.cache = "ud"
                  /\ (last.mod \in Broken \/ (last.mod \in Mods /\ last.beh \in {"none", "raise", "raise_empty", "importerror"})))
                 => lastResult = "dump+error"
=============================================================================
