--------------------------- MODULE DeleteLoopProof ---------------------------
(***************************************************************************)
(* The two delete loops of peltool (deletePELFromPELId, deleteAllPELs) as  *)
(* PelDir.tla has them - os.walk, `for file in files`, the two break       *)
(* statements - but for ANY tree, ANY listing order and ANY notion of "the *)
(* name contains the id": PelDir is model-checked by TLC over trees drawn  *)
(* from a universe of a few entries; this module proves with the TLA+      *)
(* proof system that the effect rules of C11                               *)
(*                                                                         *)
(*   --delete removes at most one file, one directly in the directory      *)
(*            whose name contains the id, and says "found" exactly then;   *)
(*   --delete-all removes all and only the files directly in the directory;*)
(*   a read-only mode removes nothing; nothing is ever created             *)
(*                                                                         *)
(* hold for every tree.  Because of the `break` after the first directory  *)
(* that os.walk yields, only the top-level listing is ever iterated: the   *)
(* walk is modelled as that one listing (an arbitrary enumeration without  *)
(* repetition of the regular files directly in the directory).             *)
(* MC_DeleteLoopProof checks the same invariants with TLC on a small       *)
(* instance; THEOREM Safety is checked by tlapm (tools/prove.sh,           *)
(* ./check C11).                                                           *)
(***************************************************************************)
EXTENDS Naturals, TLAPS

CONSTANTS Entries,          \* everything a tree may hold (files, directories, links; any depth)
          IsTop(_),         \* e is a regular file directly in the PEL directory
          Matches(_)        \* e's name contains the id the command names

VARIABLES tree,             \* the entries that exist
          before,           \* the tree when the command started
          kind,             \* "idle" | "deleteOne" | "deleteAll" | "readonly"
          n, walk,          \* the listing os.walk gave for the top directory: walk[1..n]
          fi,               \* index of the next file of the listing
          found,            \* the flag deletePELFromPELId reports with
          phase             \* "idle" | "loop" | "done"
vars == <<tree, before, kind, n, walk, fi, found, phase>>

TopFiles(T) == {e \in T : IsTop(e)}

\* os.walk lists each regular file of the directory exactly once, in an order of its own
Listing(T, m, w) == /\ m \in Nat
                    /\ w \in [1..m -> TopFiles(T)]
                    /\ \A e \in TopFiles(T) : \E k \in 1..m : w[k] = e
                    /\ \A j, k \in 1..m : w[j] = w[k] => j = k

Init == /\ tree \subseteq Entries
        /\ before = tree
        /\ kind = "idle"
        /\ n = 0 /\ walk = [k \in 1..0 |-> k]
        /\ fi = 1 /\ found = FALSE
        /\ phase = "idle"

Start(k) == /\ phase = "idle"
            /\ kind' = k
            /\ before' = tree
            /\ Listing(tree, n', walk')
            /\ fi' = 1 /\ found' = FALSE
            /\ phase' = IF k = "readonly" THEN "done" ELSE "loop"
            /\ UNCHANGED tree

\* one iteration of `for file in files` (or its end, followed by the outer `break`)
Step == /\ phase = "loop"
        /\ IF fi > n
           THEN /\ phase' = "done"
                /\ UNCHANGED <<tree, fi, found>>
           ELSE IF kind = "deleteOne"
                THEN IF Matches(walk[fi])
                     THEN /\ tree' = tree \ {walk[fi]}          \* os.remove, then both breaks
                          /\ found' = TRUE
                          /\ phase' = "done"
                          /\ UNCHANGED fi
                     ELSE /\ fi' = fi + 1
                          /\ UNCHANGED <<tree, found, phase>>
                ELSE /\ tree' = tree \ {walk[fi]}               \* deleteAll
                     /\ fi' = fi + 1
                     /\ UNCHANGED <<found, phase>>
        /\ UNCHANGED <<before, kind, n, walk>>

Again == /\ phase = "done"
         /\ phase' = "idle" /\ kind' = "idle"
         /\ before' = tree                    \* the next command is judged against the tree it finds
         /\ UNCHANGED <<tree, n, walk, fi, found>>

Next == (\E k \in {"deleteOne", "deleteAll", "readonly"} : Start(k)) \/ Step \/ Again
Spec == Init /\ [][Next]_vars

(***************************************************************************)
(* The statement (PelDir!DeleteOneOK / DeleteAllOK / FrameOK)              *)
(***************************************************************************)
Cands(B) == {e \in TopFiles(B) : Matches(e)}
DeleteOneOK(B, A) == /\ A \subseteq B
                     /\ (Cands(B) = {} => A = B)
                     /\ (Cands(B) # {} => \E c \in Cands(B) : A = B \ {c})
DeleteAllOK(B, A) == A = B \ TopFiles(B)

EffectOK == phase = "done" =>
              /\ (kind = "deleteOne" => DeleteOneOK(before, tree) /\ (found <=> Cands(before) # {}))
              /\ (kind = "deleteAll" => DeleteAllOK(before, tree))
              /\ (kind = "readonly" => tree = before)
\* at no moment - also not half-way through a loop - is anything but a top-level file of the directory missing,
\* and nothing is ever created
OnlyTopFilesGo == /\ tree \subseteq before
                  /\ \A e \in before \ tree : IsTop(e)
Safe == EffectOK /\ OnlyTopFilesGo

(***************************************************************************)
(* Inductive invariant                                                     *)
(***************************************************************************)
Done(k) == {walk[j] : j \in 1..(k - 1)}

IndInv ==
    /\ phase \in {"idle", "loop", "done"}
    /\ kind \in {"idle", "deleteOne", "deleteAll", "readonly"}
    /\ found \in BOOLEAN
    /\ fi \in Nat /\ fi >= 1
    /\ tree \subseteq before
    /\ (phase = "idle" => kind = "idle")
    /\ (phase = "loop" => kind \in {"deleteOne", "deleteAll"})
    /\ (kind = "idle" => tree = before)
    /\ (kind = "readonly" => tree = before /\ phase = "done")
    /\ (kind \in {"deleteOne", "deleteAll"} =>
            /\ Listing(before, n, walk)
            /\ fi <= n + 1)
    /\ (kind = "deleteAll" => /\ tree = before \ Done(fi)
                              /\ (phase = "done" => fi = n + 1))
    /\ (kind = "deleteOne" /\ phase = "loop" =>
            /\ tree = before /\ ~found
            /\ \A j \in 1..(fi - 1) : ~Matches(walk[j]))
    /\ (kind = "deleteOne" /\ phase = "done" =>
            \/ /\ found /\ fi <= n /\ Matches(walk[fi]) /\ tree = before \ {walk[fi]}
            \/ /\ ~found /\ tree = before /\ \A j \in 1..n : ~Matches(walk[j]))

THEOREM InitInv == Init => IndInv
  <1> SUFFICES ASSUME Init PROVE IndInv OBVIOUS
  <1> QED BY DEF Init, IndInv

THEOREM InvSafe == IndInv => Safe
  <1> SUFFICES ASSUME IndInv PROVE Safe OBVIOUS
  <1>1. OnlyTopFilesGo
    <2>1. tree \subseteq before BY DEF IndInv
    <2>2. ASSUME NEW e \in before \ tree PROVE IsTop(e)
      <3>1. CASE kind \in {"idle", "readonly"} BY <3>1 DEF IndInv
      <3>2. CASE kind = "deleteAll"
        <4>1. e \in Done(fi) BY <3>2 DEF IndInv
        <4>2. PICK j \in 1..(fi - 1) : e = walk[j] BY <4>1 DEF Done
        <4>3. j \in 1..n
          <5>1. fi \in Nat /\ n \in Nat /\ fi <= n + 1 BY <3>2 DEF IndInv, Listing
          <5> QED BY <5>1
        <4>4. walk[j] \in TopFiles(before) BY <3>2, <4>3 DEF IndInv, Listing
        <4> QED BY <4>2, <4>4 DEF TopFiles
      <3>3. CASE kind = "deleteOne"
        <4>1. phase = "done" /\ found /\ fi <= n /\ tree = before \ {walk[fi]} BY <3>3 DEF IndInv
        <4>2. fi \in 1..n BY <4>1 DEF IndInv
        <4>3. walk[fi] \in TopFiles(before) BY <3>3, <4>2 DEF IndInv, Listing
        <4> QED BY <4>1, <4>3 DEF TopFiles
      <3> QED BY <3>1, <3>2, <3>3 DEF IndInv
    <2> QED BY <2>1, <2>2 DEF OnlyTopFilesGo
  <1>2. EffectOK
    <2> SUFFICES ASSUME phase = "done"
                 PROVE /\ (kind = "deleteOne" => DeleteOneOK(before, tree) /\ (found <=> Cands(before) # {}))
                       /\ (kind = "deleteAll" => DeleteAllOK(before, tree))
                       /\ (kind = "readonly" => tree = before)
        BY DEF EffectOK
    <2>1. ASSUME kind = "deleteAll" PROVE DeleteAllOK(before, tree)
      <3>1. tree = before \ Done(n + 1) /\ Listing(before, n, walk) BY <2>1 DEF IndInv
      <3>2. Done(n + 1) = TopFiles(before)
        <4>0. n \in Nat BY <3>1 DEF Listing
        <4>1. ASSUME NEW e \in Done(n + 1) PROVE e \in TopFiles(before)
              BY <3>1, <4>0 DEF Done, Listing
        <4>2. ASSUME NEW e \in TopFiles(before) PROVE e \in Done(n + 1)
          <5>1. PICK k \in 1..n : walk[k] = e BY <3>1 DEF Listing
          <5>2. k \in 1..((n + 1) - 1) BY <4>0
          <5> QED BY <5>1, <5>2 DEF Done
        <4> QED BY <4>1, <4>2
      <3> QED BY <3>1, <3>2 DEF DeleteAllOK
    <2>2. ASSUME kind = "deleteOne" PROVE DeleteOneOK(before, tree) /\ (found <=> Cands(before) # {})
      <3>0. Listing(before, n, walk) /\ tree \subseteq before BY <2>2 DEF IndInv
      <3>1. CASE found /\ fi <= n /\ Matches(walk[fi]) /\ tree = before \ {walk[fi]}
        <4>1. fi \in 1..n BY <3>1 DEF IndInv
        <4>2. walk[fi] \in TopFiles(before) BY <3>0, <4>1 DEF Listing
        <4>3. walk[fi] \in Cands(before) BY <3>1, <4>2 DEF Cands
        <4> QED BY <3>0, <3>1, <4>3 DEF DeleteOneOK
      <3>2. CASE ~found /\ tree = before /\ \A j \in 1..n : ~Matches(walk[j])
        <4>1. Cands(before) = {}
          <5>1. ASSUME NEW e \in Cands(before) PROVE FALSE
            <6>1. e \in TopFiles(before) /\ Matches(e) BY DEF Cands
            <6>2. PICK k \in 1..n : walk[k] = e BY <6>1, <3>0 DEF Listing
            <6> QED BY <6>1, <6>2, <3>2
          <5> QED BY <5>1
        <4> QED BY <3>2, <4>1 DEF DeleteOneOK
      <3> QED BY <2>2, <3>1, <3>2 DEF IndInv
    <2>3. ASSUME kind = "readonly" PROVE tree = before BY <2>3 DEF IndInv
    <2> QED BY <2>1, <2>2, <2>3
  <1> QED BY <1>1, <1>2 DEF Safe

THEOREM NextInv == IndInv /\ [Next]_vars => IndInv'
  <1> SUFFICES ASSUME IndInv, [Next]_vars PROVE IndInv' OBVIOUS
  <1>1. ASSUME NEW k \in {"deleteOne", "deleteAll", "readonly"}, Start(k) PROVE IndInv'
    <2>1. /\ phase = "idle" /\ kind' = k /\ before' = tree /\ tree' = tree /\ fi' = 1 /\ found' = FALSE
          /\ Listing(tree, n', walk') /\ phase' = IF k = "readonly" THEN "done" ELSE "loop"
          BY <1>1 DEF Start
    <2>2. n' \in Nat BY <2>1 DEF Listing
    <2>3. Done(fi)' = {} BY <2>1 DEF Done
    <2>4. Listing(before, n, walk)' BY <2>1 DEF Listing, TopFiles
    <2>5. (fi <= n + 1)' BY <2>1, <2>2
    <2>6. (\A j \in 1..(fi - 1) : ~Matches(walk[j]))' BY <2>1
    <2> QED BY <2>1, <2>2, <2>3, <2>4, <2>5, <2>6 DEF IndInv
  <1>2. ASSUME Step PROVE IndInv'
    <2>0. /\ phase = "loop" /\ before' = before /\ kind' = kind /\ n' = n /\ walk' = walk
          /\ kind \in {"deleteOne", "deleteAll"} /\ Listing(before, n, walk) /\ fi <= n + 1
          /\ fi \in Nat /\ fi >= 1 /\ n \in Nat
          BY <1>2 DEF Step, IndInv, Listing
    <2>1. CASE fi > n
      <3>1. phase' = "done" /\ tree' = tree /\ fi' = fi /\ found' = found /\ fi = n + 1 BY <1>2, <2>0, <2>1 DEF Step
      <3>2. CASE kind = "deleteAll" BY <2>0, <3>1, <3>2 DEF IndInv, Done, Listing, TopFiles
      <3>3. CASE kind = "deleteOne"
        <4>1. ~found /\ tree = before /\ \A j \in 1..(fi - 1) : ~Matches(walk[j]) BY <2>0, <3>3 DEF IndInv
        <4>2. \A j \in 1..n : ~Matches(walk[j]) BY <4>1, <3>1, <2>0
        <4> QED BY <2>0, <3>1, <3>3, <4>1, <4>2 DEF IndInv, Listing, TopFiles
      <3> QED BY <2>0, <3>2, <3>3
    <2>2. CASE ~(fi > n) /\ kind = "deleteOne" /\ Matches(walk[fi])
      <3>1. /\ tree' = tree \ {walk[fi]} /\ found' = TRUE /\ phase' = "done" /\ fi' = fi
            BY <1>2, <2>2 DEF Step
      <3>2. tree = before BY <2>0, <2>2 DEF IndInv
      <3>3. fi <= n BY <2>0, <2>2
      <3> QED BY <2>0, <2>2, <3>1, <3>2, <3>3 DEF IndInv, Listing, TopFiles
    <2>3. CASE ~(fi > n) /\ kind = "deleteOne" /\ ~Matches(walk[fi])
      <3>1. /\ fi' = fi + 1 /\ tree' = tree /\ found' = found /\ phase' = phase
            BY <1>2, <2>3 DEF Step
      <3>2. ~found /\ tree = before /\ \A j \in 1..(fi - 1) : ~Matches(walk[j]) BY <2>0, <2>3 DEF IndInv
      <3>3. \A j \in 1..((fi + 1) - 1) : ~Matches(walk[j]) BY <3>2, <2>3, <2>0
      <3>4. fi + 1 \in Nat /\ fi + 1 >= 1 /\ fi + 1 <= n + 1 BY <2>0, <2>3
      <3> QED BY <2>0, <2>3, <3>1, <3>2, <3>3, <3>4 DEF IndInv, Listing, TopFiles
    <2>4. CASE ~(fi > n) /\ kind = "deleteAll"
      <3>1. /\ tree' = tree \ {walk[fi]} /\ fi' = fi + 1 /\ found' = found /\ phase' = phase
            BY <1>2, <2>4 DEF Step
      <3>2. tree = before \ Done(fi) BY <2>4 DEF IndInv
      <3>3. Done(fi + 1) = Done(fi) \cup {walk[fi]}
        <4>1. 1..((fi + 1) - 1) = 1..(fi - 1) \cup {fi} BY <2>0
        <4> QED BY <4>1 DEF Done
      <3>4. tree' = before \ Done(fi + 1) BY <3>1, <3>2, <3>3
      <3>5. fi + 1 \in Nat /\ fi + 1 >= 1 /\ fi + 1 <= n + 1 BY <2>0, <2>4
      <3>6. Done(fi)' = Done(fi + 1) BY <3>1, <2>0 DEF Done
      <3> QED BY <2>0, <2>4, <3>1, <3>4, <3>5, <3>6 DEF IndInv, Listing, TopFiles
    <2> QED BY <2>0, <2>1, <2>2, <2>3, <2>4
  <1>3. ASSUME Again PROVE IndInv'
    <2>1. /\ phase = "done" /\ phase' = "idle" /\ kind' = "idle" /\ tree' = tree /\ before' = tree
          /\ n' = n /\ walk' = walk /\ fi' = fi /\ found' = found
          BY <1>3 DEF Again
    <2> QED BY <2>1 DEF IndInv
  <1>4. ASSUME UNCHANGED vars PROVE IndInv'
    BY <1>4 DEF vars, IndInv, Listing, TopFiles, Done
  <1> QED BY <1>1, <1>2, <1>3, <1>4 DEF Next

THEOREM Safety == Spec => []Safe
  <1>1. Spec => []IndInv BY InitInv, NextInv, PTL DEF Spec
  <1> QED BY <1>1, InvSafe, PTL
=============================================================================
