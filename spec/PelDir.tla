------------------------------- MODULE PelDir -------------------------------
(***************************************************************************)
(* The PEL directory tree and what each peltool mode may do to it          *)
(* (properties C11, C09; used by C08/C10 for name order and id matching).  *)
(*                                                                         *)
(* A tree is a set of entries                                              *)
(*   [area : "in" | "out" | "aux", path : STRING (relative, unique),       *)
(*    depth : 0 = directly in the directory, name : Seq(Nat) code points   *)
(*    of the base name, type : "f" | "d", sha : STRING]                    *)
(* "in" is the PEL directory, "out" the --output-dir (when it differs),    *)
(* "aux" anything else the harness put next to them.                       *)
(*                                                                         *)
(* Rule operators (named ...OK) state the allowed effect of one invocation as a    *)
(* relation between the tree before (B) and after (A).  The Impl actions   *)
(* further down are the code's os.walk loops, break statements included;   *)
(* MC_PelDir checks Impl against the rules, and the trace judge applies    *)
(* the same ...OK operators to snapshots taken around real invocations.      *)
(***************************************************************************)
EXTENDS Naturals, Sequences, FiniteSets

(***************************************************************************)
(* Names                                                                   *)
(***************************************************************************)
Contains(s, sub) ==
    \E k \in 0..(Len(s) - Len(sub)) : SubSeq(s, k + 1, k + Len(sub)) = sub

\* lexicographic order on code-point sequences (Python's str order)
RECURSIVE SeqLess(_, _)
SeqLess(a, b) ==
    IF a = <<>> THEN b # <<>>
    ELSE IF b = <<>> THEN FALSE
    ELSE IF Head(a) # Head(b) THEN Head(a) < Head(b)
    ELSE SeqLess(Tail(a), Tail(b))

Ascending(names) == \A k \in 1..(Len(names) - 1) : SeqLess(names[k], names[k + 1])
Descending(names) == \A k \in 1..(Len(names) - 1) : SeqLess(names[k + 1], names[k])

\* os.path.splitext(name)[1]: from the last dot, unless the name has no dot
\* other than leading ones
LastDot(s) == LET D == {k \in 1..Len(s) : s[k] = 46} IN IF D = {} THEN 0 ELSE CHOOSE k \in D : \A j \in D : j <= k
LeadingDots(s) == LET N == {k \in 0..Len(s) : \A j \in 1..k : s[j] = 46} IN CHOOSE k \in N : \A j \in N : j <= k
Ext(s) == IF LastDot(s) <= LeadingDots(s) THEN <<>> ELSE SubSeq(s, LastDot(s), Len(s))

(***************************************************************************)
(* Effects                                                                 *)
(***************************************************************************)
In(S)       == {e \in S : e.area = "in"}
TopFiles(S) == {e \in S : e.area = "in" /\ e.depth = 0 /\ e.type = "f"}
Nested(S)   == {e \in S : e.area = "in" /\ e.depth > 0}
Dirs(S)     == {e \in S : e.type = "d"}

FrameOK(B, A) == A = B

\* --delete E: at most one file, directly in the directory, whose name contains E
DeleteOneOK(B, A, id) ==
    LET cands == {e \in TopFiles(B) : Contains(e.name, id)}
    IN  /\ A \subseteq B
        /\ (cands = {} => A = B)
        /\ (cands # {} => \E c \in cands : A = B \ {c})
DeleteOneFound(B, id) == {e \in TopFiles(B) : Contains(e.name, id)} # {}

\* --delete-all: all and only the regular files directly in the directory
DeleteAllOK(B, A) == A = B \ TopFiles(B)

\* --json: only new files, only in the output directory (the PEL directory
\* itself without -o), each named <pel file>.<entry id>.json for a file
\* directly in the PEL directory whose entry id that is.
\* new entries carry: stem (name before ".<id>.json"), idbytes (the id parsed
\* as a number, as 4 bytes, or <<>> when the name has no such form)
\* every entry carries eid (the entry id of the PEL it holds, as 4 bytes; <<>> if it is not a PEL)
JsonNewOK(B, n, outarea) ==
    /\ n.type = "f"
    /\ n.area = outarea /\ n.depth = 0
    /\ n.idbytes # <<>>
    /\ \E f \in TopFiles(B) : f.name = n.stem /\ f.eid = n.idbytes
JsonOK(B, A, outarea, clean) ==
    LET same(x, y) == x.path = y.path /\ x.area = y.area
        \* files created, or existing files whose content was replaced (a second --json
        \* run overwrites the outputs of the first)
        written == {a \in A : \A b \in B : ~same(a, b) \/ b.sha # a.sha}
        gone == {b \in B : \A a \in A : ~same(a, b)}
    IN  /\ \A w \in written : JsonNewOK(B, w, outarea)
        /\ \A b \in B : \A a \in A : same(a, b) => a.type = b.type
        /\ (~clean => gone = {})
        \* with --clean only inputs whose output exists afterwards may go (C12 says when)
        /\ (clean => \A g \in gone : /\ g \in TopFiles(B)
                                      /\ \E a \in A : /\ a.area = outarea /\ a.depth = 0 /\ a.type = "f"
                                                       /\ a.stem = g.name /\ a.idbytes = g.eid)

\* --file F [--clean]: nothing changes, except that --clean may remove F itself
FileOK(B, A, clean, fpath) ==
    IF clean THEN A \subseteq B /\ \A g \in B \ A : g.path = fpath /\ g.type = "f"
    ELSE A = B

(***************************************************************************)
(* Implementation-shaped deletes (os.walk loops) for model checking        *)
(*                                                                         *)
(* walk: the sequence of (directory, files) pairs os.walk yields: the top  *)
(* directory first, then each subdirectory; files in file-system order.    *)
(* The loops are those of deletePELFromPELId / deleteAllPELs; BreakOuter   *)
(* and BreakInner say whether the two break statements are present (TRUE   *)
(* is the code; FALSE shows what each break is for).                       *)
(***************************************************************************)
CONSTANTS Universe,          \* set of entries a model tree is drawn from
          Ids,               \* set of id code-point sequences a command may name
          BreakOuter, BreakInner

VARIABLES tree, cmd, before, walk, di, fi, found, phase
vars == <<tree, cmd, before, walk, di, fi, found, phase>>

WellFormedTree(T) == \A e \in T : e.depth > 0 => \E d \in T : d.type = "d" /\ d.depth = 0

\* all orders in which os.walk may list a set of files
Perms(S) == {p \in [1..Cardinality(S) -> S] : \A x \in S : \E k \in 1..Cardinality(S) : p[k] = x}
WalkOf(T) ==
    { <<top>> \o (IF Nested(T) = {} THEN <<>> ELSE <<sub>>) :
        top \in Perms({e \in T : e.area = "in" /\ e.depth = 0 /\ e.type = "f"}),
        sub \in Perms({e \in T : e.area = "in" /\ e.depth > 0 /\ e.type = "f"}) }

Init == /\ tree \in {T \in SUBSET Universe : WellFormedTree(T)}
        /\ cmd = [kind |-> "idle"]
        /\ before = tree
        /\ walk = <<>> /\ di = 1 /\ fi = 1 /\ found = FALSE
        /\ phase = "idle"

StartDeleteOne(id) ==
    /\ phase = "idle"
    /\ cmd' = [kind |-> "deleteOne", id |-> id]
    /\ before' = tree
    /\ walk' \in WalkOf(tree)
    /\ di' = 1 /\ fi' = 1 /\ found' = FALSE
    /\ phase' = "loop"
    /\ UNCHANGED tree

StartDeleteAll ==
    /\ phase = "idle"
    /\ cmd' = [kind |-> "deleteAll"]
    /\ before' = tree
    /\ walk' \in WalkOf(tree)
    /\ di' = 1 /\ fi' = 1 /\ found' = FALSE
    /\ phase' = "loop"
    /\ UNCHANGED tree

ReadOnly ==                     \* -l -a -n -i --bmc-id --plid --src --src-exclude -x
    /\ phase = "idle"
    /\ cmd' = [kind |-> "readonly"]
    /\ before' = tree
    /\ phase' = "done"
    /\ UNCHANGED <<tree, walk, di, fi, found>>

\* one iteration of the inner `for file in files`
Step ==
    /\ phase = "loop"
    /\ di <= Len(walk)
    /\ IF fi > Len(walk[di])
       THEN \* inner loop exhausted: `break` after the top level, or go on to the next directory
            /\ IF BreakOuter THEN phase' = "done" /\ UNCHANGED <<di, fi>>
               ELSE di' = di + 1 /\ fi' = 1 /\ UNCHANGED phase
            /\ UNCHANGED <<tree, found>>
       ELSE LET f == walk[di][fi] IN
            IF cmd.kind = "deleteOne"
            THEN IF Contains(f.name, cmd.id)
                 THEN /\ tree' = tree \ {f}
                      /\ found' = TRUE
                      /\ IF BreakInner
                         THEN \* break out of the file loop, then the outer break
                              IF BreakOuter THEN phase' = "done" /\ UNCHANGED <<di, fi>>
                              ELSE di' = di + 1 /\ fi' = 1 /\ UNCHANGED phase
                         ELSE fi' = fi + 1 /\ UNCHANGED <<di, phase>>
                 ELSE fi' = fi + 1 /\ UNCHANGED <<tree, found, di, phase>>
            ELSE \* deleteAll: remove every regular file listed
                 /\ tree' = tree \ {f}
                 /\ fi' = fi + 1
                 /\ UNCHANGED <<found, di, phase>>
    /\ UNCHANGED <<cmd, before, walk>>

Finish ==
    /\ phase = "loop" /\ di > Len(walk)
    /\ phase' = "done"
    /\ UNCHANGED <<tree, cmd, before, walk, di, fi, found>>

Again == /\ phase = "done" /\ phase' = "idle" /\ cmd' = [kind |-> "idle"]
         /\ UNCHANGED <<tree, before, walk, di, fi, found>>

Next == (\E id \in Ids : StartDeleteOne(id)) \/ StartDeleteAll \/ ReadOnly \/ Step \/ Finish \/ Again
Spec == Init /\ [][Next]_vars

(***************************************************************************)
(* Properties of the implementation-shaped model                           *)
(***************************************************************************)
EffectOK ==
    phase = "done" =>
        CASE cmd.kind = "deleteOne" -> DeleteOneOK(before, tree, cmd.id)
                                       /\ (found <=> DeleteOneFound(before, cmd.id))
          [] cmd.kind = "deleteAll" -> DeleteAllOK(before, tree)
          [] cmd.kind = "readonly"  -> FrameOK(before, tree)
          [] OTHER -> TRUE
NeverDescends == Nested(tree) = Nested(before) /\ Dirs(tree) = Dirs(before)
OnlyShrinks == [][tree' \subseteq tree]_vars
=============================================================================
