---------------------------- MODULE PrettyPrint ----------------------------
(***************************************************************************)
(* Column alignment of printed JSON (property C06).                        *)
(*                                                                         *)
(* A line is a sequence of code points.  json.dumps(indent=4) produces     *)
(* lines of the shape  indent [ "key" : ] value [,]  where "key" is a JSON *)
(* string (quotes and backslashes escaped with a backslash).               *)
(*                                                                         *)
(* Rule:  Allowed(in, out) - the output line is the input line, or the     *)
(*        input line is a key line and the output is the input with spaces *)
(*        inserted between the key's closing quote and the value (before   *)
(*        and/or after the colon), nowhere else.                           *)
(* Impl:  the scanner of peltool.prettyPrint.  AsFound looks for the FIRST *)
(*        occurrence of the two characters  ":  in the line (deviation:    *)
(*        that may be an escaped quote inside the key, or lie inside a     *)
(*        string value); Repaired scans the key as a JSON string.  Both    *)
(*        leave lines containing an opening brace alone, as the code does. *)
(***************************************************************************)
EXTENDS Naturals, Sequences

QUOTE == 34   BSLASH == 92   COLON == 58   LBRACE == 123   SPACE == 32   COMMA == 44

Spaces(n) == [k \in 1..n |-> SPACE]

\* index of the first non-space character (Len+1 if none)
RECURSIVE SkipSpaces(_, _)
SkipSpaces(line, k) == IF k <= Len(line) /\ line[k] = SPACE THEN SkipSpaces(line, k + 1) ELSE k

\* given that line[k-1] opened a JSON string, the index of its closing quote (0 if unterminated)
RECURSIVE CloseQuote(_, _)
CloseQuote(line, k) ==
    IF k > Len(line) THEN 0
    ELSE IF line[k] = BSLASH THEN CloseQuote(line, k + 2)
    ELSE IF line[k] = QUOTE THEN k
    ELSE CloseQuote(line, k + 1)

\* index of the closing quote of the key of a key line, 0 if the line is not a key line
KeyEnd(line) ==
    LET s == SkipSpaces(line, 1) IN
    IF s > Len(line) \/ line[s] # QUOTE THEN 0
    ELSE LET q == CloseQuote(line, s + 1) IN
         IF q = 0 \/ q + 1 > Len(line) \/ line[q + 1] # COLON THEN 0 ELSE q

IsSpaces(s) == \A k \in 1..Len(s) : s[k] = SPACE

Allowed(in, out) ==
    \/ out = in
    \/ /\ KeyEnd(in) # 0
       /\ Len(out) > Len(in)
       /\ LET q == KeyEnd(in)
              extra == Len(out) - Len(in)
          IN  \E a \in 0..extra :
                 out = SubSeq(in, 1, q) \o Spaces(a) \o <<COLON>> \o Spaces(extra - a)
                       \o SubSeq(in, q + 2, Len(in))

(***************************************************************************)
(* Implementation-shaped                                                   *)
(***************************************************************************)
HasChar(line, c) == \E k \in 1..Len(line) : line[k] = c
\* first k with line[k] = '"' and line[k+1] = ':' (0 if none)  - str.index('":')
FirstQuoteColon(line) ==
    LET K == {k \in 1..(Len(line) - 1) : line[k] = QUOTE /\ line[k + 1] = COLON}
    IN  IF K = {} THEN 0 ELSE CHOOSE k \in K : \A j \in K : k <= j

InsertAfterColon(line, q, width) ==       \* q = index of the quote before the colon
    LET n == IF width > q - 1 THEN width - (q - 1) ELSE 0      \* desiredSpace - ind, ind 0-based
    IN  SubSeq(line, 1, q + 1) \o Spaces(n) \o SubSeq(line, q + 2, Len(line))

ImplAsFound(line, width) ==
    LET q == FirstQuoteColon(line) IN
    IF q # 0 /\ ~HasChar(line, LBRACE) THEN InsertAfterColon(line, q, width) ELSE line

ImplRepaired(line, width) ==
    LET q == KeyEnd(line) IN
    IF q # 0 /\ ~HasChar(line, LBRACE) THEN InsertAfterColon(line, q, width) ELSE line

(***************************************************************************)
(* json.dumps-shaped lines, by construction (for model checking)           *)
(***************************************************************************)
Escape(c) == IF c = QUOTE \/ c = BSLASH THEN <<BSLASH, c>> ELSE <<c>>
RECURSIVE EscapeAll(_)
EscapeAll(s) == IF s = <<>> THEN <<>> ELSE Escape(Head(s)) \o EscapeAll(Tail(s))
Quoted(s) == <<QUOTE>> \o EscapeAll(s) \o <<QUOTE>>

\* a structured line: indent n, optional key (a record [has, text]), value text, trailing comma
Render(l) ==
    Spaces(l.indent)
    \o (IF l.haskey THEN Quoted(l.key) \o <<COLON, SPACE>> ELSE <<>>)
    \o l.value
    \o (IF l.comma THEN <<COMMA>> ELSE <<>>)
KeyEndByConstruction(l) == IF l.haskey THEN l.indent + Len(Quoted(l.key)) ELSE 0
=============================================================================
