------------------------------ MODULE PyFormat ------------------------------
(***************************************************************************)
(* The subset of Python's  fmt % args  that the PTE tables and trace       *)
(* string files use (C14, C15): literal text and the directives            *)
(*   %d %i %u   decimal            %x %X   hex lower / upper               *)
(*   %c         the code point     %s      str() of the integer            *)
(*   %%         a percent sign (consumes no argument)                      *)
(* each with an optional 0 flag, width and .precision.  args are unsigned  *)
(* 32-bit numbers given as 4 bytes (TLC integers are 32 bit signed).       *)
(* Any error Python would raise - too few / too many arguments, %c beyond  *)
(* 0x10FFFF, an unknown or incomplete directive - makes the result RAW:    *)
(* the caller then shows the format string itself (the code's except).     *)
(***************************************************************************)
EXTENDS Integers, Sequences, SequencesExt

RAW == <<-1>>
PCT == 37
IsDigit(c) == 48 <= c /\ c <= 57

\* decimal digits of a number < 2^31
RECURSIVE DecSmall(_)
DecSmall(n) == IF n < 10 THEN <<48 + n>> ELSE DecSmall(n \div 10) \o <<48 + (n % 10)>>
Pad4(n) == <<48 + (n \div 1000), 48 + ((n \div 100) % 10), 48 + ((n \div 10) % 10), 48 + (n % 10)>>
\* decimal digits of a 32-bit unsigned number given as 4 bytes
DecU32(b) ==
    LET hi == b[1] * 256 + b[2]
        lo == b[3] * 256 + b[4]
        low == hi * 5536 + lo                      \* value = hi * 60000 + low
        A == hi * 6 + low \div 10000
        B == low % 10000
    IN  IF A = 0 THEN DecSmall(B) ELSE DecSmall(A) \o Pad4(B)

HexD(n, upper) == IF n < 10 THEN 48 + n ELSE IF upper THEN 55 + n ELSE 87 + n
Hex8Of(b, upper) == FoldLeft(LAMBDA acc, x : acc \o <<HexD(x \div 16, upper), HexD(x % 16, upper)>>, <<>>, b)
RECURSIVE DropZeros(_)
DropZeros(d) == IF Len(d) > 1 /\ d[1] = 48 THEN DropZeros(Tail(d)) ELSE d
HexU32(b, upper) == DropZeros(Hex8Of(b, upper))

Rep(c, n) == [k \in 1..n |-> c]
PadLeft(s, n, c) == IF Len(s) >= n THEN s ELSE Rep(c, n - Len(s)) \o s

\* number conversions: precision = minimum digits; then width (0 flag ignored when a precision is given)
NumField(digits, zero, width, prec) ==
    LET d == IF prec >= 0 THEN PadLeft(digits, prec, 48) ELSE digits
    IN  PadLeft(d, width, IF zero /\ prec < 0 THEN 48 ELSE 32)

\* parse a run of digits starting at k: <<value, next k>>
RECURSIVE Num(_, _, _)
Num(f, k, acc) == IF k <= Len(f) /\ IsDigit(f[k]) THEN Num(f, k + 1, acc * 10 + (f[k] - 48)) ELSE <<acc, k>>

CodePoint(b) == b[2] * 65536 + b[3] * 256 + b[4]
TooBigForChr(b) == b[1] > 0 \/ b[2] >= 17          \* >= 0x110000

\* ai = index of the next unused argument
RECURSIVE FScan(_, _, _, _, _)
FScan(f, k, args, ai, acc) ==
    IF k > Len(f) THEN (IF ai = Len(args) + 1 THEN acc ELSE RAW)           \* not all arguments converted
    ELSE IF f[k] # PCT THEN FScan(f, k + 1, args, ai, Append(acc, f[k]))
    ELSE IF k = Len(f) THEN RAW                                            \* incomplete format
    ELSE LET zero == f[k + 1] = 48
             k1 == IF zero THEN k + 2 ELSE k + 1
             w == Num(f, k1, 0)
             hasPrec == w[2] <= Len(f) /\ f[w[2]] = 46
             p == IF hasPrec THEN Num(f, w[2] + 1, 0) ELSE <<-1, w[2]>>
             kc == p[2]
         IN  IF kc > Len(f) THEN RAW
             ELSE LET c == f[kc] IN
                  IF c = PCT THEN FScan(f, kc + 1, args, ai, Append(acc, PCT))
                  ELSE IF c \notin {100, 105, 117, 120, 88, 99, 115} THEN RAW           \* d i u x X c s
                  ELSE IF ai > Len(args) THEN RAW                                     \* not enough arguments
                  ELSE LET a == args[ai]
                           txt == CASE c \in {100, 105, 117} -> NumField(DecU32(a), zero, w[1], p[1])
                                    [] c = 120 -> NumField(HexU32(a, FALSE), zero, w[1], p[1])
                                    [] c = 88 -> NumField(HexU32(a, TRUE), zero, w[1], p[1])
                                    [] c = 99 -> IF TooBigForChr(a) THEN RAW ELSE PadLeft(<<CodePoint(a)>>, w[1], 32)
                                    [] c = 115 -> PadLeft(IF p[1] >= 0 /\ p[1] < Len(DecU32(a))
                                                          THEN SubSeq(DecU32(a), 1, p[1]) ELSE DecU32(a), w[1], 32)
                       IN  IF txt = RAW THEN RAW ELSE FScan(f, kc + 1, args, ai + 1, acc \o txt)

\* fmt % args, or fmt itself when Python raises
Fmt(f, args) == LET r == FScan(f, 1, args, 1, <<>>) IN IF r = RAW THEN f ELSE r

ASSUME DecU32(<<255, 255, 255, 255>>) = <<52, 50, 57, 52, 57, 54, 55, 50, 57, 53>>      \* 4294967295
ASSUME DecU32(<<0, 1, 0, 0>>) = <<54, 53, 53, 51, 54>>                                  \* 65536
ASSUME DecU32(<<0, 0, 0, 0>>) = <<48>>
ASSUME HexU32(<<0, 0, 250, 4>>, FALSE) = <<102, 97, 48, 52>>                            \* fa04
ASSUME Fmt(<<37, 48, 50, 88, 33>>, <<<<0, 0, 0, 10>>>>) = <<48, 65, 33>>                \* "%02X!" % 10 = "0A!"
ASSUME Fmt(<<37, 46, 52, 88>>, <<<<0, 0, 0, 171>>>>) = <<48, 48, 65, 66>>               \* "%.4X" % 0xAB = "00AB"
ASSUME Fmt(<<37, 100>>, <<>>) = <<37, 100>>                                             \* too few arguments: raw
ASSUME Fmt(<<120>>, <<<<0, 0, 0, 1>>>>) = <<120>>                                       \* too many arguments: raw
ASSUME Fmt(<<53, 37, 37>>, <<>>) = <<53, 37>>                                           \* "5%%" % () = "5%"
=============================================================================
