------------------------------ MODULE HwDiags ------------------------------
(***************************************************************************)
(* Hardware-diagnostics signatures and register dumps (C20):               *)
(* pel/hwdiags/parserdata.py, udparsers/oe500, srcparsers/oe500.           *)
(*                                                                         *)
(* A 12-byte signature arrives as three words of 8 hex characters (upper   *)
(* case from the SRC path, lower case from the user-data path):            *)
(*   word a : chip model / EC                                              *)
(*   word b : chip position (16 bit) | node (8) | attention type (8)       *)
(*   word c : signature id (16 bit) | instance (8) | bit (8)               *)
(* Chip data (one JSON file per model/EC) is abstracted as                 *)
(*   chips : seq of [id (8 lower-case hex chars), type, desc (code points  *)
(*           or ABSENT), attn : seq of [key, val], sigs : seq of [id (4),  *)
(*           name (or ABSENT), bits : seq of [key, val]], regs : seq of    *)
(*           [id (6), name (or ABSENT), insts : seq of [key, addr (4       *)
(*           bytes)]]]                                                     *)
(* Every look-up is case-insensitive in the hex keys and falls back to the *)
(* raw numbers - never to an error.                                        *)
(***************************************************************************)
EXTENDS Integers, Sequences, SequencesExt

ABSENT == <<-1>>
LowerC(c) == IF 65 <= c /\ c <= 90 THEN c + 32 ELSE c
UpperC(c) == IF 97 <= c /\ c <= 122 THEN c - 32 ELSE c
LowerAll(s) == [k \in 1..Len(s) |-> LowerC(s[k])]
UpperAll(s) == [k \in 1..Len(s) |-> UpperC(s[k])]
HexVal(c) == IF c <= 57 THEN c - 48 ELSE IF c <= 70 THEN c - 55 ELSE c - 87
HexNum(s) == FoldLeft(LAMBDA acc, c : acc * 16 + HexVal(c), 0, s)
RECURSIVE Dec(_)
Dec(n) == IF n < 10 THEN <<48 + n>> ELSE Dec(n \div 10) \o <<48 + (n % 10)>>
HexU(n) == IF n < 10 THEN 48 + n ELSE 55 + n

Find(seq, key) == SelectSeq(seq, LAMBDA e : e.key = key)
Chip(chips, model) == SelectSeq(chips, LAMBDA ch : ch.id = LowerAll(model))

ChipDesc(chips, model, node, pos) ==
    LET hit == Chip(chips, model)
        type == IF hit # <<>> /\ hit[1].type # ABSENT THEN hit[1].type ELSE <<117, 110, 107, 110, 111, 119, 110>>
        desc == IF hit # <<>> /\ hit[1].desc # ABSENT THEN hit[1].desc ELSE UpperAll(model)
    IN  <<110, 111, 100, 101, 32>> \o Dec(node) \o <<32>> \o type \o <<32>> \o Dec(pos) \o <<32, 40>> \o desc \o <<41>>

SigDesc(chips, model, sigid, inst, bit) ==
    LET hit == Chip(chips, model)
        sg == IF hit = <<>> THEN <<>> ELSE SelectSeq(hit[1].sigs, LAMBDA s : s.id = LowerAll(sigid))
        name == IF sg # <<>> /\ sg[1].name # ABSENT THEN sg[1].name ELSE <<105, 100, 58>> \o UpperAll(sigid)
        bd == IF sg = <<>> \/ sg[1].name = ABSENT THEN <<>> ELSE Find(sg[1].bits, Dec(bit))
        desc == IF bd # <<>> THEN bd[1].val ELSE <<>>
    IN  name \o <<40>> \o Dec(inst) \o <<41, 91>> \o Dec(bit) \o <<93, 32>> \o desc

AttnDesc(chips, model, attn) ==
    LET hit == Chip(chips, model)
        a == IF hit = <<>> THEN <<>> ELSE Find(hit[1].attn, Dec(attn))
    IN  IF a # <<>> THEN a[1].val ELSE Dec(attn)

\* words: three sequences of 8 hex characters
Signature(chips, a, b, c) ==
    [chip |-> ChipDesc(chips, a, HexNum(SubSeq(b, 5, 6)), HexNum(SubSeq(b, 1, 4))),
     sig |-> SigDesc(chips, a, SubSeq(c, 1, 4), HexNum(SubSeq(c, 5, 6)), HexNum(SubSeq(c, 7, 8))),
     attn |-> AttnDesc(chips, a, HexNum(SubSeq(b, 7, 8)))]

(***************************************************************************)
(* Register dump: payload = count(4), then per chip model(4) pos(2)        *)
(* node(1) nregs(4), per register id(3) inst(1) size(1) data(size).        *)
(***************************************************************************)
HexLowerOf(bs) == FoldLeft(LAMBDA acc, x : acc \o <<IF x \div 16 < 10 THEN 48 + (x \div 16) ELSE 87 + (x \div 16),
                                                    IF x % 16 < 10 THEN 48 + (x % 16) ELSE 87 + (x % 16)>>, <<>>, bs)
HexUpperOf(bs) == UpperAll(HexLowerOf(bs))
U(bs) == FoldLeft(LAMBDA acc, x : acc * 256 + x, 0, bs)            \* small numbers only
PadRight(s, n, c) == IF Len(s) >= n THEN s ELSE s \o [k \in 1..(n - Len(s)) |-> c]

RegLine(chips, model, regid, inst, data) ==
    LET hit == Chip(chips, model)
        rg == IF hit = <<>> THEN <<>> ELSE SelectSeq(hit[1].regs, LAMBDA r : r.id = LowerAll(regid))
        name == IF rg # <<>> /\ rg[1].name # ABSENT THEN rg[1].name
                ELSE <<105, 100, 58>> \o UpperAll(regid) \o <<32, 105, 110, 115, 116, 58>> \o Dec(inst)
        ad == IF rg = <<>> \/ rg[1].name = ABSENT THEN <<>> ELSE Find(rg[1].insts, Dec(inst))
        addr == IF ad # <<>> THEN ad[1].addr ELSE <<0, 0, 0, 0>>
        name25 == PadRight(SubSeq(name, 1, IF Len(name) < 25 THEN Len(name) ELSE 25), 25, 32)
        digits == HexUpperOf(data)
        chunks == FoldLeft(LAMBDA acc, k : acc \o (IF k > 1 /\ (k - 1) % 4 = 0 THEN <<32>> ELSE <<>>) \o <<digits[k]>>,
                           <<>>, [k \in 1..Len(digits) |-> k])
    IN  <<32, 32>> \o name25 \o <<32, 40, 48, 120>> \o HexUpperOf(addr) \o <<41, 32>> \o chunks

\* parse the payload into lines; pos is 0-based
RECURSIVE Regs(_, _, _, _, _)
Regs(chips, model, p, pos, n) ==          \* n registers left
    IF n = 0 THEN [lines |-> <<>>, pos |-> pos]
    ELSE LET size == p[pos + 5]
             line == RegLine(chips, model, HexLowerOf(SubSeq(p, pos + 1, pos + 3)), p[pos + 4],
                             SubSeq(p, pos + 6, pos + 5 + size))
             rest == Regs(chips, model, p, pos + 5 + size, n - 1)
         IN  [lines |-> <<line>> \o rest.lines, pos |-> rest.pos]
RECURSIVE ChipsDump(_, _, _, _)
ChipsDump(chips, p, pos, n) ==
    IF n = 0 THEN <<>>
    ELSE LET model == HexLowerOf(SubSeq(p, pos + 1, pos + 4))
             head == PadRight(ChipDesc(chips, model, p[pos + 7], U(SubSeq(p, pos + 5, pos + 6))) \o <<32>>, 60, 42)
             r == Regs(chips, model, p, pos + 11, U(SubSeq(p, pos + 8, pos + 11)))
         IN  <<head>> \o r.lines \o ChipsDump(chips, p, r.pos, n - 1)
RegisterDump(chips, p) == ChipsDump(chips, p, 4, U(SubSeq(p, 1, 4)))
=============================================================================
