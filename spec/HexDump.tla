------------------------------ MODULE HexDump ------------------------------
(***************************************************************************)
(* pel/hexdump.py: hexdump() and parse()  (properties C13; used as the     *)
(* "lossless dump" oracle by C04, C15, C16, C17).  Text is sequences of    *)
(* code points, data sequences of bytes.                                   *)
(***************************************************************************)
EXTENDS Integers, Sequences, SequencesExt

SP == 32
HexChar(n) == IF n < 10 THEN 48 + n ELSE 55 + n              \* upper case
Hex2(b) == <<HexChar(b \div 16), HexChar(b % 16)>>
Spaces(n) == [k \in 1..n |-> SP]
CeilDiv(a, b) == (a + b - 1) \div b
MinN(a, b) == IF a < b THEN a ELSE b

\* 8 upper-case hex digits of a number < 2^31
Hex8(n) == [k \in 1..8 |-> HexChar((n \div (16 ^ (8 - k))) % 16)]

Printable(b) == 32 <= b /\ b < 127
TextChar(b) == IF Printable(b) THEN b ELSE 46

(***************************************************************************)
(* hexdump(data, bytes_per_line, bytes_per_chunk)                          *)
(***************************************************************************)
NumChunks(bpl, bpc) == CeilDiv(bpl, bpc)
CharPerLine(bpl, bpc) == bpl * 2 + 2 * NumChunks(bpl, bpc) - 2
NLines(data, bpl) == CeilDiv(Len(data), bpl)

\* the hex part of one line holding bytes `chunk` (1..bpl of them), before padding
RawOf(chunk, bpc) ==
    FoldLeft(LAMBDA acc, j : acc \o (IF j # 1 /\ (j - 1) % bpc = 0 THEN <<SP, SP>> ELSE <<>>) \o Hex2(chunk[j]),
             <<>>, [j \in 1..Len(chunk) |-> j])
PadTo(s, n) == IF Len(s) >= n THEN s ELSE s \o Spaces(n - Len(s))

LineOf(data, k, bpl, bpc) ==            \* k-th line, k >= 1
    LET off == (k - 1) * bpl
        chunk == SubSeq(data, off + 1, MinN(off + bpl, Len(data)))
    IN  Hex8(off) \o Spaces(5) \o PadTo(RawOf(chunk, bpc), CharPerLine(bpl, bpc)) \o Spaces(5)
        \o PadTo([j \in 1..Len(chunk) |-> TextChar(chunk[j])], bpl)

Dump(data, bpl, bpc) == [k \in 1..NLines(data, bpl) |-> LineOf(data, k, bpl, bpc)]

\* the line template that describes Dump's layout to parse()
CA == 65  CD == 68  CC == 67
Template(bpl, bpc) ==
    [k \in 1..8 |-> CA] \o Spaces(5)
    \o FoldLeft(LAMBDA acc, j : acc \o (IF j # 1 /\ (j - 1) % bpc = 0 THEN <<SP, SP>> ELSE <<>>) \o <<CD, CD>>,
                <<>>, [j \in 1..bpl |-> j])
    \o Spaces(5) \o [k \in 1..bpl |-> CC]

(***************************************************************************)
(* parse(lines, line_format)                                               *)
(***************************************************************************)
IsHexDigit(c) == (48 <= c /\ c <= 57) \/ (65 <= c /\ c <= 70) \/ (97 <= c /\ c <= 102)
HexVal(c) == IF c <= 57 THEN c - 48 ELSE IF c <= 70 THEN c - 55 ELSE c - 87

StripNL(line) == IF Len(line) > 0 /\ line[Len(line)] = 10 THEN SubSeq(line, 1, Len(line) - 1) ELSE line
\* rstrip('\n') removes every trailing newline
RECURSIVE StripNLs(_)
StripNLs(line) == IF Len(line) > 0 /\ line[Len(line)] = 10 THEN StripNLs(SubSeq(line, 1, Len(line) - 1)) ELSE line

\* the per-character scanner with the code's break semantics; acc = bytes so far,
\* high = -1 or the pending high nibble
RECURSIVE Scan(_, _, _, _, _)
Scan(line, fmt, k, acc, high) ==
    IF k > Len(line) THEN acc
    ELSE LET f == fmt[k]  c == line[k] IN
         IF f = CA THEN (IF IsHexDigit(c) THEN Scan(line, fmt, k + 1, acc, high) ELSE acc)
         ELSE IF f = CD THEN
                (IF ~IsHexDigit(c) THEN acc
                 ELSE IF high >= 0 THEN Scan(line, fmt, k + 1, Append(acc, high * 16 + HexVal(c)), -1)
                 ELSE Scan(line, fmt, k + 1, acc, HexVal(c)))
         ELSE IF f = CC THEN Scan(line, fmt, k + 1, acc, high)
         ELSE IF f = c THEN Scan(line, fmt, k + 1, acc, high)
         ELSE acc

ParseLine(raw, fmt) ==
    LET line == StripNLs(raw) IN
    IF Len(line) <= Len(fmt) THEN Scan(line, fmt, 1, <<>>, -1) ELSE <<>>

Parse(lines, fmt) == FoldLeft(LAMBDA acc, l : acc \o ParseLine(l, fmt), <<>>, lines)

(***************************************************************************)
(* The two I/O-drawer dump formats (io_drawer/dump.py)                     *)
(***************************************************************************)
\* 'AAAA:  DDDDDDDD DDDDDDDD DDDDDDDD DDDDDDDD  <CCCCCCCCCCCCCCCC>'
FmtBMC == [k \in 1..4 |-> CA] \o <<58, SP, SP>>
          \o [k \in 1..8 |-> CD] \o <<SP>> \o [k \in 1..8 |-> CD] \o <<SP>>
          \o [k \in 1..8 |-> CD] \o <<SP>> \o [k \in 1..8 |-> CD]
          \o <<SP, SP, 60>> \o [k \in 1..16 |-> CC] \o <<62>>
\* 'DD DD DD DD DD DD DD DD DD DD DD DD DD DD DD DD CCCCCCCCCCCCCCCC'
FmtPre == FoldLeft(LAMBDA acc, j : acc \o <<CD, CD, SP>>, <<>>, [j \in 1..16 |-> j]) \o [k \in 1..16 |-> CC]

HexCharC(n, lower) == IF n < 10 THEN 48 + n ELSE IF lower THEN 87 + n ELSE 55 + n
Hex2C(b, lower) == <<HexCharC(b \div 16, lower), HexCharC(b % 16, lower)>>
Hex4(n) == [k \in 1..4 |-> HexChar((n \div (16 ^ (4 - k))) % 16)]
\* one line of `data` rendered in each format (short last line padded with blanks)
RenderBMCLine(data, k, lower) ==
    LET off == (k - 1) * 16
        chunk == SubSeq(data, off + 1, MinN(off + 16, Len(data)))
        raw == FoldLeft(LAMBDA acc, j : acc \o (IF j # 1 /\ (j - 1) % 4 = 0 THEN <<SP>> ELSE <<>>) \o Hex2C(chunk[j], lower),
                        <<>>, [j \in 1..Len(chunk) |-> j])
    IN  Hex4(off % 65536) \o <<58, SP, SP>> \o PadTo(raw, 35) \o <<SP, SP, 60>>
        \o PadTo([j \in 1..Len(chunk) |-> TextChar(chunk[j])], 16) \o <<62>>
RenderPreLine(data, k, lower) ==
    LET off == (k - 1) * 16
        chunk == SubSeq(data, off + 1, MinN(off + 16, Len(data)))
        raw == FoldLeft(LAMBDA acc, j : acc \o Hex2C(chunk[j], lower) \o <<SP>>, <<>>, [j \in 1..Len(chunk) |-> j])
    IN  PadTo(raw, 48) \o PadTo([j \in 1..Len(chunk) |-> TextChar(chunk[j])], 16)
RenderBMC(data, lower) == [k \in 1..NLines(data, 16) |-> RenderBMCLine(data, k, lower)]
RenderPre(data, lower) == [k \in 1..NLines(data, 16) |-> RenderPreLine(data, k, lower)]

(***************************************************************************)
(* Reading a dump FILE (io_drawer/dump.py parse_dump_file): the formats    *)
(* are tried in `order` and the first one that yields any byte wins.       *)
(* A line of the BMC format starts with four hex digits, so the pre-BMC    *)
(* template reads two of them as a data byte before it gives up: trying    *)
(* the pre-BMC format first (deviation "prefirst") misreads every BMC      *)
(* dump - MC_HexDump_prefirst, refuted by TLC.                             *)
(* A comment line is a line that contributes no byte under either format.  *)
(***************************************************************************)
ReadDumpFile(lines, order) ==
    LET a == Parse(lines, order[1]) IN IF a # <<>> THEN a ELSE Parse(lines, order[2])
IsComment(line) == ParseLine(line, FmtBMC) = <<>> /\ ParseLine(line, FmtPre) = <<>>
=============================================================================
