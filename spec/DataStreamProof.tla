--------------------------- MODULE DataStreamProof ---------------------------
(***************************************************************************)
(* DataStream.tla is checked by TLC for inputs of at most 6 bytes and      *)
(* requests -1..4.  This module proves, for inputs of EVERY size and every *)
(* set of integer requests, that the checked cursor never leaves the input *)
(* (InBounds), never hands out a byte it did not advance over              *)
(* (NoFabrication), never moves backwards (Monotone), and that a refused   *)
(* request ends the decode (RaisedIsFinal).  Checked by tlapm              *)
(* (tools/prove.sh, ./check C05).                                          *)
(***************************************************************************)
EXTENDS DataStream, TLAPS

ASSUME IsChecked == Checked = TRUE
ASSUME SizeNat == MaxSize \in Nat
ASSUME RequestsInt == Requests \subseteq Int

TypeOK == /\ index \in Int /\ size \in Nat /\ status \in {"ok", "raised"} /\ delivered \in Int
IndInv == TypeOK /\ InBounds

THEOREM InitInv == Init => IndInv
  BY SizeNat DEF Init, IndInv, TypeOK, InBounds

THEOREM StepInv == IndInv /\ [Next]_vars => IndInv'
  <1> SUFFICES ASSUME IndInv, [Next]_vars PROVE IndInv' OBVIOUS
  <1> USE IsChecked, RequestsInt DEF IndInv, TypeOK, InBounds
  <1>1. CASE UNCHANGED vars BY <1>1 DEF vars
  <1>2. ASSUME NEW n \in Requests, Read(n) PROVE IndInv'
        BY <1>2 DEF Read, ReadP
  <1>3. ASSUME NEW n \in Requests, ReadRejected(n) PROVE IndInv'
        BY <1>3 DEF ReadRejected, ReadRejectedP
  <1>4. ASSUME NEW n \in Requests, UncheckedRead(n) PROVE IndInv'
        BY <1>4 DEF UncheckedRead
  <1> QED BY <1>1, <1>2, <1>3, <1>4 DEF Next

\* the three action properties hold for every single step taken from a state satisfying the invariant
THEOREM StepProps == IndInv /\ [Next]_vars =>
                        /\ (delivered' = index' - index /\ index' >= index) \/ UNCHANGED vars
                        /\ index' >= index
                        /\ (status = "raised" => UNCHANGED vars)
  <1> SUFFICES ASSUME IndInv, [Next]_vars
               PROVE /\ (delivered' = index' - index /\ index' >= index) \/ UNCHANGED vars
                     /\ index' >= index
                     /\ (status = "raised" => UNCHANGED vars)
      OBVIOUS
  <1> USE IsChecked, RequestsInt DEF IndInv, TypeOK, InBounds
  <1>1. CASE UNCHANGED vars BY <1>1 DEF vars
  <1>2. ASSUME NEW n \in Requests, Read(n)
        PROVE /\ delivered' = index' - index /\ index' >= index
              /\ status # "raised"
        BY <1>2 DEF Read, ReadP
  <1>3. ASSUME NEW n \in Requests, ReadRejected(n)
        PROVE /\ delivered' = index' - index /\ index' >= index
              /\ status # "raised"
        BY <1>3 DEF ReadRejected, ReadRejectedP
  <1>4. ASSUME NEW n \in Requests, UncheckedRead(n) PROVE FALSE
        BY <1>4 DEF UncheckedRead
  <1> QED BY <1>1, <1>2, <1>3, <1>4 DEF Next

THEOREM Safety == Spec => []InBounds
  <1>1. IndInv => InBounds BY DEF IndInv
  <1> QED BY InitInv, StepInv, <1>1, PTL DEF Spec

THEOREM ActionProperties == Spec => NoFabrication /\ Monotone /\ RaisedIsFinal
  <1>1. IndInv /\ [Next]_vars => [delivered' = index' - index /\ index' >= index]_vars
        BY StepProps
  <1>2. IndInv /\ [Next]_vars => [index' >= index]_vars
        BY StepProps
  <1>3. IndInv /\ [Next]_vars => [status = "raised" => UNCHANGED vars]_vars
        BY StepProps
  <1> QED BY InitInv, StepInv, <1>1, <1>2, <1>3, PTL DEF Spec, NoFabrication, Monotone, RaisedIsFinal
=============================================================================
