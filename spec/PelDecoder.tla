----------------------------- MODULE PelDecoder -----------------------------
(***************************************************************************)
(* peltool.parsePEL as a state machine over an abstract PEL (C01, C05).    *)
(*                                                                         *)
(* The PEL is a sequence of section tokens [name, layout]: display name    *)
(* and declared length.  The input offered to the decoder is the first L   *)
(* bytes of its encoding (L = total: the whole PEL; L < total: a proper    *)
(* prefix).  Labels follow the code: private header (8 + 40 bytes, id      *)
(* check), user header (8 + 16), the count-driven section loop (header,    *)
(* body), buildOutput.  Every read is a DataStream read: it succeeds iff   *)
(* it stays inside the L bytes, otherwise the decode fails.                *)
(*                                                                         *)
(* BodyConsumes(tok) is how many bytes the section class takes after the   *)
(* header; for a well-formed section that is layout - 8, and the constant  *)
(* Skew lets a model instance show what an off-by-n consumer would do to   *)
(* everything behind it (Skew = 0 is the code).                            *)
(***************************************************************************)
EXTENDS Naturals, Sequences, FiniteSets, PelNaming

CONSTANTS Universe,     \* set of token sequences
          Skew          \* extra bytes a "User Data" body consumes (0 in the code)
VARIABLES secs, L, pc, idx, k, names, keys, outcome, reads
vars == <<secs, L, pc, idx, k, names, keys, outcome, reads>>

RECURSIVE Sum(_)
Sum(s) == IF s = <<>> THEN 0 ELSE Head(s).layout + Sum(Tail(s))
Total(s) == 48 + 24 + Sum(s)
Count(s) == 2 + Len(s)                      \* the section count in the private header
StartOf(s, j) == 72 + Sum(SubSeq(s, 1, j - 1))
BodyConsumes(t) == t.layout - 8 + (IF t.name = "User Data" THEN Skew ELSE 0)

Init == /\ secs \in Universe
        /\ L \in 0..Total(secs)
        /\ pc = "PH" /\ idx = 0 /\ k = 0 /\ names = <<>> /\ keys = <<>>
        /\ outcome = "running" /\ reads = 0

\* a DataStream read of n bytes at label `here`, continuing at `there`
Read(n, there) ==
    IF idx + n <= L
    THEN /\ idx' = idx + n /\ pc' = there /\ reads' = reads + 1 /\ UNCHANGED outcome
    ELSE /\ outcome' = "rejected" /\ pc' = "end" /\ UNCHANGED <<idx, reads>>

PH == /\ pc = "PH" /\ Read(48, "UH") /\ UNCHANGED <<secs, L, k, names, keys>>
UH == /\ pc = "UH" /\ Read(24, "loop") /\ UNCHANGED <<secs, L, k, names, keys>>

Loop ==                                      \* for _ in range(2, ph.sectionCount)
    /\ pc = "loop"
    /\ IF k < Count(secs) - 2
       THEN pc' = "hdr" /\ UNCHANGED <<outcome, keys>>
       ELSE /\ pc' = "end" /\ outcome' = "doc"
            /\ keys' = <<"Private Header", "User Header">> \o ImplKeys(names)     \* buildOutput
    /\ UNCHANGED <<secs, L, idx, k, names, reads>>

Hdr == /\ pc = "hdr" /\ Read(8, "body") /\ UNCHANGED <<secs, L, k, names, keys>>

BodyStep ==
    /\ pc = "body"
    /\ LET t == secs[k + 1] IN
       /\ Read(BodyConsumes(t), "loop")
       /\ IF idx + BodyConsumes(t) <= L
          THEN k' = k + 1 /\ names' = Append(names, t.name)
          ELSE UNCHANGED <<k, names>>
    /\ UNCHANGED <<secs, L, keys>>

Next == PH \/ UH \/ Loop \/ Hdr \/ BodyStep
Spec == Init /\ [][Next]_vars /\ WF_vars(Next)

(***************************************************************************)
(* Properties                                                              *)
(***************************************************************************)
InBounds == idx <= L
\* at every section header the cursor stands exactly where the layout says
Framing == pc = "hdr" => idx = StartOf(secs, k + 1)
\* a proper prefix is never decoded
PrefixRejected == outcome = "doc" => L = Total(secs)
\* the whole PEL is decoded, one entry per section, in order, named by the rule
WholeDecoded == (pc = "end" /\ L = Total(secs)) =>
                   /\ outcome = "doc"
                   /\ keys = <<"Private Header", "User Header">> \o NumberedKeys([j \in 1..Len(secs) |-> secs[j].name])
                   /\ idx = Total(secs)
Terminates == <>(pc = "end")
\* the loop variant: every step reads or finishes
Variant == [][pc' = "end" \/ reads' > reads \/ pc' # pc]_vars
=============================================================================
