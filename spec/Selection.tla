----------------------------- MODULE Selection -----------------------------
(***************************************************************************)
(* Which PELs a peltool invocation considers (property C07).               *)
(*                                                                         *)
(* Rule*  : the documented rules, written from the property text and the   *)
(*          README - never from the code.                                  *)
(* Impl   : peltool.considerPEL as the code is shaped: one IF per early    *)
(*          return, in the code's order, with the code's helper            *)
(*          considerPELIfSeverityMatches.  Two named deviations of the     *)
(*          tree as found are kept as selectable variants so that TLC can  *)
(*          show what they break (DESIGN.md 11: D4, D9).                   *)
(*                                                                         *)
(* An option record o is                                                   *)
(*   [every, sv, nsv, hid, term, only : BOOLEAN,                           *)
(*    sevs : SUBSET Groups, lookup : Lookups]                              *)
(* a PEL is seen through its severity byte (0..255) and its 16-bit action  *)
(* flag word.                                                              *)
(***************************************************************************)
EXTENDS Naturals, FiniteSets

Groups  == {0, 1, 2, 4, 5, 6, 7}     \* Informational Recovered Predictive Unrecoverable Critical Diagnostic Symptom
Lookups == {"none", "plid", "src", "bmcID", "pelID", "srcExclude"}
Options == [every : BOOLEAN, sv : BOOLEAN, nsv : BOOLEAN, hid : BOOLEAN, term : BOOLEAN,
            only : BOOLEAN, sevs : SUBSET Groups, lookup : Lookups]

BitOn(w, m) == (w \div m) % 2 = 1          \* m a power of two

ServiceAction(f) == BitOn(f, 32768)        \* 0x8000
HiddenFlag(f)    == BitOn(f, 16384)        \* 0x4000  "not customer viewable"
Report(f)        == BitOn(f, 8192)         \* 0x2000

TermSeverity == 81                         \* 0x51 critical, system termination

(***************************************************************************)
(* The documented rules                                                    *)
(***************************************************************************)
InGroup(sev, g) == sev \div 16 = g         \* high hex digit of the severity byte

Hidden(f) == HiddenFlag(f)

\* "serviceable iff non-informational, reportable and not hidden, or
\*  informational with service action required".  The statement does not say
\* whether the undefined severities 0x01..0x0F count as informational for this
\* purpose (they are in the Informational *group*); `info` selects the reading.
ServiceableR(sev, f, info) ==
    IF info THEN ServiceAction(f) ELSE Report(f) /\ ~Hidden(f)

Informational0(sev) == sev = 0             \* reading A: only the defined value 0x00
InformationalG(sev) == sev < 16            \* reading B: the whole group

NoSelectionOption(o) ==
    ~o.every /\ ~o.sv /\ ~o.nsv /\ ~o.hid /\ ~o.term /\ ~o.only /\ o.sevs = {}

ClassChosen(o) == o.sv \/ o.nsv \/ o.hid

RuleWith(sev, f, o, svc) ==
    LET hidden  == Hidden(f)
        default == svc /\ ~hidden
        inClass == (o.sv /\ svc) \/ (o.nsv /\ ~svc) \/ (o.hid /\ hidden)
        inSev   == \E g \in o.sevs : InGroup(sev, g)
        term    == o.term /\ sev = TermSeverity
    IN  IF o.every THEN TRUE
        ELSE IF o.lookup # "none" /\ NoSelectionOption(o) THEN TRUE
        ELSE IF ~o.only THEN default \/ inClass \/ inSev \/ term
        ELSE term \/ ( /\ (ClassChosen(o) \/ o.sevs # {})
                       /\ (ClassChosen(o) => inClass)
                       /\ (o.sevs # {} => inSev) )

\* The verdicts the statement allows (a set because of the 0x01..0x0F ambiguity).
RuleSet(sev, f, o) ==
    { RuleWith(sev, f, o, ServiceableR(sev, f, Informational0(sev))),
      RuleWith(sev, f, o, ServiceableR(sev, f, InformationalG(sev))) }

\* Cases the statement constrains: look-ups combined with selection options are
\* outside it.
Constrained(o) == o.lookup = "none" \/ NoSelectionOption(o)

(***************************************************************************)
(* The implementation-shaped procedure                                     *)
(***************************************************************************)
\* hex(sev).startswith(hex(g)) as the tree was found (D4): for sev < 16 the
\* string has one digit, so the *low* digit is compared.
HexPrefixMatch(sev, g) == IF sev < 16 THEN sev = g ELSE sev \div 16 = g

SevMatchImpl(sev, o, variant) ==
    \E g \in o.sevs : IF variant.hexprefix THEN HexPrefixMatch(sev, g) ELSE sev \div 16 = g

IsHiddenImpl(f) == HiddenFlag(f)
IsServiceableImpl(sev, f) ==
    IF sev # 0 THEN Report(f) /\ ~IsHiddenImpl(f) ELSE ServiceAction(f)

LookupBypass(o, variant) ==
    o.lookup \in (IF variant.srcExcludeBypass THEN {"plid", "src", "bmcID", "pelID", "srcExclude"}
                                              ELSE {"plid", "src", "bmcID", "pelID"})

\* considerPEL: nine return statements, in order.
Impl(sev, f, o, variant) ==
    LET svc   == IsServiceableImpl(sev, f)
        hid   == IsHiddenImpl(f)
        match == SevMatchImpl(sev, o, variant)
        sevOK == ~(o.only /\ o.sevs # {} /\ ~match)
    IN  IF o.every THEN TRUE                                            \* R1
        ELSE IF o.term /\ sev = TermSeverity THEN TRUE                  \* R2
        ELSE IF o.sv /\ svc THEN sevOK                                  \* R3 / R3'
        ELSE IF o.nsv /\ ~svc THEN sevOK                                \* R4 / R4'
        ELSE IF o.hid /\ hid THEN sevOK                                 \* R5 / R5'
        ELSE IF o.sevs # {} /\ match THEN ~(o.only /\ ClassChosen(o))   \* R6 / R6'
        ELSE IF o.only \/ hid \/ ~svc THEN LookupBypass(o, variant)     \* R7 / R8
        ELSE TRUE                                                       \* R9

AsFound  == [hexprefix |-> TRUE,  srcExcludeBypass |-> FALSE]
Repaired == [hexprefix |-> FALSE, srcExcludeBypass |-> TRUE]

Agrees(sev, f, o, variant) == Constrained(o) => Impl(sev, f, o, variant) \in RuleSet(sev, f, o)
=============================================================================
