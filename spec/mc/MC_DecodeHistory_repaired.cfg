SPECIFICATION Spec
CONSTANTS
  Mods <- MCMods
  Absent <- MCAbsent
  Broken <- MCBroken
  Variant = "repaired"
  MaxHistory = 3
INVARIANT HistoryIndependent
INVARIANT NoPoisoning
INVARIANT ErrorNoted
CHECK_DEADLOCK FALSE
