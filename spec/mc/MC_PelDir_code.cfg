SPECIFICATION Spec
CONSTANTS
  Universe <- MCUniverse
  Ids <- MCIds
  BreakOuter = TRUE
  BreakInner = TRUE
INVARIANT EffectOK
INVARIANT NeverDescends
PROPERTY OnlyShrinks
CHECK_DEADLOCK FALSE
