SPECIFICATION Spec
CONSTANTS
  Sevs <- QuickSevs
  VariantName = "asfound"
INVARIANT ImplMeetsRule
CHECK_DEADLOCK FALSE
