SPECIFICATION Spec
CONSTANTS
  Universe <- MCUniverse
  Advance = TRUE
INVARIANT NoDesync
INVARIANT WalkExact
PROPERTY AllSubsTaken
PROPERTY Progress
CHECK_DEADLOCK FALSE
