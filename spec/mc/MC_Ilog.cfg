SPECIFICATION Spec
INVARIANT IlogRulesOK
CHECK_DEADLOCK FALSE
