------------------------- MODULE MC_DeleteLoopProof -------------------------
(* TLC instance of the delete loops that tlapm proves for every tree: five    *)
(* entries (three files directly in the directory, two of them matching the   *)
(* id, a nested file that matches too, a directory), every subset as the      *)
(* tree, every listing order.                                                 *)
EXTENDS DeleteLoopProof, FiniteSets
MCEntries == {"top_match1", "top_match2", "top_other", "nested_match", "dir_match"}
MCIsTop(e) == e \in {"top_match1", "top_match2", "top_other"}
MCMatches(e) == e \in {"top_match1", "top_match2", "nested_match", "dir_match"}
\* TLC needs the listing enumerable: the permutations of the top-level files
MCListing(T, m, w) == /\ m = Cardinality(TopFiles(T))
                      /\ w \in {p \in [1..Cardinality(TopFiles(T)) -> TopFiles(T)] :
                                  \A e \in TopFiles(T) : \E k \in 1..Cardinality(TopFiles(T)) : p[k] = e}
=============================================================================
