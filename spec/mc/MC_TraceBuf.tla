---------------------------- MODULE MC_TraceBuf ----------------------------
(* Entry framing over buffers built from abstract entries: data lengths        *)
(* {0, 1, 3, 4, 1024, 1025} x {well-formed, wrong trailing size, truncated at  *)
(* each structural point} x declared size {before, at, beyond the end}: the    *)
(* entries shown tile the buffer from offset 32, none lies beyond the declared *)
(* size start, nothing after the first malformed entry is shown.               *)
EXTENDS TraceBuf, TLC
VARIABLES cfg, phase, ok
Lens == {0, 1, 3, 4, 1024, 1025}
U16(n) == <<n \div 256, n % 256>>
U32(n) == <<0, 0>> \o U16(n)
EntryBytes(len, sizeword) ==
    <<0, 10, 0, 1>> \o U16(len) \o <<70, 84>> \o <<0, 0, 0, 7>> \o <<0, 0, 0, 9>>
    \o [k \in 1..len |-> 170] \o [k \in 1..Pad(len) |-> 0] \o U32(sizeword)
Good(len) == EntryBytes(len, FIXED + len + Pad(len) + 4)
Header(size) == <<2, 32, 1, 66>> \o <<70, 65, 78, 83, 32, 32, 32, 32, 0, 0, 0, 0>> \o <<0, 0, 0, 0>>
                \o U32(size) \o <<0, 0, 0, 3>> \o <<0, 0, 0, 0>>
Cfgs == [l1 : Lens, l2 : Lens, bad2 : {"ok", "size", "cut"}, decl : {"short", "exact", "long"}]
Build(c) ==
    LET e1 == Good(c.l1)
        e2 == IF c.bad2 = "size" THEN EntryBytes(c.l2, FIXED + c.l2 + Pad(c.l2) + 8) ELSE Good(c.l2)
        e2c == IF c.bad2 = "cut" THEN SubSeq(e2, 1, Len(e2) - 2) ELSE e2
        total == 32 + Len(e1) + Len(e2c)
        decl == CASE c.decl = "short" -> 32 + Len(e1) [] c.decl = "exact" -> total [] c.decl = "long" -> total + 100
    IN  Header(decl) \o e1 \o e2c
Expected(c) ==
    IF c.l1 > MAXDATA THEN 0
    ELSE IF c.decl = "short" THEN 1
    ELSE IF c.bad2 # "ok" \/ c.l2 > MAXDATA THEN 1 ELSE 2
Init == cfg \in Cfgs /\ phase = "chosen" /\ ok = TRUE
Evaluate == /\ phase = "chosen" /\ phase' = "evaluated" /\ cfg' = cfg
            /\ ok' = LET d == Build(cfg)  es == Entries(d, 32, Clamp32(At(d, 20, 4))) IN
                     /\ Len(es) = Expected(cfg)
                     /\ (Len(es) >= 1 => es[1].len = cfg.l1 /\ Len(es[1].data) = cfg.l1)
                     /\ (Len(es) = 2 => es[2].len = cfg.l2)
Next == Evaluate
Spec == Init /\ [][Next]_<<cfg, phase, ok>>
FramingOK == ok
ASSUME Mod100000(<<255, 255, 255, 255>>) = 67295
ASSUME Mod100000(<<0, 1, 134, 160>>) = 0
=============================================================================
