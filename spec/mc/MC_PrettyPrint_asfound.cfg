SPECIFICATION Spec
CONSTANTS
  VariantName = "asfound"
INVARIANT AlignmentAllowed
CHECK_DEADLOCK FALSE
