SPECIFICATION Spec
INVARIANT Lossless
CHECK_DEADLOCK FALSE
