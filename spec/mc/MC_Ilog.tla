------------------------------ MODULE MC_Ilog ------------------------------
(* Tables of <= 3 patterns drawn from 7 overlapping patterns (wildcards in      *)
(* different positions, an error pattern, its reported twin) x 9 PTEs:          *)
(* first-match order, the reported retry only for error PTEs, the suffix        *)
(* exactly for reported errors; entry cursor over <= 3 entries + partial tail.  *)
EXTENDS Ilog, TLC
VARIABLES tab, phase, ok
P(s) == s
Pats == { <<69, 50, 48, 48, 48, 48, 48, 49>>,      \* E2000001
          <<69, 50, 48, 42, 48, 48, 48, 49>>,      \* E20*0001
          <<69, 50, 48, 52, 48, 48, 48, 49>>,      \* E2040001  (the reported twin, listed explicitly)
          <<42, 42, 42, 42, 42, 42, 42, 42>>,      \* ********
          <<48, 49, 48, 52, 42, 42, 42, 42>>,      \* 0104****  (non-error with the flag bit set)
          <<48, 49, 48, 48, 42, 42, 42, 42>>,      \* 0100****
          <<101, 50, 48, 48, 48, 48, 48, 49>> }    \* e2000001 (lower case)
Msgs == [p \in Pats |-> <<77>> \o p]
Entries3 == UNION {[1..n -> Pats] : n \in 0..3}
Table(s) == [k \in 1..Len(s) |-> [pattern |-> s[k], msg |-> Msgs[s[k]], params |-> <<>>]]
PTEs == { <<226, 0, 0, 1>>, <<226, 4, 0, 1>>, <<226, 5, 0, 1>>, <<1, 4, 0, 0>>, <<1, 0, 0, 0>>, <<1, 4, 18, 52>>,
          <<0, 0, 0, 0>>, <<226, 0, 0, 2>>, <<242, 4, 0, 1>> }
EndsWith(s, t) == Len(s) >= Len(t) /\ SubSeq(s, Len(s) - Len(t) + 1, Len(s)) = t
Good(t, p) ==
    LET k == FirstMatch(t, p)  m == Message(t, p) IN
    /\ (k # 0 => Matches(t[k], p) /\ \A j \in 1..(k - 1) : ~Matches(t[j], p))
    /\ (k = 0 => \A j \in 1..Len(t) : ~Matches(t[j], p))
    /\ (Reported(p) <=> EndsWith(m, SUFFIX))
    /\ (~IsError(p) => \A j \in 1..Len(t) : Matches(t[j], p) = PatMatch(t[j].pattern, Hex8Of(p, TRUE)))
    /\ (k = 0 => m = UNDEFINED \o (IF Reported(p) THEN SUFFIX ELSE <<>>))
CursorGood(t) ==
    LET e1 == <<0, 10, 0, 1, 226, 4, 0, 1>>  z == <<0, 0, 0, 0, 0, 0, 0, 0>>  e2 == <<255, 255, 0, 2, 1, 0, 0, 0>> IN
    /\ Len(Render(e1 \o z \o e2 \o <<1, 2, 3>>, t)) = 2
    /\ Render(e1 \o z \o e2 \o <<1, 2, 3>>, t)[2].seq = <<0, 2>>
    /\ Render(<<1, 2, 3, 4, 5, 6, 7>>, t) = <<>>
    /\ Render(z \o z, t) = <<>>
Init == tab \in Entries3 /\ phase = "chosen" /\ ok = TRUE
Evaluate == /\ phase = "chosen" /\ phase' = "evaluated" /\ tab' = tab
            /\ ok' = (\A p \in PTEs : Good(Table(tab), p)) /\ CursorGood(Table(tab))
Next == Evaluate
Spec == Init /\ [][Next]_<<tab, phase, ok>>
IlogRulesOK == ok
ASSUME FormatTimestamp(35551) = <<32, 57, 58, 53, 50, 58, 51, 49>>     \* " 9:52:31"
ASSUME FormatTimestamp(65535) = <<45, 45, 45, 45, 45, 45, 45, 45>>
ASSUME FormatTimestamp(65534) = <<49, 56, 58, 49, 50, 58, 49, 52>>     \* "18:12:14"
=============================================================================
