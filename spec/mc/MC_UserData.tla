---------------------------- MODULE MC_UserData ----------------------------
(* The route function is total and lands in exactly one outcome class for     *)
(* every abstract section / plugins setting / parser behaviour, every class   *)
(* that is not a rendering carries the payload (NeverDropped), and the text   *)
(* rule keeps every printable character.                                      *)
EXTENDS UserData, TLC
VARIABLES kind, phase, ok
Secs(k) == {[kind |-> k, creator |-> c, comp |-> m, sub |-> s, ver |-> 1, payload |-> <<65, 10, 1, 66, 0, 0>>] :
               c \in {79, 66, 120}, m \in {<<32, 0>>, <<17, 17>>, <<229, 0>>}, s \in {0, 1, 2, 3, 4, 255}}
Behs == {"absent", "ok", "nondict", "none", "raise", "raise_empty", "importerror", "importfails"}
Init == kind \in {"UD", "ED", "OTHER"} /\ phase = "chosen" /\ ok = TRUE
Evaluate == /\ phase = "chosen" /\ phase' = "evaluated" /\ kind' = kind
            /\ ok' = \A s \in Secs(kind), p \in BOOLEAN, b \in Behs :
                        LET c == Route(s, p, b) IN
                        /\ c \in Classes
                        /\ (c \in {"json", "text"} => IsBuiltin(s))
                        /\ (c = "plugin" => p /\ ~IsBuiltin(s) /\ b \in {"ok", "nondict"})
                        /\ (~(c \in {"json", "text", "plugin"}) => CarriesDump(c))
                        /\ (c = "dump+error" <=> (p /\ ~IsBuiltin(s) /\ s.kind # "OTHER" /\ b \in {"none", "raise", "raise_empty", "importerror", "importfails"}))
Next == Evaluate
Spec == Init /\ [][Next]_<<kind, phase, ok>>
NeverDropped == ok
ASSUME TextLines(<<65, 10, 1, 66, 0, 0>>) = <<<<65>>, <<46, 66>>>>
ASSUME TextLines(<<65, 10, 10, 66>>) = <<<<65>>, <<>>, <<66>>>>
ASSUME Lossless(Dump(<<1, 2, 3, 255, 0, 32>>, 16, 4), <<1, 2, 3, 255, 0, 32>>)
=============================================================================
