--------------------------- MODULE MC_Selection ---------------------------
(* Bounded instance: considerPEL (Impl) against the documented rules over    *)
(* every constrained option record x Sevs x the 8 settings of the three      *)
(* action-flag bits the rules read.  The option record is chosen in Init,    *)
(* the sweep over (severity, flags) happens in one Next step so that TLC's   *)
(* workers share it.                                                         *)
EXTENDS Selection, TLC
CONSTANTS Sevs, VariantName
VARIABLES o, phase, ok

AllSevs   == 0..255
QuickSevs == (0..15) \cup {16, 31, 32, 36, 47, 48, 63, 64, 72, 79, 80, 81, 82, 95, 96, 97, 111,
                           112, 113, 118, 127, 128, 129, 160, 255}
FlagWords == {0, 8192, 16384, 24576, 32768, 40960, 49152, 57344}

Variant == IF VariantName = "asfound" THEN AsFound ELSE Repaired

Init == /\ o \in {x \in Options : Constrained(x)}
        /\ phase = "chosen"
        /\ ok = TRUE

Evaluate == /\ phase = "chosen"
            /\ phase' = "evaluated"
            /\ o' = o
            /\ ok' = \A s \in Sevs, f \in FlagWords : Agrees(s, f, o, Variant)

Next == Evaluate
Spec == Init /\ [][Next]_<<o, phase, ok>>

ImplMeetsRule == ok

\* pins taken from the README examples, so that Rule cannot silently become trivial
Dflt == [every |-> FALSE, sv |-> FALSE, nsv |-> FALSE, hid |-> FALSE, term |-> FALSE,
         only |-> FALSE, sevs |-> {}, lookup |-> "none"]
ASSUME RuleSet(64, 8192, Dflt) = {TRUE}                              \* unrecoverable, reported: listed by default
ASSUME RuleSet(64, 24576, Dflt) = {FALSE}                            \* hidden: not listed by default
ASSUME RuleSet(64, 24576, [Dflt EXCEPT !.hid = TRUE]) = {TRUE}       \* -H adds hidden
ASSUME RuleSet(64, 24576, [Dflt EXCEPT !.lookup = "src"]) = {TRUE}   \* look-ups see hidden PELs
ASSUME RuleSet(0, 0, Dflt) = {FALSE}                                 \* informational, no service action
ASSUME RuleSet(0, 0, [Dflt EXCEPT !.sevs = {0}]) = {TRUE}            \* -S Informational adds it
ASSUME RuleSet(80, 8192, [Dflt EXCEPT !.only = TRUE, !.sevs = {5}]) = {TRUE}   \* -O -S Critical
ASSUME RuleSet(64, 8192, [Dflt EXCEPT !.only = TRUE, !.sevs = {5}]) = {FALSE}
ASSUME RuleSet(64, 8192, [Dflt EXCEPT !.only = TRUE, !.hid = TRUE]) = {FALSE}  \* only hidden
ASSUME RuleSet(81, 0, [Dflt EXCEPT !.only = TRUE, !.term = TRUE]) = {TRUE}
ASSUME RuleSet(64, 8192, [Dflt EXCEPT !.only = TRUE]) = {FALSE}      \* --only with nothing chosen selects nothing
ASSUME RuleSet(5, 8192, [Dflt EXCEPT !.only = TRUE, !.sevs = {0}]) = {TRUE}    \* 0x05 is in group 0, not 5
ASSUME RuleSet(5, 8192, [Dflt EXCEPT !.only = TRUE, !.sevs = {5}]) = {FALSE}
=============================================================================
