--------------------------- MODULE MC_PelDisplay ---------------------------
(* Small exhaustive checks of the display rules themselves:                   *)
(*  - action flags: for all 65536 words the displayed set is exactly the set  *)
(*    of names of the defined bits that are on (and names are distinct)       *)
(*  - field independence of the Private Header: changing the bytes of one     *)
(*    field changes the display of that field only                            *)
EXTENDS PelDisplay, TLC
VARIABLES blk, phase, ok
Env0 == [names |-> <<>>, registry |-> <<>>]
PH0 == [ver |-> 1, sub |-> 2, comp |-> <<16, 0>>, create |-> <<32, 35, 3, 8, 24, 64, 39, 17>>,
        commit |-> <<32, 36, 18, 49, 35, 89, 88, 153>>, creator |-> 79, res |-> <<0, 0>>, count |-> 2,
        bmc |-> <<0, 0, 1, 2>>, cssver |-> <<1, 2, 3, 4, 5, 6, 7, 8>>, plid |-> <<80, 0, 0, 1>>,
        eid |-> <<80, 0, 0, 2>>]
Variants == { [PH0 EXCEPT !.create = <<25, 153, 18, 49, 0, 1, 2, 3>>], [PH0 EXCEPT !.commit = PH0.create],
              [PH0 EXCEPT !.plid = <<0, 0, 18, 52>>], [PH0 EXCEPT !.eid = <<255, 255, 255, 255>>],
              [PH0 EXCEPT !.bmc = <<128, 0, 0, 0>>], [PH0 EXCEPT !.cssver = <<0, 0, 0, 0, 0, 0, 0, 0>>],
              [PH0 EXCEPT !.creator = 72], [PH0 EXCEPT !.comp = <<65, 66>>], [PH0 EXCEPT !.ver = 9],
              [PH0 EXCEPT !.sub = 7] }
FieldOf == [create |-> {"created"}, commit |-> {"committed"}, plid |-> {"plid"}, eid |-> {"eid"},
            bmc |-> {"bmc"}, cssver |-> {"cssver"}, creator |-> {"creator", "createdby"},
            comp |-> {"createdby"}, ver |-> {"ver"}, sub |-> {"sub"}]
Changed(a, b) == {f \in DOMAIN a : a[f] # b[f]}
Independent == \A v \in Variants :
                  Mismatch(ShowPH(PH0, Env0), ShowPH(v, Env0)) \subseteq UNION {FieldOf[f] : f \in Changed(PH0, v) \cap DOMAIN FieldOf}
FlagsOK(w) == LET S == ActionFlagSet(<<w \div 256, w % 256>>) IN
              /\ Cardinality(S) = Cardinality({b \in ActionFlagBits : DBitOn(w, b)})
              /\ \A b \in ActionFlagBits : (ActionFlagName(b) \in S) = DBitOn(w, b)
Init == blk \in 0..255 /\ phase = "chosen" /\ ok = TRUE
Evaluate == /\ phase = "chosen" /\ phase' = "evaluated" /\ blk' = blk
            /\ ok' = /\ \A lo \in 0..255 : FlagsOK(blk * 256 + lo)
                     /\ (blk = 0 => Independent)
Next == Evaluate
Spec == Init /\ [][Next]_<<blk, phase, ok>>
DisplayRulesOK == ok
ASSUME Timestamp(<<32, 35, 3, 8, 24, 64, 39, 17>>) = <<48, 51, 47, 48, 56, 47, 50, 48, 50, 51, 32, 49, 56, 58, 52, 48, 58, 50, 55>>
=============================================================================
