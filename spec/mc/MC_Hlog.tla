------------------------------ MODULE MC_Hlog ------------------------------
(* Field tables of <= 3 fields (widths 1 / 2) x every data string of length     *)
(* 0..total+1 over the bytes {0, 1}: fields are consumed contiguously from 0,   *)
(* listing stops at the first misfit, a field is listed iff its value is not 0. *)
EXTENDS Hlog, TLC
VARIABLES sizes, phase, ok
Tables == UNION {[1..n -> {1, 2}] : n \in 0..3}
Fields(s) == [k \in 1..Len(s) |-> [name |-> <<102, 48 + k>>, size |-> s[k]]]
Total(s) == FoldLeft(LAMBDA a, b : a + b, 0, s)
Datas(n) == UNION {[1..m -> {0, 1}] : m \in 0..n}
Good(f, d) ==
    LET out == NonZeroFields(d, f) IN
    \* every listed field fits, is non-zero, shows exactly its bytes; order preserved
    /\ \A j \in 1..Len(out) : \E k \in 1..Len(f) :
          /\ out[j].name = f[k].name /\ Fits(f, k, Len(d)) /\ Len(out[j].digits) = 2 * f[k].size
          /\ out[j].digits = HexUpper(SubSeq(d, Offset(f, k) + 1, Offset(f, k) + f[k].size))
    /\ \A k \in 1..Len(f) :
          ((\A j \in 1..k : Fits(f, j, Len(d))) /\ NonZero(ValueBytes(d, f, k)))
             => \E j \in 1..Len(out) : out[j].name = f[k].name
    /\ \A k \in 1..Len(f) : (~Fits(f, k, Len(d))) => \A j \in 1..Len(out) : \A m \in k..Len(f) : out[j].name # f[m].name
Init == sizes \in Tables /\ phase = "chosen" /\ ok = TRUE
Evaluate == /\ phase = "chosen" /\ phase' = "evaluated" /\ sizes' = sizes
            /\ ok' = \A d \in Datas(Total(sizes) + 1) : Good(Fields(sizes), d)
Next == Evaluate
Spec == Init /\ [][Next]_<<sizes, phase, ok>>
HlogRulesOK == ok
=============================================================================
