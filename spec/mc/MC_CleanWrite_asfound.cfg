SPECIFICATION Spec
CONSTANTS
  Variant = "asfound"
INVARIANT Safe
PROPERTY OnlyRemoveRemoves
PROPERTY CleansWhenAllWell
PROPERTY Terminates
CHECK_DEADLOCK FALSE
