SPECIFICATION Spec
CONSTANTS
  MaxSize = 6
  Requests <- MCRequests
  Checked = TRUE
INVARIANT InBounds
PROPERTY NoFabrication
PROPERTY Monotone
PROPERTY RaisedIsFinal
CHECK_DEADLOCK FALSE
