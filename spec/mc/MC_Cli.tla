------------------------------- MODULE MC_Cli -------------------------------
(* Every command line: 2^12 sets of mode options x --clean x 2^6 answers of  *)
(* the file system, each run down the chain of blocks of main().             *)
EXTENDS Cli
=============================================================================
