SPECIFICATION Spec
CONSTANTS
  Universe <- MCUniverse
  Ids <- MCIds
  BreakOuter = FALSE
  BreakInner = TRUE
INVARIANT EffectOK
INVARIANT NeverDescends
PROPERTY OnlyShrinks
CHECK_DEADLOCK FALSE
