SPECIFICATION Spec
CONSTANTS
  Variant = "repaired"
INVARIANT Safe
PROPERTY OnlyRemoveRemoves
PROPERTY CleansWhenAllWell
PROPERTY Terminates
CHECK_DEADLOCK FALSE
