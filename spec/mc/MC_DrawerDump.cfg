SPECIFICATION Spec
INVARIANT PartitionOK
CHECK_DEADLOCK FALSE
