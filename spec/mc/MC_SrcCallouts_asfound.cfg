SPECIFICATION Spec
CONSTANTS
  Universe <- MCUniverse
  Advance = FALSE
INVARIANT NoDesync
INVARIANT WalkExact
PROPERTY AllSubsTaken
PROPERTY Progress
CHECK_DEADLOCK FALSE
