SPECIFICATION Spec
CONSTANTS
  Sevs <- AllSevs
  VariantName = "repaired"
INVARIANT ImplMeetsRule
CHECK_DEADLOCK FALSE
