SPECIFICATION Spec
CONSTANTS
  Files <- MCFiles
  Barrier = FALSE
  SortList = TRUE
  OpenInside = TRUE
INVARIANT MatchesRule
INVARIANT ExitZero
INVARIANT JunkInvariant
INVARIANT Agree
PROPERTY Terminates
CHECK_DEADLOCK FALSE
