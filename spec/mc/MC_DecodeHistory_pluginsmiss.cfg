SPECIFICATION Spec
CONSTANTS
  Mods <- MCMods
  Absent <- MCAbsent
  Broken <- MCBroken
  Variant = "plugins_on_miss_only"
  MaxHistory = 3
INVARIANT HistoryIndependent
CHECK_DEADLOCK FALSE
