SPECIFICATION Spec
CONSTANTS
  MaxSize = 6
  Requests <- MCRequests
  Checked = FALSE
INVARIANT InBounds
CHECK_DEADLOCK FALSE
