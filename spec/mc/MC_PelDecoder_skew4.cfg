SPECIFICATION Spec
CONSTANTS
  Universe <- MCUniverse
  Skew = 4
INVARIANT InBounds
INVARIANT Framing
INVARIANT PrefixRejected
INVARIANT WholeDecoded
PROPERTY Terminates
PROPERTY Variant
CHECK_DEADLOCK FALSE
