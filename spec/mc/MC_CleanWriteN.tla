--------------------------- MODULE MC_CleanWriteN ---------------------------
(* TLC instance of the multi-file protocol: 3 files, 2 write calls each.     *)
(* Checks the statement and the inductive invariant that tlapm proves for    *)
(* every number of files and write calls.                                    *)
EXTENDS CleanWriteN
MCFiles == {"f1", "f2", "f3"}
MCNoFile == "no file"      \* TLC cannot evaluate the unbounded CHOOSE
\* every file that all steps succeeded for and that was not cut short by a crash is cleaned up - and only those
Cleaned == {f \in Files : input[f] = "removed"}
AllCompleteWhenCleaned == \A f \in Cleaned : out[f] = "complete"
=============================================================================
