SPECIFICATION Spec
CONSTANTS
  Mods <- MCMods
  Absent <- MCAbsent
  Variant = "osrc_by_component"
  MaxHistory = 3
INVARIANT HistoryIndependent
CHECK_DEADLOCK FALSE
