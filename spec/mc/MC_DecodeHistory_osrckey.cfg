SPECIFICATION Spec
CONSTANTS
  Mods <- MCMods
  Absent <- MCAbsent
  Broken <- MCBroken
  Variant = "osrc_by_component"
  MaxHistory = 3
INVARIANT HistoryIndependent
CHECK_DEADLOCK FALSE
