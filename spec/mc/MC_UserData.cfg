SPECIFICATION Spec
INVARIANT NeverDropped
CHECK_DEADLOCK FALSE
