--------------------------- MODULE MC_DrawerDump ---------------------------
(* Token strings of <= 4 tokens over: a full header for IICS / FANS / ERRL,   *)
(* the 4 start bytes alone, a buffer name alone, a filler byte: the regions   *)
(* partition the input, are in address order, and every trace region starts   *)
(* at a recognised header.                                                    *)
EXTENDS DrawerDump, TLC
VARIABLES toks, phase, ok
N1 == <<73, 73, 67, 83>>  N2 == <<70, 65, 78, 83>>  N3 == <<69, 82, 82, 76>>
Tokens == {START \o N1, START \o N2, START \o N3, START, N2, <<0>>, <<2>>}
Seqs == UNION {[1..n -> Tokens] : n \in 0..4}
Bytes(s) == FoldLeft(LAMBDA acc, t : acc \o t, <<>>, s)
Good(data) ==
    LET regs == Regions(data) IN
    /\ Partition(regs, Len(data))
    /\ regs[1].kind = "ILOG"
    /\ \A k \in 2..Len(regs) : /\ regs[k].kind = "Trace"
                               /\ SubSeq(data, regs[k].from + 1, regs[k].from + 4) = START
                               /\ SubSeq(data, regs[k].from + 5, regs[k].from + 8) \in BufferNames
    \* the ILOG region holds no recognised header that is the first of its name
    /\ \A n \in BufferNames : \A p \in Occ(data, n) : p >= regs[1].to
    /\ Len(regs) = 1 + Cardinality({n \in BufferNames : Occ(data, n) # {}})
Init == toks \in Seqs /\ phase = "chosen" /\ ok = TRUE
Evaluate == phase = "chosen" /\ phase' = "evaluated" /\ toks' = toks /\ ok' = Good(Bytes(toks))
Next == Evaluate
Spec == Init /\ [][Next]_<<toks, phase, ok>>
PartitionOK == ok
=============================================================================
