----------------------------- MODULE MC_PelDir -----------------------------
(* Bounded instance: every tree over a 5-entry universe (three files in the  *)
(* directory - two of whose names contain id 1, one id 2 - a subdirectory    *)
(* whose own name contains id 1, and a file inside it whose name contains    *)
(* id 1), every os.walk order, every command.                                *)
EXTENDS PelDir
F(p, d, n, t) == [area |-> "in", path |-> p, depth |-> d, name |-> n, type |-> t]
MCUniverse == { F("f1", 0, <<1, 9>>, "f"), F("f2", 0, <<8, 1>>, "f"), F("f3", 0, <<2, 7>>, "f"),
                F("archive", 0, <<1, 5>>, "d"), F("archive/f4", 1, <<1, 6>>, "f") }
MCIds == { <<1>>, <<2>>, <<3>> }
=============================================================================
