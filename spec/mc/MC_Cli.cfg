SPECIFICATION Spec
INVARIANT ImplMeetsRule
INVARIANT AtMostOneMode
INVARIANT DeletePrecedence
INVARIANT ErrorRunsNothing
INVARIANT CleanOnlyAfterPrint
CHECK_DEADLOCK FALSE
