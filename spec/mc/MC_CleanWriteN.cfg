SPECIFICATION Spec
CONSTANTS
  Files <- MCFiles
  NoFile <- MCNoFile
  NChunks = 2
INVARIANT Safe
INVARIANT IndInv
INVARIANT AllCompleteWhenCleaned
CHECK_DEADLOCK FALSE
