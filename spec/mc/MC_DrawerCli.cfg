SPECIFICATION Spec
INVARIANT ImplMeetsRule
INVARIANT AllOrNothing
INVARIANT DefaultsOnlyWhenNotGiven
CHECK_DEADLOCK FALSE
