----------------------------- MODULE MC_Listing -----------------------------
EXTENDS Listing
MCFiles3 == {[name |-> n, kind |-> k, sel |-> s] : n \in 1..3, k \in {"pel", "junkH", "junkB", "junkO"}, s \in BOOLEAN}
MCFiles == {[name |-> n, kind |-> k, sel |-> s] : n \in 1..4, k \in {"pel", "junkH", "junkB"}, s \in BOOLEAN}
=============================================================================
