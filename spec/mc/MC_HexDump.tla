---------------------------- MODULE MC_HexDump ----------------------------
(* Round trip of the dump/parse pair for every byte string of length <= 5    *)
(* over 6 byte classes (hex-digit character, space, last printable, first    *)
(* non-printable above, zero, 0xFF) and every layout bpl, bpc <= 3, plus the *)
(* two I/O-drawer formats; and the literal line formats of the code.         *)
EXTENDS HexDump, TLC
CONSTANT PreFirst       \* deviation: the dump-file reader tries the pre-BMC format first
VARIABLES data, phase, ok
Bytes == {0, 32, 65, 126, 127, 255}
Datas == UNION {[1..n -> Bytes] : n \in 0..5}
LiteralDefault == <<65, 65, 65, 65, 65, 65, 65, 65, 32, 32, 32, 32, 32, 68, 68, 68, 68, 68, 68, 68, 68, 32, 32, 68, 68, 68, 68, 68, 68, 68, 68, 32, 32, 68, 68, 68, 68, 68, 68, 68, 68, 32, 32, 68, 68, 68, 68, 68, 68, 68, 68, 32, 32, 32, 32, 32, 67, 67, 67, 67, 67, 67, 67, 67, 67, 67, 67, 67, 67, 67, 67, 67>>
LiteralBMC == <<65, 65, 65, 65, 58, 32, 32, 68, 68, 68, 68, 68, 68, 68, 68, 32, 68, 68, 68, 68, 68, 68, 68, 68, 32, 68, 68, 68, 68, 68, 68, 68, 68, 32, 68, 68, 68, 68, 68, 68, 68, 68, 32, 32, 60, 67, 67, 67, 67, 67, 67, 67, 67, 67, 67, 67, 67, 67, 67, 67, 67, 62>>
LiteralPre == <<68, 68, 32, 68, 68, 32, 68, 68, 32, 68, 68, 32, 68, 68, 32, 68, 68, 32, 68, 68, 32, 68, 68, 32, 68, 68, 32, 68, 68, 32, 68, 68, 32, 68, 68, 32, 68, 68, 32, 68, 68, 32, 68, 68, 32, 68, 68, 32, 67, 67, 67, 67, 67, 67, 67, 67, 67, 67, 67, 67, 67, 67, 67, 67>>
ASSUME Template(16, 4) = LiteralDefault
ASSUME FmtBMC = LiteralBMC
ASSUME FmtPre = LiteralPre

LayoutOK(d, bpl, bpc) ==
    LET lines == Dump(d, bpl, bpc) IN
    /\ Len(lines) = CeilDiv(Len(d), bpl)                                      \* one line per started line
    /\ \A k \in 1..Len(lines) : Len(lines[k]) = Len(Template(bpl, bpc))       \* equally wide
    /\ \A k \in 1..Len(lines) : SubSeq(lines[k], 1, 8) = Hex8((k - 1) * bpl)  \* begins with its offset
    /\ Parse(lines, Template(bpl, bpc)) = d                                   \* lossless
DrawerOK(d) ==
    /\ \A lower \in BOOLEAN : Parse(RenderBMC(d, lower), FmtBMC) = d /\ Parse(RenderPre(d, lower), FmtPre) = d
    \* blank and comment lines do not contribute
    /\ Parse(<<<<>>, <<35, 32, 120>>>> \o RenderBMC(d, FALSE) \o <<<<10>>>>, FmtBMC) = d

\* the dump-file reader: whatever comment or blank lines stand before, between and after the data lines
\* (among them titles that begin with a hex-digit letter), both formats read back to the data
CommentLines == {<<>>, <<10>>, <<35, 32, 120>>, <<68, 114, 97, 119, 101, 114>>, <<100, 117, 109, 112, 10>>,
                 <<69, 110, 99, 108>>, <<45, 45, 45>>, <<48, 120>>}
Order == IF PreFirst THEN <<FmtPre, FmtBMC>> ELSE <<FmtBMC, FmtPre>>
Decorate(lines, c1, c2) ==
    <<c1>> \o (IF lines = <<>> THEN <<>> ELSE <<lines[1]>> \o <<c2>> \o SubSeq(lines, 2, Len(lines))) \o <<c2, c1>>
FileOK(d) ==
    /\ \A c \in CommentLines : IsComment(c)
    /\ \A c1 \in CommentLines : \A c2 \in {c1, <<69, 110, 99, 108>>} : \A lower \in BOOLEAN :
          /\ ReadDumpFile(Decorate(RenderBMC(d, lower), c1, c2), Order) = d
          /\ ReadDumpFile(Decorate(RenderPre(d, lower), c1, c2), Order) = d

Init == data \in Datas /\ phase = "chosen" /\ ok = TRUE
Evaluate == /\ phase = "chosen" /\ phase' = "evaluated" /\ data' = data
            /\ ok' = /\ \A bpl \in 1..3, bpc \in 1..3 : LayoutOK(data, bpl, bpc)
                     /\ LayoutOK(data \o data \o data \o data, 16, 4)
                     /\ DrawerOK(data \o data \o data \o data)
                     /\ FileOK(data \o data \o data \o data)
Next == Evaluate
Spec == Init /\ [][Next]_<<data, phase, ok>>
Lossless == ok
=============================================================================
