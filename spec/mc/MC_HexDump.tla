---------------------------- MODULE MC_HexDump ----------------------------
(* Round trip of the dump/parse pair for every byte string of length <= 5    *)
(* over 6 byte classes (hex-digit character, space, last printable, first    *)
(* non-printable above, zero, 0xFF) and every layout bpl, bpc <= 3, plus the *)
(* two I/O-drawer formats; and the literal line formats of the code.         *)
EXTENDS HexDump, TLC
VARIABLES data, phase, ok
Bytes == {0, 32, 65, 126, 127, 255}
Datas == UNION {[1..n -> Bytes] : n \in 0..5}
LiteralDefault == <<65, 65, 65, 65, 65, 65, 65, 65, 32, 32, 32, 32, 32, 68, 68, 68, 68, 68, 68, 68, 68, 32, 32, 68, 68, 68, 68, 68, 68, 68, 68, 32, 32, 68, 68, 68, 68, 68, 68, 68, 68, 32, 32, 68, 68, 68, 68, 68, 68, 68, 68, 32, 32, 32, 32, 32, 67, 67, 67, 67, 67, 67, 67, 67, 67, 67, 67, 67, 67, 67, 67, 67>>
LiteralBMC == <<65, 65, 65, 65, 58, 32, 32, 68, 68, 68, 68, 68, 68, 68, 68, 32, 68, 68, 68, 68, 68, 68, 68, 68, 32, 68, 68, 68, 68, 68, 68, 68, 68, 32, 68, 68, 68, 68, 68, 68, 68, 68, 32, 32, 60, 67, 67, 67, 67, 67, 67, 67, 67, 67, 67, 67, 67, 67, 67, 67, 67, 62>>
LiteralPre == <<68, 68, 32, 68, 68, 32, 68, 68, 32, 68, 68, 32, 68, 68, 32, 68, 68, 32, 68, 68, 32, 68, 68, 32, 68, 68, 32, 68, 68, 32, 68, 68, 32, 68, 68, 32, 68, 68, 32, 68, 68, 32, 68, 68, 32, 68, 68, 32, 67, 67, 67, 67, 67, 67, 67, 67, 67, 67, 67, 67, 67, 67, 67, 67>>
ASSUME Template(16, 4) = LiteralDefault
ASSUME FmtBMC = LiteralBMC
ASSUME FmtPre = LiteralPre

LayoutOK(d, bpl, bpc) ==
    LET lines == Dump(d, bpl, bpc) IN
    /\ Len(lines) = CeilDiv(Len(d), bpl)                                      \* one line per started line
    /\ \A k \in 1..Len(lines) : Len(lines[k]) = Len(Template(bpl, bpc))       \* equally wide
    /\ \A k \in 1..Len(lines) : SubSeq(lines[k], 1, 8) = Hex8((k - 1) * bpl)  \* begins with its offset
    /\ Parse(lines, Template(bpl, bpc)) = d                                   \* lossless
DrawerOK(d) ==
    /\ \A lower \in BOOLEAN : Parse(RenderBMC(d, lower), FmtBMC) = d /\ Parse(RenderPre(d, lower), FmtPre) = d
    \* blank and comment lines do not contribute
    /\ Parse(<<<<>>, <<35, 32, 120>>>> \o RenderBMC(d, FALSE) \o <<<<10>>>>, FmtBMC) = d

Init == data \in Datas /\ phase = "chosen" /\ ok = TRUE
Evaluate == /\ phase = "chosen" /\ phase' = "evaluated" /\ data' = data
            /\ ok' = /\ \A bpl \in 1..3, bpc \in 1..3 : LayoutOK(data, bpl, bpc)
                     /\ LayoutOK(data \o data \o data \o data, 16, 4)
                     /\ DrawerOK(data \o data \o data \o data)
Next == Evaluate
Spec == Init /\ [][Next]_<<data, phase, ok>>
Lossless == ok
=============================================================================
