SPECIFICATION Spec
CONSTANTS
  Files <- MCFiles
  Barrier = TRUE
  SortList = FALSE
  OpenInside = TRUE
INVARIANT MatchesRule
INVARIANT ExitZero
INVARIANT JunkInvariant
INVARIANT Agree
PROPERTY Terminates
CHECK_DEADLOCK FALSE
