SPECIFICATION Spec
CONSTANTS
  VariantName = "repaired"
INVARIANT AlignmentAllowed
CHECK_DEADLOCK FALSE
