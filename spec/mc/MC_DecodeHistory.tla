-------------------------- MODULE MC_DecodeHistory --------------------------
EXTENDS DecodeHistory
MCMods == {"m1", "m2"}
MCAbsent == {"a1"}
MCBroken == {"b1"}
=============================================================================
