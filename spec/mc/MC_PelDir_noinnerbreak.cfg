SPECIFICATION Spec
CONSTANTS
  Universe <- MCUniverse
  Ids <- MCIds
  BreakOuter = TRUE
  BreakInner = FALSE
INVARIANT EffectOK
INVARIANT NeverDescends
PROPERTY OnlyShrinks
CHECK_DEADLOCK FALSE
