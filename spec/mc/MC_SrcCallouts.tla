-------------------------- MODULE MC_SrcCallouts --------------------------
(* Every subsection of <= 2 callouts; each callout with one of the legal      *)
(* substructure sets (ID | ID PE | ID MR | ID PE MR), a location code of 0 or *)
(* 8 bytes, and a header that does / does not spell a substructure tag.       *)
EXTENDS SrcCallouts
Sub(t, n) == [tag |-> t, size |-> n]
SubSets == { <<Sub("ID", 12)>>, <<Sub("ID", 28), Sub("PE", 28)>>, <<Sub("ID", 4), Sub("MR", 16)>>,
             <<Sub("ID", 16), Sub("PE", 32), Sub("MR", 8)>> }
CalloutU == {[loc |-> l, subs |-> s, looks |-> k] : l \in {0, 8}, s \in SubSets, k \in {"none", "ID", "PE", "MR"}}
MCUniverse == {<<>>} \cup {<<a>> : a \in CalloutU} \cup {<<a, b>> : a \in CalloutU, b \in CalloutU}
=============================================================================
