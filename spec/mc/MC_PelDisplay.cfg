SPECIFICATION Spec
INVARIANT DisplayRulesOK
CHECK_DEADLOCK FALSE
