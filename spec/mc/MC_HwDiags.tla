----------------------------- MODULE MC_HwDiags -----------------------------
(* Field independence of the signature: changing one hex character of the     *)
(* three words changes only the output field that owns that character - with  *)
(* no chip data, and with chip data for the model - for every character       *)
(* position x 3 replacement characters (a digit, an upper- and a lower-case   *)
(* letter); look-ups are case-insensitive; nothing is ever undefined.         *)
EXTENDS HwDiags, TLC
VARIABLES pos, phase, ok
A0 == <<50, 48, 100, 97, 48, 48, 50, 48>>        \* "20da0020"
B0 == <<48, 48, 49, 50, 48, 51, 48, 49>>         \* "00120301"
C0 == <<97, 98, 99, 100, 48, 53, 49, 55>>        \* "abcd0517"
Data == << [id |-> A0, type |-> <<112, 114, 111, 99>>, desc |-> <<80, 49, 48>>,
            attn |-> << [key |-> <<49>>, val |-> <<67, 83>>] >>,
            sigs |-> << [id |-> <<97, 98, 99, 100>>, name |-> <<70, 73, 82>>,
                         bits |-> << [key |-> <<50, 51>>, val |-> <<98, 97, 100>>] >> ] >>,
            regs |-> <<>>] >>
Repl == {57, 70, 101}                             \* '9' 'F' 'e'
Owner(w, k) == IF w = "a" THEN {"chip", "sig", "attn"}
               ELSE IF w = "b" THEN (IF k <= 6 THEN {"chip"} ELSE {"attn"})
               ELSE {"sig"}
Changed(x, y) == {f \in {"chip", "sig", "attn"} : x[f] # y[f]}
Good(chips, w, k, c) ==
    LET a == IF w = "a" THEN [A0 EXCEPT ![k] = c] ELSE A0
        b == IF w = "b" THEN [B0 EXCEPT ![k] = c] ELSE B0
        cc == IF w = "c" THEN [C0 EXCEPT ![k] = c] ELSE C0
    IN  Changed(Signature(chips, A0, B0, C0), Signature(chips, a, b, cc)) \subseteq Owner(w, k)
CaseBlind(chips) == Signature(chips, UpperAll(A0), B0, UpperAll(C0)) = Signature(chips, A0, B0, C0)
Init == pos \in 1..8 /\ phase = "chosen" /\ ok = TRUE
Evaluate == /\ phase = "chosen" /\ phase' = "evaluated" /\ pos' = pos
            /\ ok' = /\ \A chips \in {<<>>, Data} : \A w \in {"a", "b", "c"} : \A c \in Repl : Good(chips, w, pos, c)
                     /\ CaseBlind(Data) /\ CaseBlind(<<>>)
Next == Evaluate
Spec == Init /\ [][Next]_<<pos, phase, ok>>
FieldIndependence == ok
\* "node 3 proc 18 (P10)"   "FIR(5)[23] bad"   "CS"
ASSUME Signature(Data, A0, B0, C0) =
         [chip |-> <<110, 111, 100, 101, 32, 51, 32, 112, 114, 111, 99, 32, 49, 56, 32, 40, 80, 49, 48, 41>>,
          sig |-> <<70, 73, 82, 40, 53, 41, 91, 50, 51, 93, 32, 98, 97, 100>>, attn |-> <<67, 83>>]
\* no data: "node 3 unknown 18 (20DA0020)"  "id:ABCD(5)[23] "  "1"
ASSUME Signature(<<>>, A0, B0, C0) =
         [chip |-> <<110, 111, 100, 101, 32, 51, 32, 117, 110, 107, 110, 111, 119, 110, 32, 49, 56, 32, 40, 50, 48, 68, 65, 48, 48, 50, 48, 41>>,
          sig |-> <<105, 100, 58, 65, 66, 67, 68, 40, 53, 41, 91, 50, 51, 93, 32>>, attn |-> <<49>>]
=============================================================================
