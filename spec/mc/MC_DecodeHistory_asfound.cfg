SPECIFICATION Spec
CONSTANTS
  Mods <- MCMods
  Absent <- MCAbsent
  Broken <- MCBroken
  Variant = "asfound"
  MaxHistory = 4
INVARIANT HistoryIndependent
INVARIANT NoPoisoning
INVARIANT ErrorNoted
CHECK_DEADLOCK FALSE
