SPECIFICATION Spec
CONSTANTS
  Mods <- MCMods
  Absent <- MCAbsent
  Variant = "asfound"
  MaxHistory = 4
INVARIANT HistoryIndependent
INVARIANT NoPoisoning
INVARIANT ErrorNoted
CHECK_DEADLOCK FALSE
