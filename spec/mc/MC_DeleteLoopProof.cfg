SPECIFICATION Spec
CONSTANTS
  Entries <- MCEntries
  IsTop <- MCIsTop
  Matches <- MCMatches
  Listing <- MCListing
INVARIANT Safe
INVARIANT IndInv
CHECK_DEADLOCK FALSE
