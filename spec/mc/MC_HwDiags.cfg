SPECIFICATION Spec
INVARIANT FieldIndependence
CHECK_DEADLOCK FALSE
