-------------------------- MODULE MC_PrettyPrint --------------------------
(* Every json.dumps-shaped line with a key of <= 3 and a string value of     *)
(* <= 2 characters over the alphabet  " \ : { a space , plus the bracket and *)
(* number values, both alignment widths: the scanner's output is an allowed  *)
(* alignment of the line, and the judge's KeyEnd scanner finds exactly the   *)
(* key end the construction put there.                                       *)
EXTENDS PrettyPrint, TLC
CONSTANT VariantName
VARIABLES key, phase, ok
Alphabet == {QUOTE, BSLASH, COLON, LBRACE, 97, SPACE, COMMA}
SeqsUpTo(n) == UNION {[1..k -> Alphabet] : k \in 0..n}
Values == {Quoted(s) : s \in SeqsUpTo(2)} \cup {<<49>>, <<123>>, <<91>>, <<123, 125>>, <<91, 93>>, <<125>>, <<93>>}
Impl(line, w) == IF VariantName = "asfound" THEN ImplAsFound(line, w) ELSE ImplRepaired(line, w)
Lines(k, hk) == {[indent |-> n, haskey |-> hk, key |-> k, value |-> v, comma |-> c] :
                     n \in {0, 4}, v \in Values, c \in BOOLEAN}
LineOK(l) == LET line == Render(l) IN
             /\ KeyEnd(line) = KeyEndByConstruction(l)
             /\ \A w \in {29, 34, 3} : Allowed(line, Impl(line, w))
Init == key \in SeqsUpTo(3) /\ phase = "chosen" /\ ok = TRUE
Evaluate == /\ phase = "chosen" /\ phase' = "evaluated" /\ key' = key
            /\ ok' = /\ \A l \in Lines(key, TRUE) : LineOK(l)
                     /\ (key = <<>> => \A l \in Lines(key, FALSE) : LineOK(l))
Next == Evaluate
Spec == Init /\ [][Next]_<<key, phase, ok>>
AlignmentAllowed == ok
\* the rule is not vacuous: it rejects moving or altering characters
ASSUME ~Allowed(<<34, 97, 34, 58, 32, 49>>, <<34, 97, 32, 34, 58, 32, 49>>)
ASSUME ~Allowed(<<34, 97, 34, 58, 32, 49>>, <<34, 97, 34, 58, 32, 32, 50>>)
ASSUME Allowed(<<34, 97, 34, 58, 32, 49>>, <<34, 97, 34, 58, 32, 32, 32, 49>>)
ASSUME ~Allowed(<<32, 34, 97, 58, 34>>, <<32, 34, 97, 58, 32, 34>>)       \* array element "a:" is not a key line
=============================================================================
