SPECIFICATION Spec
INVARIANT HlogRulesOK
CHECK_DEADLOCK FALSE
