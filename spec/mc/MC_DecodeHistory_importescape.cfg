SPECIFICATION Spec
CONSTANTS
  Mods <- MCMods
  Absent <- MCAbsent
  Broken <- MCBroken
  Variant = "import_escape"
  MaxHistory = 3
INVARIANT HistoryIndependent
INVARIANT NoPoisoning
INVARIANT ErrorNoted
CHECK_DEADLOCK FALSE
