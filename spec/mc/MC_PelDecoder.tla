--------------------------- MODULE MC_PelDecoder ---------------------------
(* Every PEL of <= 3 optional sections over 4 display names x 2 lengths, and  *)
(* every truncation length 0..total.                                          *)
EXTENDS PelDecoder
Tok(n, l) == [name |-> n, layout |-> l]
Toks == {Tok(n, l) : n \in {"Primary SRC", "User Data", "Unknown", "Failing MTMS"}, l \in {12, 28}}
MCUniverse == {<<>>} \cup {<<a>> : a \in Toks} \cup {<<a, b>> : a \in Toks, b \in Toks}
              \cup {<<a, b, c>> : a \in Toks, b \in Toks, c \in Toks}
=============================================================================
