SPECIFICATION Spec
CONSTANTS
  Sevs <- QuickSevs
  VariantName = "repaired"
INVARIANT ImplMeetsRule
CHECK_DEADLOCK FALSE
