SPECIFICATION Spec
CONSTANT PreFirst = TRUE
INVARIANT Lossless
CHECK_DEADLOCK FALSE
