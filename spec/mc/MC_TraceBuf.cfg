SPECIFICATION Spec
INVARIANT FramingOK
CHECK_DEADLOCK FALSE
