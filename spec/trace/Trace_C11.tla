----------------------------- MODULE Trace_C11 -----------------------------
(* Judge for C11.  One record = one real CLI invocation with a recursive     *)
(* snapshot of the tree (PEL directory, output directory, other files)       *)
(* before and after it.  The allowed effect is PelDir's rule for the         *)
(* command; where an invocation names both a read-only mode and a delete     *)
(* option either effect is accepted (the statement does not fix precedence). *)
EXTENDS Naturals, Sequences, FiniteSets, TLC, TLCExt, Json, IOUtils

PD == INSTANCE PelDir WITH Universe <- {}, Ids <- {}, BreakOuter <- TRUE, BreakInner <- TRUE,
                           tree <- {}, cmd <- [kind |-> "idle"], before <- {}, walk <- <<>>,
                           di <- 1, fi <- 1, found <- FALSE, phase <- "idle"

Recs == ndJsonDeserialize(IOEnv.TRACE_FILE)
VARIABLE i

SeqRange(s) == {s[k] : k \in 1..Len(s)}
B(r) == SeqRange(r.before)
A(r) == SeqRange(r.after)

ReadOnlyKinds == {"list", "all", "count", "plid", "src", "srcex", "id", "bmcid", "listhex", "allrev",
                  "listext", "file", "filehex", "deletebadid",
                  \* no directory named (empty string), or a path that names a directory which does not exist
                  \* (through a link and back up): nothing is done, anywhere
                  "emptypath_deleteall", "emptypath_delete", "emptypath_json", "dotdot_deleteall", "dotdot_delete"}

\* kind "multi": an invocation naming any combination of mode options (r.named, a sequence of mode names;
\* r.clean).  The tree must change as ONE of the named modes allows; with no mode named nothing changes.
ModeEffect(m, r) ==
    CASE m \in {"list", "all", "count", "plid", "src", "srcex", "id", "bmcid"} -> PD!FrameOK(B(r), A(r))
      [] m = "file" -> PD!FileOK(B(r), A(r), r.clean, r.fpath)
      [] m = "json" -> PD!JsonOK(B(r), A(r), "out", r.clean)
      [] m = "delete" -> PD!DeleteOneOK(B(r), A(r), r.idcp)
      [] m = "deleteall" -> PD!DeleteAllOK(B(r), A(r))
MultiOK(r) == IF r.named = <<>> THEN PD!FrameOK(B(r), A(r))
              ELSE \E k \in 1..Len(r.named) : ModeEffect(r.named[k], r)

EffectOK(r) ==
    LET k == r.cmd.k IN
    CASE k \in ReadOnlyKinds -> PD!FrameOK(B(r), A(r))
      [] k \in {"delete", "delete_ext"} -> PD!DeleteOneOK(B(r), A(r), r.idcp)
      [] k \in {"deleteall", "deleteall_ext"} -> PD!DeleteAllOK(B(r), A(r))
      [] k \in {"list+deleteall", "all+deleteall"} ->
            PD!FrameOK(B(r), A(r)) \/ PD!DeleteAllOK(B(r), A(r))
      [] k \in {"count+delete", "plid+delete"} ->
            PD!FrameOK(B(r), A(r)) \/ PD!DeleteOneOK(B(r), A(r), r.idcp)
      [] k = "json" -> PD!JsonOK(B(r), A(r), "in", FALSE)
      [] k = "jsonout" -> PD!JsonOK(B(r), A(r), "out", FALSE)
      [] k \in {"jsonclean", "jsoncleanext"} -> PD!JsonOK(B(r), A(r), "out", TRUE)
      [] k = "jsonext" -> PD!JsonOK(B(r), A(r), "in", FALSE)
      [] k = "fileclean" -> PD!FileOK(B(r), A(r), TRUE, r.fpath)
      [] k = "multi" -> MultiOK(r)
      [] OTHER -> FALSE

\* --delete reports 'PEL not found' exactly when no file qualifies
NotFoundOK(r) ==
    r.cmd.k \in {"delete", "delete_ext"} => (r.not_found <=> ~PD!DeleteOneFound(B(r), r.idcp))

\* exit statuses are not part of this statement; only "no other exit path" is asked
ExitOK(r) == r.exit \in {0, 1}

\* snapshots are well-formed: unique (area, path)
SnapOK(r) == /\ Cardinality({<<e.area, e.path>> : e \in B(r)}) = Len(r.before)
             /\ Cardinality({<<e.area, e.path>> : e \in A(r)}) = Len(r.after)

Failing(r) ==
    IF ~r.shape_ok \/ ~SnapOK(r) THEN {"Shape"}
    ELSE {c \in {"Effect", "NotFound", "Exit", "NoTraceback"} :
          \/ c = "Effect" /\ ~EffectOK(r)
          \/ c = "NotFound" /\ ~NotFoundOK(r)
          \/ c = "Exit" /\ ~ExitOK(r)
          \/ c = "NoTraceback" /\ r.uncaught }

Init == i = 0 /\ TLCSet(1, 0)
Next == /\ i < Len(Recs)
        /\ i' = i + 1
        /\ LET r == Recs[i + 1]
               f == Failing(r)
           IN  IF f = {} THEN TRUE
               ELSE PrintT(<<"REJECT", r.id, f>>) /\ TLCSet(1, TLCGet(1) + 1)
Spec == Init /\ [][Next]_i
Post == /\ PrintT(<<"JUDGED", Len(Recs), TLCGet(1), TLCGet("stats").diameter>>)
        /\ TLCGet(1) = 0
        /\ TLCGet("stats").diameter - 1 = Len(Recs)
=============================================================================
