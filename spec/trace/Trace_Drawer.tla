----------------------------- MODULE Trace_Drawer -----------------------------
(* Judge for the I/O drawer decoders: C14 (ILOG), C15 (trace buffers), C16     *)
(* (history log), C17 (dump partition).  Text is code points, data bytes.      *)
EXTENDS Integers, Sequences, FiniteSets, TLC, TLCExt, Json, IOUtils

IL == INSTANCE Ilog
HL == INSTANCE Hlog
TB == INSTANCE TraceBuf
DD == INSTANCE DrawerDump

Recs == ndJsonDeserialize(IOEnv.TRACE_FILE)
VARIABLE i

(* ---- C14 ------------------------------------------------------------------ *)
\* r.table, r.data, r.headings (number of heading lines), r.lines : seq of [ts, seq, pte, msg]
FirstBad(exp, act) == CHOOSE m \in 1..Len(exp) : act[m].msg # exp[m].msg /\ \A j \in 1..(m - 1) : act[j].msg = exp[j].msg
C14Failing(r) ==
    LET exp == IL!Render(r.data, r.table)  act == r.lines IN
    {x \in {"TwoHeadingLines", "EntryCount", "Timestamp", "Seq", "Pte", "Message"} :
       \/ x = "TwoHeadingLines" /\ r.headings # 2
       \/ x = "EntryCount" /\ Len(act) # Len(exp)
       \/ x = "Timestamp" /\ Len(act) = Len(exp) /\ \E k \in 1..Len(exp) : act[k].ts # exp[k].ts
       \/ x = "Seq" /\ Len(act) = Len(exp) /\ \E k \in 1..Len(exp) : act[k].seq # exp[k].seq
       \/ x = "Pte" /\ Len(act) = Len(exp) /\ \E k \in 1..Len(exp) : act[k].pte # exp[k].pte
       \/ x = "Message" /\ Len(act) = Len(exp) /\ \E k \in 1..Len(exp) : act[k].msg # exp[k].msg
                         /\ PrintT(<<"NOTE", r.id, "first message mismatch at entry", FirstBad(exp, act),
                                     "expected", exp[FirstBad(exp, act)].msg>>) }

(* ---- C16 ------------------------------------------------------------------ *)
\* r.fields, r.data, r.dump (the lines of the hex-dump part), r.listed : seq of [name, digits]
C16Failing(r) ==
    {x \in {"DumpFirst", "DumpLossless", "Fields"} :
       \/ x = "DumpFirst" /\ ~r.dump_first
       \/ x = "DumpLossless" /\ HL!Parse(r.dump, HL!Template(16, 4)) # r.data
       \/ x = "Fields" /\ r.listed # HL!NonZeroFields(r.data, r.fields) }

(* ---- C15 ------------------------------------------------------------------ *)
C15Failing(r) == TB!Failing(r)

(* ---- C17 ------------------------------------------------------------------ *)
C17Failing(r) == DD!Failing(r)

Failing(r) ==
    IF ~r.shape_ok THEN {"Shape"}
    ELSE CASE r.family = "C14" -> C14Failing(r)
           [] r.family = "C15" -> C15Failing(r)
           [] r.family = "C16" -> C16Failing(r)
           [] r.family = "C17" -> C17Failing(r)

Init == i = 0 /\ TLCSet(1, 0)
Next == /\ i < Len(Recs)
        /\ i' = i + 1
        /\ LET r == Recs[i + 1]
               f == Failing(r)
           IN  IF f = {} THEN TRUE
               ELSE PrintT(<<"REJECT", r.id, f>>) /\ TLCSet(1, TLCGet(1) + 1)
Spec == Init /\ [][Next]_i
Post == /\ PrintT(<<"JUDGED", Len(Recs), TLCGet(1), TLCGet("stats").diameter>>)
        /\ TLCGet(1) = 0
        /\ TLCGet("stats").diameter - 1 = Len(Recs)
=============================================================================
