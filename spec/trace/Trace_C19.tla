----------------------------- MODULE Trace_C19 -----------------------------
(* Judge for C19.  One record = one history played in ONE interpreter:        *)
(*   steps : seq of [item ([cache, mod, beh] of DecodeHistory, or cache =     *)
(*           "other" for PELs outside the model alphabet), digest (document   *)
(*           of this decode), fresh (document of the same PEL decoded first   *)
(*           in a fresh interpreter), caches (projection of the real import   *)
(*           caches after the decode), foreign (sentinel values of OTHER PELs *)
(*           found in this document)]                                         *)
(* kind "dir": the same directory shown with -a, -a -r and file by file:      *)
(*   docs : seq of [a, ar, f] digests per PEL                                 *)
(* The history is replayed through DecodeHistory!ImplStep (repaired variant): *)
(* the recorded cache projection must equal the model's state after every     *)
(* step, and every document must equal the fresh one.                         *)
EXTENDS Naturals, Sequences, FiniteSets, TLC, TLCExt, Json, IOUtils

DH == INSTANCE DecodeHistory WITH Mods <- {"m1", "m2"}, Absent <- {"a1"}, Broken <- {"b1"}, Variant <- "repaired",
                                  MaxHistory <- 1000, cache <- <<>>, hist <- 0,
                                  last <- [cache |-> "ud", mod |-> "m1", beh |-> "ok", plugins |-> TRUE], lastResult <- ""

Recs == ndJsonDeserialize(IOEnv.TRACE_FILE)
VARIABLE i

Names == {"m1", "m2", "a1", "b1"}
Cache0 == [c \in DH!Caches |-> [n \in Names |-> "unseen"]]
Proj(c) == [k \in DH!Caches |-> [n \in Names |-> c[k][n]]]

\* one PEL may consult several modules (an SRC with a maintenance procedure consults the
\* callout parser and then the SRC parser): a step carries the sequence of its consultations
RECURSIVE Fold(_, _, _)
Fold(items, n, c) == IF n = 0 THEN c ELSE DH!ImplStep(items[n], Fold(items, n - 1, c)).cache

\* model state after the first k steps; steps outside the alphabet resynchronise on the recording
RECURSIVE After(_, _)
After(steps, k) ==
    IF k = 0 THEN Cache0
    ELSE LET s == steps[k] IN
         IF s.item.cache = "other" THEN Proj(s.caches)
         ELSE Fold(s.consults, Len(s.consults), After(steps, k - 1))

\* CacheStep compares the model's cache state with the projection of the real import caches after
\* every step.  It is the early warning that model and code have drifted apart (cache poisoning is
\* visible here before any document differs), but the caches are internal state that a
\* behaviour-preserving refactoring may reorganise: a mismatch alone is reported as a NOTE
\* ("ModelDrift") and rejects the record only together with an observable difference.
CacheDrift(r) == \E k \in 1..Len(r.steps) :
                    r.steps[k].item.cache # "other" /\ r.steps[k].caches_ok /\ Proj(r.steps[k].caches) # After(r.steps, k)
Observable(r) == \/ \E k \in 1..Len(r.steps) : r.steps[k].digest # r.steps[k].fresh
                 \/ \E k \in 1..Len(r.steps) : r.steps[k].foreign # <<>>
HistFailing(r) ==
    {x \in {"SameAsFresh", "CacheStep", "NoForeignValue", "Repeatable"} :
       \/ x = "SameAsFresh" /\ \E k \in 1..Len(r.steps) : r.steps[k].digest # r.steps[k].fresh
       \/ x = "CacheStep" /\ CacheDrift(r)
                           /\ (Observable(r) \/ ~PrintT(<<"NOTE", r.id, "ModelDrift: real import caches differ from DecodeHistory!ImplStep">>))
       \/ x = "NoForeignValue" /\ \E k \in 1..Len(r.steps) : r.steps[k].foreign # <<>>
       \/ x = "Repeatable" /\ \E j, k \in 1..Len(r.steps) :
                                r.steps[j].pel = r.steps[k].pel /\ r.steps[j].digest # r.steps[k].digest }

DirFailing(r) ==
    {x \in {"DirOrderIndependent", "AllShown"} :
       \/ x = "DirOrderIndependent" /\ \E k \in 1..Len(r.docs) : r.docs[k].a # r.docs[k].f \/ r.docs[k].ar # r.docs[k].f
       \/ x = "AllShown" /\ ~r.complete }

Failing(r) ==
    IF ~r.shape_ok THEN {"Shape"}
    ELSE IF r.kind = "history" THEN HistFailing(r) ELSE DirFailing(r)

Init == i = 0 /\ TLCSet(1, 0)
Next == /\ i < Len(Recs)
        /\ i' = i + 1
        /\ LET r == Recs[i + 1]
               f == Failing(r)
           IN  IF f = {} THEN TRUE
               ELSE PrintT(<<"REJECT", r.id, f>>) /\ TLCSet(1, TLCGet(1) + 1)
Spec == Init /\ [][Next]_i
Post == /\ PrintT(<<"JUDGED", Len(Recs), TLCGet(1), TLCGet("stats").diameter>>)
        /\ TLCGet(1) = 0
        /\ TLCGet("stats").diameter - 1 = Len(Recs)
=============================================================================
