------------------------------ MODULE Trace_UD ------------------------------
(* Judge for C04 (user data rendered or preserved losslessly) and C18 (parser *)
(* modules chosen, fed, contained).  One record = one section of interest of  *)
(* a PEL decoded by the real parsePEL:                                        *)
(*  sec     [kind, creator, comp, sub, ver, payload], pelcreator              *)
(*  plugins BOOLEAN, beh (behaviour of the parser module for this call)       *)
(*  entry   [present, ver, sub, createdby, has_error, has_data, data (lines), *)
(*           canon (canonical JSON text of the entry without the three header *)
(*           keys)]                                                           *)
(*  expect_canon  canonical JSON the generator / fixture contract predicts    *)
(*  C18 only: imports (names passed to import_module), calls (what the        *)
(*  fixture parser received), others / others_ok (digests of all other        *)
(*  entries in this run and in the run where the parser is well behaved),     *)
(*  modules_before / modules_after (plugin modules in sys.modules)            *)
EXTENDS UserData, PelDisplay, TLC, TLCExt, Json, IOUtils

Recs == ndJsonDeserialize(IOEnv.TRACE_FILE)
VARIABLE i
Env0 == [names |-> <<>>, registry |-> <<>>]

HexMin2(comp) ==                    \* "0x{:02X}".format(n): at least two digits
    LET d == HexBytesU(comp)
        nz == {k \in 1..2 : d[k] # 48}
    IN  <<48, 120>> \o (IF nz = {} THEN SubSeq(d, 3, 4) ELSE SubSeq(d, CHOOSE k \in nz : \A j \in nz : k <= j, 4))

CreatedBy(r) ==
    IF r.sec.kind = "OTHER" THEN HexMin2(r.sec.comp)
    ELSE CompDisplay(r.sec.comp, r.sec.creator, Env0)

Class(r) == Route(r.sec, r.plugins, r.beh)

SeqRange(q) == {q[n] : n \in 1..Len(q)}

C04Failing(r) ==
    IF ~r.entry.present THEN {"EntryPresent"}
    ELSE LET c == Class(r)  e == r.entry IN
    {x \in {"BaseKeys", "DataPresent", "Lossless", "ErrorNote", "JsonSame", "TextLines", "PluginOutput"} :
       \* (r.collide: header field names the section's own JSON object uses as member names - not comparable there)
       \/ x = "BaseKeys" /\ \/ ("Section Version" \notin SeqRange(r.collide) /\ e.ver # r.sec.ver)
                             \/ ("Sub-section type" \notin SeqRange(r.collide) /\ e.sub # r.sec.sub)
                             \/ ("Created by" \notin SeqRange(r.collide) /\ e.createdby # CreatedBy(r))
       \/ x = "DataPresent" /\ CarriesDump(c) /\ ~e.has_data
       \/ x = "Lossless" /\ CarriesDump(c) /\ e.has_data /\ ~Lossless(e.data, r.sec.payload)
       \/ x = "ErrorNote" /\ (e.has_error # (c = "dump+error"))
       \/ x = "JsonSame" /\ c = "json" /\ e.canon # r.expect_canon
       \/ x = "TextLines" /\ c = "text" /\ (~e.has_data \/ e.data # TextLines(r.sec.payload))
       \/ x = "PluginOutput" /\ c = "plugin" /\ r.expect_canon # "" /\ e.canon # r.expect_canon }

RECURSIVE Dedup(_, _)
Dedup(s, seen) == IF s = <<>> THEN <<>>
                  ELSE IF Head(s) \in seen THEN Dedup(Tail(s), seen)
                  ELSE <<Head(s)>> \o Dedup(Tail(s), seen \cup {Head(s)})
\* repeated imports of one module are harmless: import sequences are compared without repetitions
C18Failing(r) ==
    LET expectImport == r.plugins /\ r.sec.kind \in {"UD", "ED"} /\ ~IsBuiltin(r.sec)
        name == UdModName(r.sec.creator, r.sec.comp)
    IN
    {x \in {"ModuleName", "Args", "CalledOnce", "Contained", "NothingImported", "NothingLoaded"} :
       \/ x = "ModuleName" /\ expectImport /\ Dedup(r.imports, {}) # <<name>>
       \/ x = "Args" /\ expectImport /\ r.beh \notin {"absent", "importfails"} /\ r.fixture
             /\ (Len(r.calls) # 1 \/ (Len(r.calls) = 1 /\
                   ( r.calls[1].sub # r.sec.sub \/ r.calls[1].ver # r.sec.ver \/ r.calls[1].payload # r.sec.payload )))
       \/ x = "CalledOnce" /\ r.fixture /\ Len(r.calls) > 1
       \/ x = "Contained" /\ r.others # r.others_ok
       \/ x = "NothingImported" /\ ~expectImport /\ r.imports # <<>>
       \/ x = "NothingLoaded" /\ ~r.plugins /\ r.modules_after # r.modules_before }

(* ---- SRC parser modules (C18) -------------------------------------------- *)
\* r.kind = "src": creator, ascii (32), words (8 x 4 bytes), wc, plugins, beh,
\*   imports (names under srcparsers.), calls (seq of [name, refcode, words (8 x 8 code points)]),
\*   has_details, details_canon, expect_canon, others, others_ok
Word8(w) == HexBytesU(w)
ZERO8 == <<48, 48, 48, 48, 48, 48, 48, 48>>
SrcArgsOK(r, c) ==
    /\ c.refcode = r.ascii
    /\ Len(c.words) = 8
    /\ \A n \in 1..8 : n + 1 <= r.wc => c.words[n] = Word8(r.words[n])
    \* beyond the valid word count: zeros (only valid words are words) or what is stored (words 2..9 literally) -
    \* one reading or the other for the whole call, not a mixture
    /\ LET beyond == {n \in 1..8 : n + 1 > r.wc}
       IN  \/ \A n \in beyond : c.words[n] = ZERO8
           \/ \A n \in beyond : c.words[n] = Word8(r.words[n])
ExpectedSrcImports(r) ==
    IF r.creator = BMC THEN <<SrcModName(r.creator), OsrcTarget(r.ascii)>> ELSE <<SrcModName(r.creator)>>
SrcFailing(r) ==
    {x \in {"SrcModuleName", "SrcArgs", "SrcDetails", "SrcContained", "SrcNothingImported", "NothingLoaded"} :
       \/ x = "SrcModuleName" /\ r.plugins /\ Dedup(r.imports, {}) # ExpectedSrcImports(r)
       \/ x = "SrcArgs" /\ r.plugins /\ r.beh \notin {"absent", "importfails"} /\ r.fixture
             /\ (Len(r.calls) # 1 \/ (Len(r.calls) = 1 /\ ~SrcArgsOK(r, r.calls[1])))
       \/ x = "SrcDetails" /\ (r.has_details # (r.plugins /\ r.beh = "ok"))
       \/ x = "SrcDetails" /\ r.has_details /\ r.details_canon # r.expect_canon
       \/ x = "SrcContained" /\ r.others # r.others_ok
       \/ x = "SrcNothingImported" /\ ~r.plugins /\ (r.imports # <<>> \/ r.calls # <<>>)
       \/ x = "NothingLoaded" /\ ~r.plugins /\ r.modules_after # r.modules_before }

\* r.kind = "src2": one BMC PEL with a primary and a secondary SRC (asciis), import caches empty before it:
\*   imports, call_mods (the module each fixture call arrived in, in order), present (per SRC: does its
\*   target module exist)
Src2Failing(r) ==
    LET targets == [k \in 1..Len(r.asciis) |-> OsrcTarget(r.asciis[k])] IN
    {x \in {"Src2ModuleNames", "Src2CallOrder", "Src2Details"} :
       \* however the first parser behaved, the second SRC gets what its own parser says
       \/ x = "Src2Details" /\ r.details # r.want_details
       \/ x = "Src2ModuleNames" /\ Dedup(r.imports, {}) # Dedup(<<SrcModName(BMC)>> \o targets, {})
       \/ x = "Src2CallOrder" /\ r.call_mods # SelectSeq(targets, LAMBDA t : \E k \in 1..Len(targets) : targets[k] = t /\ r.present[k]) }

(* ---- the I/O drawer plug-in (C18) ---------------------------------------- *)
\* r.kind = "m2c00": sub, ver, is_object, keys (seq of strings), lines, standalone (lines of the
\*   stand-alone decoder the statement names for (sub, ver); <<>> when none), has_error
DrawerKey(sub) == CASE sub = 72 -> "History Log" [] sub = 73 -> "ILOG" [] sub = 84 -> "Trace" [] OTHER -> "Data"
M2Failing(r) ==
    {x \in {"AlwaysObject", "DrawerRouting", "DrawerDecoder", "DrawerVersion"} :
       \/ x = "AlwaysObject" /\ ~r.is_object
       \/ x = "DrawerRouting" /\ r.is_object /\ r.ver \in {1, 2} /\ r.keys # <<DrawerKey(r.sub)>>
       \/ x = "DrawerDecoder" /\ r.is_object /\ r.ver \in {1, 2} /\ r.lines # r.standalone
       \/ x = "DrawerVersion" /\ r.is_object /\ r.ver \notin {1, 2} /\ r.sub \in {72, 73, 84}
             /\ ~(r.has_error /\ Lossless(r.lines, r.payload)) }

(* ---- callout procedure descriptions (C18) -------------------------------- *)
\* r.kind = "callout": creator, plugins, beh, imports (under calloutparsers.), has_desc, others, others_ok
CoFailing(r) ==
    {x \in {"CalloutModuleName", "CalloutDescription", "CalloutContained", "CalloutNothingImported"} :
       \/ x = "CalloutModuleName" /\ r.plugins /\ Dedup(r.imports, {}) # <<CalloutModName(r.creator)>>
       \/ x = "CalloutDescription" /\ (r.has_desc # (r.plugins /\ r.beh = "ok"))
       \/ x = "CalloutContained" /\ r.others # r.others_ok
       \/ x = "CalloutNothingImported" /\ ~r.plugins /\ r.imports # <<>> }

Failing(r) ==
    IF ~r.shape_ok THEN {"Shape"}
    ELSE IF r.family = "C04" THEN C04Failing(r)
    ELSE CASE r.kind = "ud" -> C04Failing(r) \cup C18Failing(r)
           [] r.kind = "src" -> SrcFailing(r)
           [] r.kind = "src2" -> Src2Failing(r)
           [] r.kind = "m2c00" -> M2Failing(r)
           [] r.kind = "callout" -> CoFailing(r)

Init == i = 0 /\ TLCSet(1, 0)
Next == /\ i < Len(Recs)
        /\ i' = i + 1
        /\ LET r == Recs[i + 1]
               f == Failing(r)
           IN  IF f = {} THEN TRUE
               ELSE PrintT(<<"REJECT", r.id, f>>) /\ TLCSet(1, TLCGet(1) + 1)
Spec == Init /\ [][Next]_i
Post == /\ PrintT(<<"JUDGED", Len(Recs), TLCGet(1), TLCGet("stats").diameter>>)
        /\ TLCGet(1) = 0
        /\ TLCGet("stats").diameter - 1 = Len(Recs)
=============================================================================
