----------------------------- MODULE Trace_C20 -----------------------------
(* Judge for C20: the real ParserData / oe500 parsers against HwDiags.tla.    *)
(*  kind "sig"     : words (3 x 8 hex characters), chips, out [chip, sig,     *)
(*                   attn], raised, path ("direct" | "src" | "ud")            *)
(*  kind "regdump" : payload, chips, lines, raised                            *)
(*  kind "scratch" : payload (24 bytes), pairs (seq of [key, val]), raised    *)
(*  kind "scratchsig" : payload (8 bytes), chipid, sigid, raised              *)
(*  kind "ffdc"    : canon, expect_canon, raised                              *)
EXTENDS HwDiags, TLC, TLCExt, Json, IOUtils

Recs == ndJsonDeserialize(IOEnv.TRACE_FILE)
VARIABLE i
OX(bs) == <<48, 120>> \o HexLowerOf(bs)

Failing(r) ==
    IF ~r.shape_ok THEN {"Shape"}
    ELSE IF r.raised THEN {"NeverError"}
    ELSE CASE r.kind = "sig" ->
                LET exp == Signature(r.chips, r.words[1], r.words[2], r.words[3]) IN
                {x \in {"ChipDesc", "Signature", "AttnType"} :
                    \/ x = "ChipDesc" /\ r.out.chip # exp.chip
                    \/ x = "Signature" /\ r.out.sig # exp.sig
                    \/ x = "AttnType" /\ r.out.attn # exp.attn }
           [] r.kind = "regdump" -> {x \in {"RegisterDump"} : r.lines # RegisterDump(r.chips, r.payload)}
           [] r.kind = "scratch" ->
                {x \in {"ScratchRegisters"} :
                    r.pairs # << [key |-> OX(SubSeq(r.payload, 1, 4)), val |-> OX(SubSeq(r.payload, 5, 8))],
                                 [key |-> OX(SubSeq(r.payload, 9, 16)), val |-> OX(SubSeq(r.payload, 17, 24))] >> }
           [] r.kind = "scratchsig" ->
                {x \in {"ScratchSignature"} :
                    r.chipid # OX(SubSeq(r.payload, 1, 4)) \/ r.sigid # OX(SubSeq(r.payload, 5, 8)) }
           [] r.kind = "ffdc" -> {x \in {"CalloutFFDC"} : r.canon # r.expect_canon}

Init == i = 0 /\ TLCSet(1, 0)
Next == /\ i < Len(Recs)
        /\ i' = i + 1
        /\ LET r == Recs[i + 1]
               f == Failing(r)
           IN  IF f = {} THEN TRUE
               ELSE PrintT(<<"REJECT", r.id, f>>) /\ TLCSet(1, TLCGet(1) + 1)
Spec == Init /\ [][Next]_i
Post == /\ PrintT(<<"JUDGED", Len(Recs), TLCGet(1), TLCGet("stats").diameter>>)
        /\ TLCGet(1) = 0
        /\ TLCGet("stats").diameter - 1 = Len(Recs)
=============================================================================
