------------------------------ MODULE Trace_Dir ------------------------------
(* Judge for the directory modes: C08 (count / list / all agree, file-name     *)
(* order), C09 (undecodable files never disturb the others), C10 (look-ups).   *)
(* files : seq of [name (code points), kind "pel" | junk kind | "dir", sev,    *)
(*         flags, eid, plid, bmc (4 bytes each), ref (8 code points)]          *)
EXTENDS Integers, Sequences, FiniteSets, TLC, TLCExt, Json, IOUtils

Sel == INSTANCE Selection
PD == INSTANCE PelDir WITH Universe <- {}, Ids <- {}, BreakOuter <- TRUE, BreakInner <- TRUE,
                           tree <- {}, cmd <- [kind |-> "idle"], before <- {}, walk <- <<>>,
                           di <- 1, fi <- 1, found <- FALSE, phase <- "idle"

Recs == ndJsonDeserialize(IOEnv.TRACE_FILE)
VARIABLE i
SeqRange(s) == {s[k] : k \in 1..Len(s)}
Reverse(s) == [k \in 1..Len(s) |-> s[Len(s) + 1 - k]]

Opt(o) == [every |-> o.every, sv |-> o.sv, nsv |-> o.nsv, hid |-> o.hid, term |-> o.term, only |-> o.only,
           sevs |-> SeqRange(o.sevs), lookup |-> o.lookup]

\* ascending file-name order (code-point order, as Python sorts str)
RECURSIVE SortByName(_)
SortByName(S) == IF S = {} THEN <<>>
                 ELSE LET m == CHOOSE x \in S : \A y \in S : x = y \/ PD!SeqLess(x.name, y.name)
                      IN  <<m>> \o SortByName(S \ {m})

Pels(r) == {f \in SeqRange(r.files) : f.kind = "pel"}
ExtOK(f, ext) == ext = <<>> \/ PD!Ext(f.name) = ext
Selected(r, o) == {f \in Pels(r) : ExtOK(f, r.ext) /\ Sel!RuleSet(f.sev, f.flags, o) = {TRUE}}
Expected(r, rev) == LET s == SortByName(Selected(r, Opt(r.o))) IN IF rev THEN Reverse(s) ELSE s
Ids(s) == [k \in 1..Len(s) |-> s[k].eid]

SummaryOf(e) == [src |-> e.src, plid |-> e.plid, creator |-> e.creator, subsystem |-> e.subsystem,
                 commit |-> e.commit, sev |-> e.sev, comp |-> e.comp]

C08Failing(r) ==
    LET exp == Ids(Expected(r, r.rev)) IN
    {x \in {"UniqueNames", "CountEq", "ListIds", "AllIds", "HexListIds", "HexAllIds", "SummaryFields", "ExitZero"} :
       \/ x = "UniqueNames" /\ Cardinality({f.name : f \in SeqRange(r.files)}) # Len(r.files)
       \/ x = "CountEq" /\ r.count # Len(exp)
       \/ x = "ListIds" /\ Ids(r.list) # exp
       \/ x = "AllIds" /\ Ids(r.all) # exp
       \/ x = "HexListIds" /\ r.hexlist # exp
       \/ x = "HexAllIds" /\ r.hexall # exp
       \/ x = "SummaryFields" /\ Len(r.list) = Len(r.all)
             /\ \E k \in 1..Len(r.list) : SummaryOf(r.list[k]) # SummaryOf(r.all[k])
       \/ x = "ExitZero" /\ r.exits # <<0, 0, 0, 0, 0>> }

C09Failing(r) ==
    {x \in {"JunkIsJunk", "ExitZero", "OneJsonDocument", "OthersUnchanged", "JsonFilesUnchanged", "NoFileForJunk",
            "BaselineSane"} :
       \/ x = "JunkIsJunk" /\ \E k \in 1..Len(r.junk) : r.junk[k].decodable_alone
       \/ x = "ExitZero" /\ r.with.exit # 0
       \/ x = "OneJsonDocument" /\ ~r.with.wellformed
       \/ x = "OthersUnchanged" /\ r.with.out # r.base.out
       \/ x = "JsonFilesUnchanged" /\ r.mode = "json" /\ r.with.files # r.base.files
       \/ x = "NoFileForJunk" /\ r.mode = "json" /\ r.with.extra_files # <<>>
       \/ x = "BaselineSane" /\ (r.base.exit # 0 \/ ~r.base.wellformed) }

\* look-ups (no selection options): every PEL is considered
ByPlid(r, x) == {f.eid : f \in {g \in Pels(r) : g.plid = x}}
ByBmc(r, n) == {f.eid : f \in {g \in Pels(r) : g.bmc = n}}
ByName(r, id) == {f.eid : f \in {g \in Pels(r) : PD!Contains(g.name, id)}}
BySrc(r, s) == {f.eid : f \in {g \in Pels(r) : PD!Contains(g.ref, s)}}
\* --src-exclude: the file names reference codes, one per line.  A PEL whose reference code IS one of the
\* lines must not be listed; one whose reference code occurs nowhere in the file must be listed; a code that
\* is only part of a longer line is "in the file" under one reading and not under another - not demanded.
MustExclude(r, codes) == {f.eid : f \in {g \in Pels(r) : g.ref \in SeqRange(codes)}}
\* (a PEL that HAS no reference code - no SRC section, or a blank one - is neither demanded nor forbidden)
MustList(r, codes) == {f.eid : f \in {g \in Pels(r) : g.ref # <<>> /\ \A k \in 1..Len(codes) : ~PD!Contains(codes[k], g.ref)}}
SrcExcludeOK(r, codes) == /\ MustList(r, codes) \subseteq SeqRange(r.result)
                          /\ SeqRange(r.result) \cap MustExclude(r, codes) = {}
                          /\ SeqRange(r.result) \subseteq {f.eid : f \in Pels(r)}

C10Failing(r) ==
    LET q == r.q IN
    {x \in {"PlidExact", "BmcIdFound", "IdFound", "SrcExact", "SrcExcludeExact", "NotFoundReport", "ExitZero",
            "NoDuplicates"} :
       \/ x = "PlidExact" /\ q.kind = "plid" /\ SeqRange(r.result) # ByPlid(r, q.x)
       \/ x = "SrcExact" /\ q.kind = "src" /\ SeqRange(r.result) # BySrc(r, q.s)
       \/ x = "SrcExcludeExact" /\ q.kind = "srcex" /\ ~SrcExcludeOK(r, q.codes)
       \/ x = "NoDuplicates" /\ Cardinality(SeqRange(r.result)) # Len(r.result)
       \/ x = "BmcIdFound" /\ q.kind = "bmc"
             /\ ~ IF ByBmc(r, q.n) = {} THEN r.shown = <<>> ELSE (Len(r.shown) = 1 /\ r.shown[1] \in ByBmc(r, q.n))
       \/ x = "IdFound" /\ q.kind = "id"
             /\ ~ IF ByName(r, q.id) = {} THEN r.shown = <<>> ELSE (Len(r.shown) = 1 /\ r.shown[1] \in ByName(r, q.id))
       \/ x = "NotFoundReport" /\ q.kind \in {"bmc", "id"} /\ (r.not_found # (r.shown = <<>>))
       \/ x = "ExitZero" /\ r.exit # 0 }

Failing(r) ==
    IF ~r.shape_ok THEN {"Shape"}
    ELSE CASE r.family = "C08" -> C08Failing(r)
           [] r.family = "C09" -> C09Failing(r)
           [] r.family = "C10" -> C10Failing(r)

Init == i = 0 /\ TLCSet(1, 0)
Next == /\ i < Len(Recs)
        /\ i' = i + 1
        /\ LET r == Recs[i + 1]
               f == Failing(r)
           IN  IF f = {} THEN TRUE
               ELSE PrintT(<<"REJECT", r.id, f>>) /\ TLCSet(1, TLCGet(1) + 1)
Spec == Init /\ [][Next]_i
Post == /\ PrintT(<<"JUDGED", Len(Recs), TLCGet(1), TLCGet("stats").diameter>>)
        /\ TLCGet(1) = 0
        /\ TLCGet("stats").diameter - 1 = Len(Recs)
=============================================================================
