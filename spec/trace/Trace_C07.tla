----------------------------- MODULE Trace_C07 -----------------------------
(* Judge for C07: verdicts recorded from the real considerPEL / the real CLI  *)
(* are compared with Selection!RuleSet.  Records (NDJSON, IOEnv.TRACE_FILE):  *)
(*  kind "bitmap": o, sevs (seq), flags (seq), v (seq: per severity a bit    *)
(*                 mask, bit j-1 = verdict for flags[j])                      *)
(*  kind "cli"   : o, pels (seq of [sev, flags, eid]), selected (seq of eid), *)
(*                 mode, exit, count                                          *)
EXTENDS Selection, Sequences, TLC, TLCExt, Json, IOUtils

Recs == ndJsonDeserialize(IOEnv.TRACE_FILE)
VARIABLE i

SeqRange(s) == {s[k] : k \in 1..Len(s)}
Pow2(n) == IF n = 0 THEN 1 ELSE 2 ^ n
Opt(r) == [every |-> r.o.every, sv |-> r.o.sv, nsv |-> r.o.nsv, hid |-> r.o.hid,
           term |-> r.o.term, only |-> r.o.only, sevs |-> SeqRange(r.o.sevs),
           lookup |-> r.o.lookup]

BitmapOK(r) ==
    LET o == Opt(r) IN
    \A k \in 1..Len(r.sevs) : \A j \in 1..Len(r.flags) :
        BitOn(r.v[k], Pow2(j - 1)) \in RuleSet(r.sevs[k], r.flags[j], o)

\* CLI: the set of entry ids shown is exactly the set the rule selects; the
\* statement's ambiguity for severities 0x01..0x0F is resolved per PEL.
MaySelect(r)  == {r.pels[k].eid : k \in {j \in 1..Len(r.pels) :
                      TRUE \in RuleSet(r.pels[j].sev, r.pels[j].flags, Opt(r))}}
MustSelect(r) == {r.pels[k].eid : k \in {j \in 1..Len(r.pels) :
                      RuleSet(r.pels[j].sev, r.pels[j].flags, Opt(r)) = {TRUE}}}
CliOK(r) ==
    r.mode # "count" =>
        LET shown == SeqRange(r.selected)
        IN  MustSelect(r) \subseteq shown /\ shown \subseteq MaySelect(r)

CliCount(r) ==
    IF r.mode = "count"
    THEN Cardinality(MustSelect(r)) <= r.count /\ r.count <= Cardinality(MaySelect(r))
    ELSE r.count = Len(r.selected) /\ Cardinality(SeqRange(r.selected)) = Len(r.selected)
CliExit(r)  == r.exit = 0

Failing(r) ==
    IF ~r.shape_ok THEN {"Shape"}
    ELSE IF ~Constrained(Opt(r)) THEN {"OutsideStatement"}
    ELSE IF r.kind = "bitmap" THEN {c \in {"Verdict"} : ~BitmapOK(r)}
    ELSE {c \in {"CliSelection", "CliCount", "CliExit"} :
             \/ c = "CliSelection" /\ ~CliOK(r)
             \/ c = "CliCount" /\ ~CliCount(r)
             \/ c = "CliExit" /\ ~CliExit(r)}

Init == i = 0 /\ TLCSet(1, 0)
Next == /\ i < Len(Recs)
        /\ i' = i + 1
        /\ LET r == Recs[i + 1]
               f == Failing(r)
           IN  IF f = {} THEN TRUE
               ELSE PrintT(<<"REJECT", r.id, f>>) /\ TLCSet(1, TLCGet(1) + 1)
Spec == Init /\ [][Next]_i
Post == /\ PrintT(<<"JUDGED", Len(Recs), TLCGet(1), TLCGet("stats").diameter>>)
        /\ TLCGet(1) = 0
        /\ TLCGet("stats").diameter - 1 = Len(Recs)
=============================================================================
