----------------------------- MODULE Trace_C12 -----------------------------
(* Judge for C12.  One record = one run of the real code (`-j -c` through    *)
(* parseAndWriteOutput or main(), `-f F -c` through main()) under one fault  *)
(* schedule emitted by Gen_CleanWrite.  The recorded event sequence          *)
(* (open/write/flush/close outcomes observed at the I/O seam, and the        *)
(* unlink) is folded through the effect operators of CleanWrite.tla and      *)
(* CleanWrite!SafeSt is evaluated in EVERY state it passes through - so an   *)
(* unlink placed before the close is rejected even when no fault fires.      *)
EXTENDS Naturals, Sequences, TLC, TLCExt, Json, IOUtils

CW == INSTANCE CleanWrite WITH Variant <- "repaired", pc <- "done", mode <- "json", fault <- "none",
                               input <- "present", out <- "absent", failed <- FALSE

Recs == ndJsonDeserialize(IOEnv.TRACE_FILE)
VARIABLE i

Known == {"open_ok", "open_fail", "write_ok", "write_fail", "write_short", "flush_ok", "flush_fail",
          "close_ok", "close_fail", "remove"}

Apply(s, e, m) ==
    CASE e = "open_ok"    -> CW!EOpenOk(s)
      [] e = "open_fail"  -> s
      [] e = "write_ok"   -> CW!EWriteOk(s)
      [] e = "write_fail" -> CW!EWriteFail(s)
      [] e = "write_short" -> CW!EWriteFail(s)     \* a partial write: no exception, but the data is incomplete
      [] e = "flush_ok"   -> CW!EFlushOk(s, m)
      [] e = "flush_fail" -> CW!EFlushFail(s)
      [] e = "close_ok"   -> CW!ECloseOk(s)
      [] e = "close_fail" -> CW!ECloseFail(s)
      [] e = "remove"     -> CW!ERemove(s)

RECURSIVE After(_, _, _)
After(ev, k, m) == IF k = 0 THEN CW!EStart ELSE Apply(After(ev, k - 1, m), ev[k], m)

SafeEverywhere(r) == \A k \in 0..Len(r.events) : CW!SafeSt(After(r.events, k, r.mode))
Final(r) == After(r.events, Len(r.events), r.mode)

\* kind "crash": the process was killed at one point of the protocol (r.err names it); only the disk
\* state is known, and CleanWrite!Safe must hold on it: the input is gone only if the output is complete
CrashFailing(r) ==
    {c \in {"CrashSafe", "Untouched"} :
        \/ c = "CrashSafe" /\ ~CW!SafeSt(CW!St(IF r.input_present_after THEN "present" ELSE "removed",
                                                IF r.out_complete THEN "complete" ELSE "partial", FALSE))
        \/ c = "Untouched" /\ r.input_present_after /\ ~r.input_unchanged }

\* kind "multi": one behaviour of CleanWriteN (several files; every step of every file may fail, the process may
\* die) emitted by TLC and REPLAYED through the real `-j -c`: r.files = per file the final state of the
\* behaviour (spec_input, spec_out) and the state of the disk afterwards (real_input, real_out in "absent" |
\* "incomplete" | "complete").  The disk must agree with the behaviour, and CleanWriteN!Safe must hold on it.
MultiFailing(r) ==
    {c \in {"MultiSafe", "MultiInput", "MultiOutput"} :
        \/ c = "MultiSafe" /\ \E k \in 1..Len(r.files) :
                                 r.files[k].real_input = "removed" /\ r.files[k].real_out # "complete"
        \/ c = "MultiInput" /\ \E k \in 1..Len(r.files) : r.files[k].real_input # r.files[k].spec_input
        \/ c = "MultiOutput" /\ \E k \in 1..Len(r.files) :
                                   \/ (r.files[k].spec_out = "absent") # (r.files[k].real_out = "absent")
                                   \/ r.files[k].spec_out = "complete" /\ r.files[k].real_out # "complete" }

Failing(r) ==
    IF ~r.shape_ok \/ \E k \in 1..Len(r.events) : r.events[k] \notin Known THEN {"Shape"}
    ELSE IF r.kind = "crash" THEN CrashFailing(r)
    ELSE IF r.kind = "multi" THEN MultiFailing(r)
    ELSE {c \in {"Safe", "ModelMatchesDisk", "RemovedOnlyIfComplete", "Untouched", "NoRemoveWithoutClean",
                 "OneRemoveAtMost"} :
          \/ c = "Safe" /\ ~SafeEverywhere(r)
          \/ c = "ModelMatchesDisk" /\ ((Final(r).input = "present") # r.input_present_after)
          \/ c = "RemovedOnlyIfComplete" /\ ~r.input_present_after /\ ~r.out_complete
          \/ c = "Untouched" /\ r.input_present_after /\ ~r.input_unchanged
          \/ c = "NoRemoveWithoutClean" /\ ~r.clean /\ ~r.input_present_after
          \/ c = "OneRemoveAtMost" /\ Len(SelectSeq(r.events, LAMBDA e : e = "remove")) > 1 }

Init == i = 0 /\ TLCSet(1, 0)
Next == /\ i < Len(Recs)
        /\ i' = i + 1
        /\ LET r == Recs[i + 1]
               f == Failing(r)
           IN  IF f = {} THEN TRUE
               ELSE PrintT(<<"REJECT", r.id, f>>) /\ TLCSet(1, TLCGet(1) + 1)
Spec == Init /\ [][Next]_i
Post == /\ PrintT(<<"JUDGED", Len(Recs), TLCGet(1), TLCGet("stats").diameter>>)
        /\ TLCGet(1) = 0
        /\ TLCGet("stats").diameter - 1 = Len(Recs)
=============================================================================
