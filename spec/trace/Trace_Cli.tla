----------------------------- MODULE Trace_Cli -----------------------------
(* Judge for the command-line model (extra check X01 - not a listed          *)
(* property).  One record = one real peltool.main() run with the mode        *)
(* functions replaced by recorders:                                          *)
(*   named, clean, env   the command line and what the file system answers   *)
(*   calls               names of the mode functions main() called, in order *)
(*   status              exit status (an exit with a message counts 1)       *)
(*   removed             main() deleted the input of -f                      *)
(*   opts                the selection options given                         *)
(*   config              the configuration object the mode function received *)
(*   lookup              [field, value] the look-up argument handed over     *)
(*   nmatch              top-level files with the extension asked for        *)
EXTENDS Naturals, Sequences, FiniteSets, TLC, TLCExt, Json, IOUtils, SequencesExt

C == INSTANCE Cli WITH named <- {}, clean <- FALSE, env <- [hasPath |-> TRUE], pc <- 0, ran <- <<>>, status <- 0,
                       removed <- FALSE

Recs == ndJsonDeserialize(IOEnv.TRACE_FILE)
VARIABLE i

SeqRange(s) == {s[k] : k \in 1..Len(s)}
RECURSIVE Dedup(_)
Dedup(s) == IF Len(s) <= 1 THEN s
            ELSE IF s[1] = s[2] THEN Dedup(Tail(s)) ELSE <<s[1]>> \o Dedup(Tail(s))

Want(r) == C!RuleOutcome(SeqRange(r.named), r.clean, r.env)

\* the field of the configuration that carries a look-up mode's argument
LookupField(m) == CASE m = "id" -> "pelID" [] m = "bmcid" -> "bmcID" [] m = "plid" -> "plid" [] m = "src" -> "src"
                    [] m = "srcex" -> "srcExcludeFile" [] OTHER -> "none"

Failing(r) ==
    IF ~r.shape_ok THEN {"Shape"}
    ELSE LET w == Want(r) IN
      {c \in {"Mode", "Status", "Removed", "Config", "Lookup"} :
         \/ c = "Mode" /\ IF w.mode = "json"
                           THEN \* --json calls its function once per top-level file with the wanted extension
                                r.calls # [k \in 1..r.nmatch |-> C!Handler("json")]
                           ELSE r.calls # (IF w.mode = "none" THEN <<>> ELSE <<C!Handler(w.mode)>>)
         \/ c = "Status" /\ r.status # w.status
         \/ c = "Removed" /\ r.removed # w.removed
         \/ c = "Config" /\ w.mode \notin {"none", "delete", "deleteall"} /\ r.calls # <<>> /\ r.config # C!ConfigOf(r.opts)
         \/ c = "Lookup" /\ LookupField(w.mode) # "none" /\ r.calls # <<>>
                         /\ r.lookup # [field |-> LookupField(w.mode), value |-> r.given[w.mode]] }

Init == i = 0 /\ TLCSet(1, 0)
Next == /\ i < Len(Recs)
        /\ i' = i + 1
        /\ LET r == Recs[i + 1]
               f == Failing(r)
           IN  IF f = {} THEN TRUE
               ELSE PrintT(<<"REJECT", r.id, f>>) /\ TLCSet(1, TLCGet(1) + 1)
Spec == Init /\ [][Next]_i
Post == /\ PrintT(<<"JUDGED", Len(Recs), TLCGet(1), TLCGet("stats").diameter>>)
        /\ TLCGet(1) = 0
        /\ TLCGet("stats").diameter - 1 = Len(Recs)
=============================================================================
