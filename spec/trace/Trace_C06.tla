----------------------------- MODULE Trace_C06 -----------------------------
(* Judge for C06.  One record = one call of the real prettyPrint (captured   *)
(* at the module seam while the decoder / CLI ran, or called directly on     *)
(* json.dumps of a generated document): input lines, output lines (code      *)
(* points), and whether the printed text parsed back to an equal document.   *)
EXTENDS PrettyPrint, TLC, TLCExt, Json, IOUtils

Recs == ndJsonDeserialize(IOEnv.TRACE_FILE)
VARIABLE i

Failing(r) ==
    IF ~r.shape_ok THEN {"Shape"}
    ELSE {c \in {"SameLineCount", "LineAllowed", "RoundTrip", "ValidJson"} :
          \/ c = "SameLineCount" /\ Len(r.inl) # Len(r.outl)
          \/ c = "LineAllowed" /\ Len(r.inl) = Len(r.outl)
                               /\ \E k \in 1..Len(r.inl) : ~Allowed(r.inl[k], r.outl[k])
          \/ c = "ValidJson" /\ ~r.parses
          \/ c = "RoundTrip" /\ ~r.roundtrip }

Init == i = 0 /\ TLCSet(1, 0)
Next == /\ i < Len(Recs)
        /\ i' = i + 1
        /\ LET r == Recs[i + 1]
               f == Failing(r)
           IN  IF f = {} THEN TRUE
               ELSE PrintT(<<"REJECT", r.id, f>>) /\ TLCSet(1, TLCGet(1) + 1)
Spec == Init /\ [][Next]_i
Post == /\ PrintT(<<"JUDGED", Len(Recs), TLCGet(1), TLCGet("stats").diameter>>)
        /\ TLCGet(1) = 0
        /\ TLCGet("stats").diameter - 1 = Len(Recs)
=============================================================================
