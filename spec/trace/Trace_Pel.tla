------------------------------ MODULE Trace_Pel ------------------------------
(* Judge for the PEL decoder properties C01 (structure), C02 (header-type     *)
(* sections), C03 (SRC).  One record = one abstract PEL (PelFormat syntax),   *)
(* the bytes the harness encoder produced for it, and what the real parsePEL  *)
(* made of those bytes, projected by harness/project.py.                      *)
(* r.family selects the clause family; EncoderAgrees and WellFormed are       *)
(* evaluated for every record, so the harness encoder and generator are       *)
(* judged too.                                                                *)
EXTENDS PelFormat, PelDisplay, PelNaming, TLC, TLCExt, Json, IOUtils

Recs == ndJsonDeserialize(IOEnv.TRACE_FILE)
VARIABLE i

SeqRange(s) == {s[k] : k \in 1..Len(s)}
Prefixed(p, S) == {p \o f : f \in S}

(* ---- C01 ---------------------------------------------------------------- *)
Names(pel) == [k \in 1..Len(pel.secs) |-> SectionName(pel.secs[k].id)]
ExpectedKeys(pel) == <<"Private Header", "User Header">>
                     \o NumberedKeys(Names(pel))

C01Failing(r) ==
    {c \in {"Decoded", "OneEntryPerSection", "Names", "Compositional", "Cursor", "Boundaries", "NothingOnStdout"} :
        \/ c = "Decoded" /\ r.outcome # "doc"
        \/ c = "OneEntryPerSection" /\ r.outcome = "doc" /\ Len(r.keys) # 2 + Len(r.abs.secs)
        \/ c = "Names" /\ r.outcome = "doc" /\ r.keys # ExpectedKeys(r.abs)
        \/ c = "Compositional" /\ r.outcome = "doc" /\ r.digests # r.alone
        \* (a decode made by the tool as a separate process shows its document, not its cursor)
        \/ c = "Cursor" /\ r.outcome = "doc" /\ r.cursor_seen /\ r.final_index # Len(r.bytes)
        \/ c = "Boundaries" /\ r.outcome = "doc" /\ r.cursor_seen
              /\ r.boundaries # [k \in 1..Len(r.abs.secs) |->
                                    <<Boundaries(r.abs)[k], Boundaries(r.abs)[k + 1]>>]
        \/ c = "NothingOnStdout" /\ r.stdout_len # 0 }

(* ---- C02 ---------------------------------------------------------------- *)
\* Action Flags arrive as the printed list: exactly the set, nothing twice
NormUH(a) == [a EXCEPT !.flags = SeqRange(@)]
SecMismatch(s, shown, creator, env) ==
    CASE s.kind = "EH" -> Prefixed("EH.", Mismatch(ShowEH(s, creator, env), shown))
      [] s.kind = "MT" -> Prefixed("MT.", Mismatch(ShowMT(s, creator, env), shown))
      [] s.kind = "LP" -> Prefixed("LP.", Mismatch(ShowLP(s, creator, env), shown))
      [] OTHER -> {}
C02Failing(r) ==
    IF r.outcome # "doc" THEN {"Decoded"}
    ELSE Prefixed("PH.", Mismatch(ShowPH(r.abs.ph, r.env), r.shown.ph))
         \cup Prefixed("UH.", Mismatch(ShowUH(r.abs.uh, r.abs.ph.creator, r.env), NormUH(r.shown.uh)))
         \cup {c \in {"UH.flagsTwice"} : Cardinality(SeqRange(r.shown.uh.flags)) # Len(r.shown.uh.flags)}
         \cup (IF Len(r.shown.secs) # Len(r.abs.secs) THEN {"OneEntryPerSection"}
               ELSE UNION {SecMismatch(r.abs.secs[k], r.shown.secs[k], r.abs.ph.creator, r.env)
                           : k \in 1..Len(r.abs.secs)})

(* ---- C03 ---------------------------------------------------------------- *)
CalloutMismatch(exp, act) ==
    IF exp.callouts = <<>> \/ act.callouts = <<>> THEN {}
    ELSE LET e == exp.callouts[1]  a == act.callouts[1] IN
         {c \in {"SRC.CalloutCount"} : a.count # e.count \/ Len(a.list) # Len(e.list)}
         \cup (IF Len(a.list) # Len(e.list) THEN {}
               ELSE UNION {Prefixed("SRC.Callout.", Mismatch(e.list[k], a.list[k])) : k \in 1..Len(e.list)})
\* registry message: %1..%9 replaced by hex(word) of the listed sources
HexNoPad(bs) ==                       \* Python hex(): 0x + lower-case digits without leading zeros
    LET d == FoldLeft(LAMBDA acc, b : acc \o Hex2L(b), <<>>, bs)
        nz == {k \in 1..Len(d) : d[k] # 48}
    IN  <<48, 120>> \o (IF nz = {} THEN <<48>> ELSE SubSeq(d, CHOOSE k \in nz : \A j \in nz : k <= j, Len(d)))
RECURSIVE FillMsg(_, _, _, _)
FillMsg(msg, args, words, n) ==        \* n = number of placeholders filled so far
    IF msg = <<>> THEN <<>>
    ELSE IF Len(msg) >= 2 /\ msg[1] = 37 /\ msg[2] \in 49..57
         THEN HexNoPad(words[args[n + 1] - 1]) \o FillMsg(SubSeq(msg, 3, Len(msg)), args, words, n + 1)
         ELSE <<msg[1]>> \o FillMsg(Tail(msg), args, words, n)
ExpectedMessage(s, env) ==
    IF ~(IsBmcSrc(s) \/ IsHbSrc(s)) \/ RegHits(s, env) = <<>> THEN ABSENT
    ELSE LET e == RegHits(s, env)[1] IN
         IF e.message = <<>> THEN ABSENT
         ELSE IF e.args = <<>> THEN e.message ELSE FillMsg(e.message, e.args, s.words, 0)
C03Failing(r) ==
    IF r.outcome # "doc" THEN {"Decoded"}
    ELSE IF Len(r.shown.secs) # Len(r.abs.secs) THEN {"OneEntryPerSection"}
    ELSE UNION { IF r.abs.secs[k].kind # "SRC" THEN {}
                 ELSE LET exp == ShowSRC(r.abs.secs[k], r.abs.ph.creator, r.env)
                          act == r.shown.secs[k]
                      IN  Prefixed("SRC.", Mismatch(exp, act) \ {"callouts"})
                          \cup {c \in {"SRC.CalloutSectionPresence"} :
                                   (exp.callouts = <<>>) # (act.callouts = <<>>)}
                          \cup CalloutMismatch(exp, act)
                          \cup {c \in {"SRC.Message"} : r.messages[k] # ExpectedMessage(r.abs.secs[k], r.env)}
               : k \in 1..Len(r.abs.secs) }

Failing(r) ==
    IF ~r.shape_ok THEN {"Shape"}
    ELSE IF ~WellFormed(r.abs) THEN {"GeneratorNotWellFormed"}
    ELSE IF r.bytes # Encode(r.abs) THEN {"EncoderAgrees"}
    ELSE CASE r.family = "C01" -> C01Failing(r)
           [] r.family = "C02" -> C02Failing(r)
           [] r.family = "C03" -> C03Failing(r)

Init == i = 0 /\ TLCSet(1, 0)
Next == /\ i < Len(Recs)
        /\ i' = i + 1
        /\ LET r == Recs[i + 1]
               f == Failing(r)
           IN  IF f = {} THEN TRUE
               ELSE PrintT(<<"REJECT", r.id, f>>) /\ TLCSet(1, TLCGet(1) + 1)
Spec == Init /\ [][Next]_i
Post == /\ PrintT(<<"JUDGED", Len(Recs), TLCGet(1), TLCGet("stats").diameter>>)
        /\ TLCGet(1) = 0
        /\ TLCGet("stats").diameter - 1 = Len(Recs)
=============================================================================
