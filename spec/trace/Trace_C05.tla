----------------------------- MODULE Trace_C05 -----------------------------
(* Judge for C05.  Every cursor event recorded from the real DataStream,     *)
(* while the real parsePEL decoded an arbitrary byte string, must be a step  *)
(* of the cursor machine of DataStream.tla (Read or ReadRejected - the       *)
(* checked machine, whatever the interpreter's optimisation level); the      *)
(* decode must end in one of the allowed outcomes, a proper prefix of a      *)
(* well-formed PEL must not yield a document, and python / python -O must    *)
(* agree.                                                                    *)
(*                                                                           *)
(* kind "decode": size, prefix (BOOLEAN: proper prefix of a well-formed PEL),*)
(*    outcome, digest, events (flat: op, n, before, after, got, raised ...), *)
(*    outcomeO, digestO, eventsO (same under python -O; <<-1>> = identical)  *)
(* kind "cli": exit, traceback, stdout ("empty" | "json" | "other"),         *)
(*    stderr_empty, prefix, opt                                              *)
EXTENDS Integers, Sequences, TLC, TLCExt, Json, IOUtils

\* the cursor machine, instantiated only for its action predicates
DS == INSTANCE DataStream WITH MaxSize <- 0, Requests <- {}, Checked <- TRUE,
                               index <- 0, size <- 0, status <- "ok", delivered <- 0

Recs == ndJsonDeserialize(IOEnv.TRACE_FILE)
VARIABLE i

NEv(ev) == Len(ev) \div 6
Op(ev, k)     == ev[6 * (k - 1) + 1]
Req(ev, k)    == ev[6 * (k - 1) + 2]
Before(ev, k) == ev[6 * (k - 1) + 3]
After(ev, k)  == ev[6 * (k - 1) + 4]
Got(ev, k)    == ev[6 * (k - 1) + 5]
Raised(ev, k) == ev[6 * (k - 1) + 6] = 1

StepOK(ev, k, sz) ==
    \/ DS!ReadP(Before(ev, k), After(ev, k), sz, Req(ev, k), Got(ev, k), Raised(ev, k))
    \/ DS!ReadRejectedP(Before(ev, k), After(ev, k), sz, Req(ev, k), Got(ev, k), Raised(ev, k))

CursorSteps(ev, sz) == \A k \in 1..NEv(ev) : StepOK(ev, k, sz)
InBounds(ev, sz)    == \A k \in 1..NEv(ev) : 0 <= After(ev, k) /\ After(ev, k) <= sz
Continuous(ev)      == /\ (NEv(ev) > 0 => Before(ev, 1) = 0)
                       /\ \A k \in 1..(NEv(ev) - 1) : Before(ev, k + 1) = After(ev, k)
Bounded(ev, sz)     == NEv(ev) <= 8 * sz + 2048

Same(ev) == ev = <<-1>>

DecodeFailing(r) ==
    LET ev == r.events
        evO == IF Same(r.eventsO) THEN r.events ELSE r.eventsO
    IN  {c \in {"CursorStep", "InBounds", "Continuous", "Bounded", "Outcome", "PrefixRejected",
                "CursorStepO", "InBoundsO", "ContinuousO", "BoundedO", "OutcomeO", "PrefixRejectedO",
                "SameUnderO", "NothingOnStdout"} :
          \/ c = "CursorStep"  /\ ~CursorSteps(ev, r.size)
          \/ c = "InBounds"    /\ ~InBounds(ev, r.size)
          \/ c = "Continuous"  /\ ~Continuous(ev)
          \/ c = "Bounded"     /\ ~Bounded(ev, r.size)
          \/ c = "Outcome"     /\ r.outcome \notin {"doc", "empty", "error"}
          \/ c = "PrefixRejected" /\ r.prefix /\ r.outcome = "doc"
          \/ c = "CursorStepO" /\ ~CursorSteps(evO, r.size)
          \/ c = "InBoundsO"   /\ ~InBounds(evO, r.size)
          \/ c = "ContinuousO" /\ ~Continuous(evO)
          \/ c = "BoundedO"    /\ ~Bounded(evO, r.size)
          \/ c = "OutcomeO"    /\ r.outcomeO \notin {"doc", "empty", "error"}
          \/ c = "PrefixRejectedO" /\ r.prefix /\ r.outcomeO = "doc"
          \/ c = "SameUnderO"  /\ ~(r.outcome = r.outcomeO /\ r.digest = r.digestO /\ r.detail = r.detailO)
          \/ c = "NothingOnStdout" /\ (r.stdout_len # 0 \/ r.stdout_lenO # 0) }

CliFailing(r) ==
    {c \in {"CliExit", "NoTraceback", "StdoutShape", "CliPrefixRejected", "Reported"} :
          \/ c = "CliExit" /\ r.exit \notin {0, 1}
          \/ c = "NoTraceback" /\ r.traceback
          \/ c = "StdoutShape" /\ r.stdout \notin {"empty", "json"}
          \/ c = "CliPrefixRejected" /\ r.prefix /\ r.stdout # "empty"
          \/ c = "Reported" /\ r.stdout = "empty" /\ r.stderr_empty }

Failing(r) ==
    IF ~r.shape_ok THEN {"Shape"}
    ELSE IF r.kind = "decode" THEN DecodeFailing(r)
    ELSE CliFailing(r)

Init == i = 0 /\ TLCSet(1, 0)
Next == /\ i < Len(Recs)
        /\ i' = i + 1
        /\ LET r == Recs[i + 1]
               f == Failing(r)
           IN  IF f = {} THEN TRUE
               ELSE PrintT(<<"REJECT", r.id, f>>) /\ TLCSet(1, TLCGet(1) + 1)
Spec == Init /\ [][Next]_i
Post == /\ PrintT(<<"JUDGED", Len(Recs), TLCGet(1), TLCGet("stats").diameter>>)
        /\ TLCGet(1) = 0
        /\ TLCGet("stats").diameter - 1 = Len(Recs)
=============================================================================
