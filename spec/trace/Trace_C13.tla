----------------------------- MODULE Trace_C13 -----------------------------
(* Judge for C13: the real hexdump() / parse() / --hex output against        *)
(* HexDump.tla.                                                              *)
(*  kind "dump"   : data, bpl, bpc, lines            (real hexdump output)   *)
(*  kind "parse"  : lines, fmt ("default"|"bmc"|"pre"), fmtcp (the constant  *)
(*                  found in the code), result, known (BOOLEAN), data,       *)
(*                  rendered ("no"|"upper"|"lower": lines are exactly the    *)
(*                  harness rendering of data in that format)                *)
(*  kind "hexmode": data (file bytes), lines (stdout of peltool -x)          *)
EXTENDS HexDump, TLC, TLCExt, Json, IOUtils

Recs == ndJsonDeserialize(IOEnv.TRACE_FILE)
VARIABLE i

Fmt(name) == CASE name = "default" -> Template(16, 4) [] name = "bmc" -> FmtBMC [] name = "pre" -> FmtPre

\* What the statement fixes about a dump: one line per started line of data, all
\* lines equally wide, each beginning with its offset; and for the default layout
\* (the one the published line format describes) the bytes can be parsed back.
\* The rendering of the ASCII column and the spacing of other layouts are not
\* fixed by the statement and are not compared.
DumpFailing(r) ==
    LET L == r.lines IN
    {c \in {"LineCount", "EqualWidth", "Offsets", "DefaultParsesBack"} :
       \/ c = "LineCount" /\ Len(L) # CeilDiv(Len(r.data), r.bpl)
       \/ c = "EqualWidth" /\ \E k \in 1..Len(L) : Len(L[k]) # Len(L[1])
       \/ c = "Offsets" /\ \E k \in 1..Len(L) : Len(L[k]) < 8 \/ SubSeq(L[k], 1, 8) # Hex8((k - 1) * r.bpl)
       \/ c = "DefaultParsesBack" /\ r.bpl = 16 /\ r.bpc = 4 /\ Parse(L, Template(16, 4)) # r.data }

ParseFailing(r) ==
    {c \in {"FormatIsPublished", "ParseMatches", "ParseBack", "RendererAgrees"} :
       \/ c = "FormatIsPublished" /\ r.fmtcp # Fmt(r.fmt)
       \* free-form text is outside the statement: only dumps of known data are compared
       \/ c = "ParseMatches" /\ r.known /\ r.result # Parse(r.lines, Fmt(r.fmt))
       \/ c = "ParseBack" /\ r.known /\ r.result # r.data
       \/ c = "RendererAgrees" /\ r.rendered # "no"
             /\ r.lines # (IF r.fmt = "bmc" THEN RenderBMC(r.data, r.rendered = "lower")
                           ELSE IF r.fmt = "pre" THEN RenderPre(r.data, r.rendered = "lower")
                           ELSE r.lines) }

HexModeFailing(r) ==
    \* a begin line, the dump of exactly the file's bytes, an end line; the marker
    \* lines themselves carry no data
    {c \in {"HexMode"} :
        ~ /\ Len(r.lines) >= 2
          /\ Len(r.lines) = 2 + CeilDiv(Len(r.data), 16)
          /\ Parse(SubSeq(r.lines, 2, Len(r.lines) - 1), Template(16, 4)) = r.data
          /\ Parse(r.lines, Template(16, 4)) = r.data }

\* kind "file": lines = a dump file (data rendered in r.fmt plus title / comment / blank lines), result = the
\* bytes the real dump-file reader recovered.  Where the extra lines are comments (they contribute no byte
\* under either format) the reader must recover exactly the data.
FileFailing(r) ==
    LET pure == /\ Parse(r.lines, Fmt(r.fmt)) = r.data
                /\ \A k \in 1..Len(r.lines) :
                      IsComment(r.lines[k]) \/ ParseLine(r.lines[k], Fmt(r.fmt)) # <<>>
                /\ ReadDumpFile(r.lines, <<FmtBMC, FmtPre>>) = r.data
    IN  {c \in {"FileReadsBack"} : pure /\ r.result # r.data}

Failing(r) ==
    IF ~r.shape_ok THEN {"Shape"}
    ELSE IF r.kind = "dump" THEN DumpFailing(r)
    ELSE IF r.kind = "parse" THEN ParseFailing(r)
    ELSE IF r.kind = "file" THEN FileFailing(r)
    ELSE HexModeFailing(r)

Init == i = 0 /\ TLCSet(1, 0)
Next == /\ i < Len(Recs)
        /\ i' = i + 1
        /\ LET r == Recs[i + 1]
               f == Failing(r)
           IN  IF f = {} THEN TRUE
               ELSE PrintT(<<"REJECT", r.id, f>>) /\ TLCSet(1, TLCGet(1) + 1)
Spec == Init /\ [][Next]_i
Post == /\ PrintT(<<"JUDGED", Len(Recs), TLCGet(1), TLCGet("stats").diameter>>)
        /\ TLCGet(1) = 0
        /\ TLCGet("stats").diameter - 1 = Len(Recs)
=============================================================================
