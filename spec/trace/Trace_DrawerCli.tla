-------------------------- MODULE Trace_DrawerCli --------------------------
(* Judge for the drawer-dump command line (extra check X02).  One record =   *)
(* one real run of io_drawer/dump.py main():                                 *)
(*   line      the command line as DrawerCli sees it                         *)
(*   status    exit status                                                   *)
(*   out_same  stdout equals the dump decoded with the files the RULE says   *)
(*             are used (given ones, else those shipped for the type)        *)
(*   out_empty stdout is empty          err_error stderr starts 'Error:'     *)
(*   err_usage stderr holds a usage message                                  *)
EXTENDS Naturals, Sequences, FiniteSets, TLC, TLCExt, Json, IOUtils
D == INSTANCE DrawerCli WITH line <- [type |-> "mex"], pc <- "", status <- 0, shows <- "", hdr <- <<>>, str <- <<>>
Recs == ndJsonDeserialize(IOEnv.TRACE_FILE)
VARIABLE i
Failing(r) ==
    IF ~r.shape_ok THEN {"Shape"}
    ELSE LET w == D!RuleOutcome(r.line) IN
      {c \in {"Status", "Decoded", "NothingShown", "ErrorReport", "Usage"} :
         \/ c = "Status" /\ r.status # w.status
         \/ c = "Decoded" /\ w.shows = "decoded" /\ ~r.out_same
         \/ c = "NothingShown" /\ w.shows = "nothing" /\ ~r.out_empty
         \/ c = "ErrorReport" /\ (w.status = 1) # r.err_error
         \/ c = "Usage" /\ (w.status = 2) # r.err_usage }
Init == i = 0 /\ TLCSet(1, 0)
Next == /\ i < Len(Recs)
        /\ i' = i + 1
        /\ LET r == Recs[i + 1]
               f == Failing(r)
           IN  IF f = {} THEN TRUE
               ELSE PrintT(<<"REJECT", r.id, f>>) /\ TLCSet(1, TLCGet(1) + 1)
Spec == Init /\ [][Next]_i
Post == /\ PrintT(<<"JUDGED", Len(Recs), TLCGet(1), TLCGet("stats").diameter>>)
        /\ TLCGet(1) = 0
        /\ TLCGet("stats").diameter - 1 = Len(Recs)
=============================================================================
