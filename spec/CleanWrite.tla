----------------------------- MODULE CleanWrite -----------------------------
(***************************************************************************)
(* The decode -> emit -> unlink protocol of `--clean` (property C12).      *)
(*                                                                         *)
(* Two command shapes:                                                     *)
(*   mode "json":  peltool -j -c   (parseAndWriteOutput per file)          *)
(*        decode; open output; write (buffered); flush+close; unlink       *)
(*   mode "file":  peltool -f F -c (parseAndPrintPELFile, then main)       *)
(*        decode; print (buffered stdout); flush; unlink                   *)
(*                                                                         *)
(* One action per step the code takes; the environment chooses in Init     *)
(* which step fails (`fault`), and a Crash action is enabled everywhere    *)
(* (the process can be killed at any point).                               *)
(*                                                                         *)
(* Variant "asfound" has the order of the tree as found: in json mode the  *)
(* unlink sits inside the `with open(...)` block, i.e. BEFORE flush+close; *)
(* in file mode the unlink is unconditional and precedes the flush that    *)
(* only happens at interpreter exit.  Variant "repaired" is the order      *)
(* after the fix: commit.                                                  *)
(*                                                                         *)
(* out:  "absent"   nothing emitted (no file / nothing printed)            *)
(*       "open"     output file created, nothing written                   *)
(*       "partial"  some or all data handed to a buffer, not yet durable   *)
(*       "complete" all data written, flushed and (json) closed            *)
(*                                                                         *)
(* The E* operators give the effect of each observable event on (input,    *)
(* out) as a function; the trace judge (Trace_C12) folds them over the     *)
(* event sequence recorded from the real code and evaluates Safe in every  *)
(* state.                                                                  *)
(***************************************************************************)
EXTENDS Naturals, Sequences

CONSTANT Variant            \* "asfound" | "repaired"

Modes  == {"json", "file"}
Faults == {"none", "decode", "filtered", "badheader", "open", "write", "flush", "close"}
\* "badheader": the private/user header id is wrong; in file mode the tool exits with status 1
\* faults that can occur per mode
FaultsOf(m) == IF m = "json" THEN {"none", "decode", "filtered", "badheader", "open", "write", "close"}
                             ELSE {"none", "decode", "filtered", "badheader", "write", "flush"}

VARIABLES pc, mode, fault, input, out, failed
vars == <<pc, mode, fault, input, out, failed>>

(***************************************************************************)
(* Effects of observable events (shared with the trace judge)              *)
(***************************************************************************)
St(i, o, f) == [input |-> i, out |-> o, failed |-> f]
EStart == St("present", "absent", FALSE)
EOpenOk(s)     == [s EXCEPT !.out = "open"]
EWriteOk(s)    == [s EXCEPT !.out = "partial"]
EWriteFail(s)  == [s EXCEPT !.failed = TRUE, !.out = IF s.out = "absent" THEN "absent" ELSE "partial"]
EFlushFail(s)  == [s EXCEPT !.failed = TRUE]
\* a flush / close that succeeds makes the output complete only if nothing failed before it
EFlushOk(s, m) == IF m = "file" /\ ~s.failed /\ s.out = "partial" THEN [s EXCEPT !.out = "complete"] ELSE s
ECloseOk(s)    == IF ~s.failed /\ s.out \in {"open", "partial"} THEN [s EXCEPT !.out = "complete"] ELSE s
ECloseFail(s)  == [s EXCEPT !.failed = TRUE]
ERemove(s)     == [s EXCEPT !.input = "removed"]

SafeSt(s) == s.input = "removed" => s.out = "complete"

(***************************************************************************)
(* The protocol                                                            *)
(***************************************************************************)
Init == /\ mode \in Modes
        /\ fault \in FaultsOf(mode)
        /\ pc = "decode"
        /\ input = "present"
        /\ out = "absent"
        /\ failed = FALSE

Cur == St(input, out, failed)
Set(s) == input' = s.input /\ out' = s.out /\ failed' = s.failed

Goto(l) == pc' = l /\ UNCHANGED <<mode, fault>>

Decode ==
    /\ pc = "decode"
    /\ UNCHANGED <<input, out, failed>>
    /\ IF fault = "decode" THEN
            \* json: exception caught, next file.  file: exception caught inside
            \* parseAndPrintPELFile; as found main still unlinks.
            Goto(IF mode = "file" /\ Variant = "asfound" THEN "remove" ELSE "done")
       ELSE IF fault = "filtered" THEN
            Goto(IF mode = "file" /\ Variant = "asfound" THEN "remove" ELSE "done")
       ELSE IF fault = "badheader" THEN
            \* file mode: sys.exit(1) from inside the decoder - nothing else runs
            Goto("done")
       ELSE Goto(IF mode = "json" THEN "open" ELSE "write")

OpenOut ==
    /\ pc = "open"
    /\ IF fault = "open" THEN UNCHANGED <<input, out, failed>> /\ Goto("done")
       ELSE Set(EOpenOk(Cur)) /\ Goto("write")

Write ==
    /\ pc = "write"
    /\ IF fault = "write"
       THEN /\ Set(EWriteFail(Cur))
            \* json: the with-block exits through close; file: exception caught
            /\ Goto(IF mode = "json" THEN "close_after_failure"
                    ELSE IF Variant = "asfound" THEN "remove" ELSE "done")
       ELSE /\ Set(EWriteOk(Cur))
            /\ Goto(IF mode = "json"
                    THEN (IF Variant = "asfound" THEN "remove" ELSE "close")
                    ELSE (IF Variant = "asfound" THEN "remove" ELSE "flush"))

Flush ==                      \* file mode, repaired: explicit flush before the unlink
    /\ pc = "flush"
    /\ IF fault = "flush" THEN Set(EFlushFail(Cur)) /\ Goto("done")
       ELSE Set(EFlushOk(Cur, mode)) /\ Goto("remove")

Close ==                      \* json mode: leaving the with-block
    /\ pc = "close"
    /\ IF fault = "close" THEN Set(ECloseFail(Cur)) /\ Goto("done")
       ELSE Set(ECloseOk(Cur)) /\ Goto(IF Variant = "asfound" THEN "done" ELSE "remove")

CloseAfterFailure ==
    /\ pc = "close_after_failure"
    /\ Set(ECloseOk(Cur)) /\ Goto("done")

Remove ==
    /\ pc = "remove"
    /\ Set(ERemove(Cur))
    /\ Goto(IF Variant = "asfound" /\ mode = "json" THEN "close"
            ELSE IF Variant = "asfound" /\ mode = "file" THEN "exit_flush" ELSE "done")

ExitFlush ==                  \* file mode as found: stdout is flushed only at interpreter exit
    /\ pc = "exit_flush"
    /\ IF fault = "flush" THEN Set(EFlushFail(Cur)) ELSE Set(EFlushOk(Cur, mode))
    /\ Goto("done")

Crash == /\ pc \notin {"done", "crashed"}
         /\ pc' = "crashed"
         /\ UNCHANGED <<mode, fault, input, out, failed>>

Next == Decode \/ OpenOut \/ Write \/ Flush \/ Close \/ CloseAfterFailure \/ Remove \/ ExitFlush \/ Crash
Spec == Init /\ [][Next]_vars /\ WF_vars(Decode \/ OpenOut \/ Write \/ Flush \/ Close
                                        \/ CloseAfterFailure \/ Remove \/ ExitFlush)

(***************************************************************************)
(* Properties                                                              *)
(***************************************************************************)
Safe == SafeSt(Cur)
\* the input is only ever removed by the Remove step, and only once
OnlyRemoveRemoves == [][input' # input => pc = "remove"]_vars
\* when nothing fails (and no crash) the clean-up does happen
CleansWhenAllWell == (fault = "none") ~> (pc = "crashed" \/ (pc = "done" /\ input = "removed"))
Terminates == <>(pc \in {"done", "crashed"})
=============================================================================
