---------------------------- MODULE SelectionProof ----------------------------
(***************************************************************************)
(* Selection.tla is model-checked by TLC over classes of severities and    *)
(* flag words.  This module proves with the TLA+ proof system that the     *)
(* implementation-shaped procedure (considerPEL as repaired) yields a      *)
(* verdict the documented rules allow for EVERY severity byte, EVERY       *)
(* 16-bit flag word and EVERY option record the statement constrains.      *)
(* Checked by tlapm (tools/prove.sh, ./check C07).                         *)
(***************************************************************************)
EXTENDS Selection, TLAPS

THEOREM ImplMeetsRuleEverywhere ==
    \A sev \in 0..255, f \in 0..65535, o \in Options : Agrees(sev, f, o, Repaired)
  <1> SUFFICES ASSUME NEW sev \in 0..255, NEW f \in 0..65535, NEW o \in Options,
                      Constrained(o)
               PROVE  Impl(sev, f, o, Repaired) \in RuleSet(sev, f, o)
      BY DEF Agrees
  <1> DEFINE sa == ServiceAction(f)
             hf == HiddenFlag(f)
             rp == Report(f)
             ms == \E g \in o.sevs : sev \div 16 = g
  <1>0. /\ o.every \in BOOLEAN /\ o.sv \in BOOLEAN /\ o.nsv \in BOOLEAN /\ o.hid \in BOOLEAN
        /\ o.term \in BOOLEAN /\ o.only \in BOOLEAN /\ o.lookup \in Lookups /\ o.sevs \subseteq Groups
        BY DEF Options
  <1> HIDE DEF sa, hf, rp, ms
  <1>1. Impl(sev, f, o, Repaired) =
          LET svc == IF sev # 0 THEN rp /\ ~hf ELSE sa
              sevOK == ~(o.only /\ o.sevs # {} /\ ~ms)
          IN  IF o.every THEN TRUE
              ELSE IF o.term /\ sev = 81 THEN TRUE
              ELSE IF o.sv /\ svc THEN sevOK
              ELSE IF o.nsv /\ ~svc THEN sevOK
              ELSE IF o.hid /\ hf THEN sevOK
              ELSE IF o.sevs # {} /\ ms THEN ~(o.only /\ (o.sv \/ o.nsv \/ o.hid))
              ELSE IF o.only \/ hf \/ ~svc THEN o.lookup \in {"plid", "src", "bmcID", "pelID", "srcExclude"}
              ELSE TRUE
        BY DEF Impl, IsServiceableImpl, IsHiddenImpl, SevMatchImpl, LookupBypass, Repaired, ClassChosen,
               TermSeverity, sa, hf, rp, ms
  <1>2. ASSUME NEW info \in BOOLEAN
        PROVE RuleWith(sev, f, o, ServiceableR(sev, f, info)) =
                LET svc == IF info THEN sa ELSE rp /\ ~hf
                    inClass == (o.sv /\ svc) \/ (o.nsv /\ ~svc) \/ (o.hid /\ hf)
                    term == o.term /\ sev = 81
                    nosel == ~o.every /\ ~o.sv /\ ~o.nsv /\ ~o.hid /\ ~o.term /\ ~o.only /\ o.sevs = {}
                IN  IF o.every THEN TRUE
                    ELSE IF o.lookup # "none" /\ nosel THEN TRUE
                    ELSE IF ~o.only THEN (svc /\ ~hf) \/ inClass \/ ms \/ term
                    ELSE term \/ ( /\ ((o.sv \/ o.nsv \/ o.hid) \/ o.sevs # {})
                                   /\ ((o.sv \/ o.nsv \/ o.hid) => inClass)
                                   /\ (o.sevs # {} => ms) )
        BY DEF RuleWith, ServiceableR, Hidden, InGroup, NoSelectionOption, ClassChosen, TermSeverity, sa, hf, rp, ms
  <1>3. RuleSet(sev, f, o) = { RuleWith(sev, f, o, ServiceableR(sev, f, sev = 0)),
                               RuleWith(sev, f, o, ServiceableR(sev, f, sev < 16)) }
        BY DEF RuleSet, Informational0, InformationalG
  <1>4. (o.lookup = "none") \/ (~o.every /\ ~o.sv /\ ~o.nsv /\ ~o.hid /\ ~o.term /\ ~o.only /\ o.sevs = {})
        BY DEF Constrained, NoSelectionOption
  <1>5. (o.sevs = {}) => ~ms BY DEF ms
  \* the reading "informational = the defined value 0x00" is the one the code implements
  <1>6. Impl(sev, f, o, Repaired) = RuleWith(sev, f, o, ServiceableR(sev, f, sev = 0))
    <2>1. (sev = 0) \in BOOLEAN OBVIOUS
    <2>2. sa \in BOOLEAN /\ hf \in BOOLEAN /\ rp \in BOOLEAN /\ ms \in BOOLEAN
          BY DEF sa, hf, rp, ms, ServiceAction, HiddenFlag, Report, BitOn
    <2> QED BY <1>0, <1>1, <1>2, <1>4, <1>5, <2>1, <2>2 DEF Lookups
  <1> QED BY <1>3, <1>6
=============================================================================
