----------------------------- MODULE DrawerCli -----------------------------
(***************************************************************************)
(* The stand-alone I/O drawer dump formatter (io_drawer/dump.py main):     *)
(* command line -> files used -> what is printed and the exit status.      *)
(* Like Cli.tla this is behaviour no listed property fixes; C13 - C17 start *)
(* from "the dump bytes are decoded with header file h and string file s"  *)
(* and this module says how a command line becomes that triple.            *)
(*                                                                         *)
(* A command line is                                                       *)
(*   type    : "mex" | "nimitz" | "other" (not a drawer type) | "none"     *)
(*   header  : "default" (no -d) | "given" (a readable file) | "missing"   *)
(*   strings : "default" (no -s) | "given" | "missing"                     *)
(*   dump    : "data" (a file holding a dump) | "empty" (a file without a  *)
(*             data line) | "missing" | "none" (no positional argument)    *)
(*   traces  : the dump holds at least one trace buffer                    *)
(***************************************************************************)
EXTENDS Naturals, Sequences

Types == {"mex", "nimitz", "other", "none"}
FileArgs == {"default", "given", "missing"}
Dumps == {"data", "empty", "missing", "none"}
Lines == [type : Types, header : FileArgs, strings : FileArgs, dump : Dumps, traces : BOOLEAN]

(* Rule ------------------------------------------------------------------ *)
\* which file is used: the one given, else the one shipped for the drawer type
Used(arg, type, kind) == IF arg = "default" THEN <<"shipped", type, kind>> ELSE <<arg>>
\* status 2: the command line is refused (usage message on stderr, nothing decoded)
\* status 1: 'Error: ...' on stderr, nothing on stdout
\* status 0: the formatted dump on stdout (nothing at all for a dump without data)
RuleOutcome(l) ==
    IF l.type \in {"other", "none"} \/ l.dump = "none" THEN [status |-> 2, shows |-> "nothing"]
    ELSE IF l.dump = "missing" THEN [status |-> 1, shows |-> "nothing"]
    ELSE IF l.dump = "empty" THEN [status |-> 0, shows |-> "nothing"]           \* no file is opened for it
    ELSE IF l.header = "missing" THEN [status |-> 1, shows |-> "nothing"]        \* the ILOG comes first
    ELSE IF l.traces /\ l.strings = "missing" THEN [status |-> 1, shows |-> "nothing"]
    ELSE [status |-> 0, shows |-> "decoded"]

(* Impl: parse_args, main -------------------------------------------------- *)
VARIABLES line, pc, status, shows, hdr, str
vars == <<line, pc, status, shows, hdr, str>>
Init == /\ line \in Lines /\ pc = "args" /\ status = 0 /\ shows = "nothing"
        /\ hdr = <<>> /\ str = <<>>
ParseArgs == /\ pc = "args"
             /\ IF line.type \in {"other", "none"} \/ line.dump = "none"
                THEN pc' = "done" /\ status' = 2 /\ UNCHANGED <<hdr, str>>
                ELSE /\ hdr' = Used(line.header, line.type, "header")
                     /\ str' = Used(line.strings, line.type, "strings")
                     /\ pc' = "read" /\ UNCHANGED status
             /\ UNCHANGED <<line, shows>>
ReadDump == /\ pc = "read"
            /\ IF line.dump = "missing" THEN pc' = "done" /\ status' = 1
               ELSE IF line.dump = "empty" THEN pc' = "done" /\ UNCHANGED status
               ELSE pc' = "ilog" /\ UNCHANGED status
            /\ UNCHANGED <<line, shows, hdr, str>>
Ilog == /\ pc = "ilog"
        /\ IF hdr = <<"missing">> THEN pc' = "done" /\ status' = 1
           ELSE pc' = "traces" /\ UNCHANGED status
        /\ UNCHANGED <<line, shows, hdr, str>>
\* all lines are collected first and printed only when every section was decoded
Traces == /\ pc = "traces"
          /\ IF line.traces /\ str = <<"missing">> THEN pc' = "done" /\ status' = 1 /\ UNCHANGED shows
             ELSE pc' = "done" /\ shows' = "decoded" /\ UNCHANGED status
          /\ UNCHANGED <<line, hdr, str>>
Next == ParseArgs \/ ReadDump \/ Ilog \/ Traces
Spec == Init /\ [][Next]_vars

ImplMeetsRule == pc = "done" => [status |-> status, shows |-> shows] = RuleOutcome(line)
\* nothing is printed to stdout unless the whole dump could be decoded
AllOrNothing == shows = "decoded" => status = 0
\* the shipped files are used exactly when no file is given
DefaultsOnlyWhenNotGiven == /\ (hdr # <<>> /\ hdr[1] = "shipped") => line.header = "default" /\ hdr[2] = line.type
                            /\ (str # <<>> /\ str[1] = "shipped") => line.strings = "default" /\ str[2] = line.type
=============================================================================
