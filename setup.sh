#!/bin/sh
# Offline setup: parse every TLA+ module with SANY (fails on the first error) and
# byte-compile the harness into a scratch cache (nothing is written into /repo).
set -e
cd "$(dirname "$0")"
LIB="spec:spec/mc:spec/gen:spec/trace"
fail=0
for f in spec/*.tla spec/mc/*.tla spec/gen/*.tla spec/trace/*.tla; do
  [ -e "$f" ] || continue
  out=$(java -cp /opt/veriftools/tla/tla2tools.jar:/opt/veriftools/tla/CommunityModules-deps.jar \
        -DTLA-Library="$LIB" tla2sany.SANY "$f" 2>&1) || true
  if echo "$out" | grep -q -e 'Fatal errors' -e '\*\*\* Errors' -e 'Could not find module' -e 'Parse Error'; then
    echo "SANY FAILED: $f"; echo "$out" | tail -20; fail=1
  fi
done
/venv/bin/python -c "
import sys, compileall
sys.dont_write_bytecode = True
import ast, pathlib
for p in pathlib.Path('harness').rglob('*.py'):
    if p.name == 'x888b.py':
        continue        # a fixture parser module that is MEANT not to compile
    ast.parse(p.read_text(), str(p))
ast.parse(open('check').read(), 'check')
print('harness parses')
"
mkdir -p evidence replays
[ $fail -eq 0 ] && echo "setup ok"
exit $fail
