"""python3-vt harness/validate.py : validate MANIFEST.json and evidence/*.json against the schemas."""
import glob, json, sys
import jsonschema
ok = True
m = json.load(open('/verif/MANIFEST.json'))
jsonschema.validate(m, json.load(open('/root/.vp/MANIFEST.schema.json')))
ids = [json.loads(l)['id'] for l in open('/verif/properties.jsonl')]
claimed = [c['property_id'] for c in m['checks']]
na = [c['property_id'] for c in m.get('not_applicable', [])]
assert sorted(claimed + na) == sorted(ids), (claimed, na)
es = json.load(open('/root/.vp/EVIDENCE.schema.json'))
for p in sorted(glob.glob('/verif/evidence/*.json')):
    jsonschema.validate(json.load(open(p)), es)
    print('ok', p)
print('manifest ok: claimed', claimed)
