"""Runs the real parsePEL over a batch of byte strings with a traced cursor.

Started by harness/props/c05.py twice per batch: `python` and `python -O`
(the property demands the same behaviour with assertions disabled).
stdin : JSON {"repo": path, "inputs": [hex, ...]}
stdout: JSON list of {"outcome", "detail", "digest", "events": [op,n,before,after,got,raised, ...]}
"""
import hashlib
import io
import json
import signal
import sys


def main():
    job = json.load(sys.stdin)
    sys.path.insert(0, job['repo'] + '/modules')
    from pel.datastream import DataStream
    from pel.peltool.config import Config
    import pel.peltool.peltool as pt

    class TracedStream(DataStream):
        def __init__(self, data):
            object.__setattr__(self, 'ev', [])
            object.__setattr__(self, 'depth', 0)
            object.__setattr__(self, '_i', 0)
            super().__init__(data, byte_order='big', is_signed=False)

        @property
        def index(self):
            return self._i

        @index.setter
        def index(self, v):
            old = self._i
            object.__setattr__(self, '_i', v)
            if self.depth == 0 and v != old:
                # the cursor was moved without get_mem / inc_index
                self.ev.extend((2, v - old, old, v, v - old, 0))

        def _call(self, op, fn, n):
            before = self._i
            self.depth += 1
            try:
                try:
                    r = fn(n)
                finally:
                    self.depth -= 1
            except BaseException:
                if self.depth == 0:
                    self.ev.extend((op, _clip(n), before, self._i, 0, 1))
                raise
            if self.depth == 0:
                got = len(r) if op == 0 else self._i - before
                self.ev.extend((op, _clip(n), before, self._i, got, 0))
            return r

        def get_mem(self, n):
            return self._call(0, super().get_mem, n)

        def inc_index(self, n):
            return self._call(1, super().inc_index, n)

    def _clip(n):
        if not isinstance(n, int):
            return -99999
        return max(-100000, min(100000, n))

    class Timeout(BaseException):
        pass

    def on_alarm(*_):
        raise Timeout()

    signal.signal(signal.SIGALRM, on_alarm)
    cfg = Config()
    cfg.every_pel = True
    out = []
    real_stdout, real_stderr = sys.stdout, sys.stderr
    for hx in job['inputs']:
        data = bytes.fromhex(hx)
        st = TracedStream(data)
        sys.stdout, sys.stderr = io.StringIO(), io.StringIO()
        outcome, detail, digest = None, '', ''
        signal.setitimer(signal.ITIMER_REAL, 20.0)
        try:
            try:
                eid, js = pt.parsePEL(st, cfg, False)
                if js:
                    json.loads(js)
                    outcome = 'doc'
                    digest = hashlib.sha1(js.encode('utf-8', 'replace')).hexdigest()[:16]
                else:
                    outcome = 'empty'
            except Exception as e:
                outcome, detail = 'error', type(e).__name__
            except Timeout:
                outcome = 'timeout'
            except BaseException as e:
                outcome, detail = 'escape', type(e).__name__
        finally:
            signal.setitimer(signal.ITIMER_REAL, 0)
            printed = sys.stdout.getvalue()
            sys.stdout, sys.stderr = real_stdout, real_stderr
        out.append(dict(outcome=outcome, detail=detail, digest=digest, events=st.ev,
                        stdout_len=len(printed)))
    json.dump(out, sys.stdout)


if __name__ == '__main__':
    main()
