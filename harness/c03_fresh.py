"""Decodes PELs in a FRESH interpreter in which the message registry and the component-name tables are found the
way the tool finds them itself: a `pel_registry` package on sys.path whose get_registry_path() names the registry
file, with the <creator>_component_ids.json files next to it (oracle environment of C03's `fresh_registry` cases).
stdin: JSON {"repo", "verif", "dir", "pels": [hex...]} -> stdout: JSON [{"outcome", "detail", "doc"} ...]"""
import json
import sys


def main():
    job = json.load(sys.stdin)
    sys.path.insert(0, job['dir'])                  # holds the pel_registry package
    sys.path.insert(0, job['repo'] + '/modules')
    sys.path.insert(0, job['verif'])
    from harness import pelrun
    out = []
    for hx in job['pels']:
        res = pelrun.decode(bytes.fromhex(hx), False)
        out.append(dict(outcome=res['outcome'], detail=res['detail'], doc=res['doc'], final_index=res['final_index'],
                        boundaries=res['boundaries'], stdout=res['stdout']))
    print(json.dumps(out))


if __name__ == '__main__':
    main()
