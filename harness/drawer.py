"""I/O drawer helpers: independent readers of the shipped table files (cross-checked by the entry
counts the files declare) and renderers of synthetic tables in varied surface syntax."""
import os
import re

from .framework import REPO


def io_dir():
    return os.path.join(REPO, 'modules', 'io_drawer')


def _unescape(msg):
    return msg.strip().replace('\\"', '"')


def read_pte_table(path):
    """-> list of dict(pattern, msg, params) in file order (abstract table)"""
    out = []
    in_table = False
    size = None
    with open(path) as f:
        for line in f:
            m = re.match(r'\s*#define\s+PTE_TABLE_SIZE\s+(\d+)', line)
            if m:
                size = int(m.group(1))
            if 'static_pte_entry_table' in line and '=' in line:
                in_table = True
                continue
            if not in_table:
                continue
            if re.match(r'\s*\{\s*""\s*,\s*"The End"', line):
                in_table = False
                continue
            # { "pattern", "message with \" escapes", {digits}, "file", line },
            i = line.find('{')
            if i < 0:
                continue
            j = line.find('"', i)
            k = line.find('"', j + 1)
            if j < 0 or k < 0:
                continue
            pattern = line[j + 1:k]
            a = line.find('"', k + 1)
            if a < 0:
                continue
            b = a + 1
            while b < len(line):
                if line[b] == '\\' and b + 1 < len(line) and line[b + 1] == '"':
                    b += 2
                    continue
                if line[b] == '"':
                    break
                b += 1
            msg = line[a + 1:b]
            c = line.find('{', b)
            dd = line.find('}', c)
            if c < 0 or dd < 0:
                continue
            params = [int(ch) for ch in line[c + 1:dd] if ch.isdecimal()]
            params = [p for p in params if 1 <= p <= 4]
            out.append(dict(pattern=pattern, msg=_unescape(msg), params=params))
    return out, size


def read_hlog_fields(path):
    out, inside, count = [], False, None
    with open(path) as f:
        for line in f:
            m = re.match(r'\s*#define\s+MEX_HLOG_FIELD_COUNT\s+(\d+)', line)
            if m:
                count = int(m.group(1))
            if 'mex_hlog_fields' in line and '=' in line:
                inside = True
                continue
            if inside and re.match(r'\s*\}\s*;', line):
                inside = False
                continue
            if inside:
                m = re.match(r'\s*\{\s*([12])\s*,\s*"([^"]+)"\s*\}', line)
                if m:
                    out.append(dict(size=int(m.group(1)), name=m.group(2)))
    return out, count


def read_string_file(path):
    """-> list of dict(hash (decimal string), msg, loc)"""
    out = []
    with open(path) as f:
        for line in f:
            parts = line.rstrip('\n').split('||')
            if len(parts) < 3:
                continue
            h = parts[0].strip()
            if not h.isdigit():
                continue
            # greedy middle: the message is everything between the first and the last ||
            out.append(dict(hash=h, msg='||'.join(parts[1:-1]).strip(), loc=parts[-1].strip()))
    return out


# ---------------------------------------------------------------------------
# synthetic tables rendered in varied surface syntax
# ---------------------------------------------------------------------------

def render_pte_header(rng, table, noise=True):
    lines = ['// generated for verification', '#define MAX_PTE_LENGTH 9', 'struct pte_entry_struct', '{',
             '  char key[MAX_PTE_LENGTH];', '};', '', '#define PTE_TABLE_SIZE %d' % (len(table) + 1), '']
    start = rng.choice(['struct pte_entry_struct static_pte_entry_table[PTE_TABLE_SIZE] = ',
                        'static struct pte_entry_struct static_pte_entry_table[PTE_TABLE_SIZE] =',
                        '  static  struct   pte_entry_struct   static_pte_entry_table[] = {'])
    lines.append(start)
    if not start.rstrip().endswith('{'):
        lines.append('{')
    for e in table:
        msg = e['msg'].replace('"', '\\"')
        pad = rng.choice(['', ' ', '  '])
        params = rng.choice([', ', ',', ' , ']).join(str(p) for p in e['raw_params'])
        sp = rng.choice([' ', '  ', ''])
        lines.append('%s{%s"%s"%s,%s"%s%s"%s,%s{%s}%s,%s"%s"%s,%s%d%s}%s,' % (
            rng.choice(['  ', '', '\t']), sp, e['pattern'], sp, sp, pad, msg, sp, sp, params, sp, sp,
            rng.choice(['states.cpp', 'x.cpp', '']), sp, sp, rng.randrange(1, 3000), sp, sp))
        if noise and rng.random() < .1:
            lines.append(rng.choice(['', '  // comment { "FFFFFFFF", "not an entry" }', '#if 0', '#endif']))
    lines.append('  { ""        , "The End" }')
    lines.append('};')
    return '\n'.join(lines) + '\n'


def render_hlog_header(rng, fields):
    lines = ['struct mex_hlog_field', '{', '  uint8_t size;', '  char name[40];', '};', '',
             '#define MEX_HLOG_FIELD_COUNT %d' % len(fields), '']
    start = rng.choice(['struct mex_hlog_field mex_hlog_fields[MEX_HLOG_FIELD_COUNT] =',
                        'static struct mex_hlog_field mex_hlog_fields[MEX_HLOG_FIELD_COUNT] =',
                        'static  struct  mex_hlog_field  mex_hlog_fields[] = {'])
    lines.append(start)
    if not start.rstrip().endswith('{'):
        lines.append('{')
    split = rng.randrange(1, len(fields)) if len(fields) >= 2 and rng.random() < .15 else None
    for k, f in enumerate(fields):
        if k == split:
            # the table declared in two blocks (base counters, then those of an optional feature): one table
            lines += ['};', '', '#if OPTIONAL_COUNTERS', start] + ([] if start.rstrip().endswith('{') else ['{'])
        # white space as C and the decoder's pattern see it: blanks, tabs, and the rarer kinds (form feed, vertical
        # tab, separators) that some text functions take for line ends - a line of the file ends at \n only
        sp = rng.choice([' ', '  ', '', ' ', '\t', '\x0c', '\x0b ', ' \x1c', '\x1d\x1e', '\x85', '\u2028 '])
        comma = '' if k == len(fields) - 1 and rng.random() < .5 else ','
        if rng.random() < .12:
            # entries with a width the decoder does not know (only 1 and 2 are fields) - one, or several in a row -
            # comments and blank lines: none of them is a field
            for _ in range(rng.choice([1, 2, 2, 3])):
                lines.append(rng.choice(['  { %d, "hl_wide_%d" },' % (rng.choice([0, 3, 4, 8, 9, 12, 21]), rng.randrange(99)),
                                         '  // { 1, "hl_commented_out" },', '', '  {1,"no_closing_brace"',
                                         '  { 2, "" },']))
        lines.append('  {%s%d%s,%s"%s"%s}%s ' % (sp, f['size'], sp, sp, f['name'], sp, comma))
    lines.append('};')
    return '\n'.join(lines) + '\n'


def render_string_file(rng, strings):
    lines = ['#FSP_TRACE_v2|||Thu Sep 24 12:55:43 2020|||BUILD:verification']
    for s in strings:
        sp = rng.choice(['', ' ', '  '])
        lines.append('%s%s%s||%s%s%s||%s' % (sp, s['hash'], sp, sp, s['msg'], sp, s['loc']))
        if rng.random() < .05:
            lines.append(rng.choice(['', 'garbage line', 'abc||def||ghi']))
    return '\n'.join(lines) + '\n'


def cp(s):
    return [ord(c) for c in s]


def abstract_pte(table):
    return [dict(pattern=cp(e['pattern']), msg=cp(e['msg']), params=e['params']) for e in table]


def lines_via_process(sub, ver, data, variant):
    """the same bytes as the user-data section of an I/O drawer error log (creator 'M', component 0x2C00, sub-type
    72 / 73 / 84, version = drawer type), decoded by the real `peltool -f` started as a real process in one of the
    ordinary environments (seams.PROC_VARIANTS).  -> the list of lines the section shows, or a one-element list
    saying what went wrong"""
    import json
    import random
    from . import encode, genpel, seams
    rng = random.Random(len(data) * 131 + sub)
    pel = genpel.gen_pel(rng, kinds=[], creator='M', sev=0x40, flags=0x2000, eid=encode.u32(0x5D000001))
    pel['secs'] = [dict(genpel.hdr(rng, 'UD'), kind='UD', comp=[0x2C, 0x00], sub=sub, ver=ver, payload=list(data))]
    path = os.path.join(seams.scratch_dir('drawerproc'), 'one.pel')
    seams.write_file(path, bytes(encode.encode(pel)))
    res = seams.run_cli_proc(['-f', path, '-E'], variant)
    os.remove(path)
    key = {72: 'History Log', 73: 'ILOG', 84: 'Trace'}[sub]
    try:
        doc = json.loads(res['out'])
        sec = doc['User Data']
        if 'Error' in sec or not isinstance(sec.get(key), list):
            return ['the section shows no %s lines: %s' % (key, json.dumps(sec)[:200])]
        return sec[key]
    except (ValueError, KeyError, TypeError) as e:
        return ['no document from the process (%s): %s %s' % (variant, repr(e)[:80], (res['err'] or '')[-200:])]


def view(data, k):
    """the bytes as a caller may hand them over: a view of exactly these bytes, of a bytearray, or a WINDOW into a larger
    buffer whose other bytes (a trace buffer header among them) are none of the decoder's business"""
    raw = bytes(data)
    k = k % 4
    if k == 0:
        return memoryview(raw)
    if k == 1:
        return memoryview(bytearray(raw))
    before = b'\x02\x20\x01\x42FANS' + bytes(range(1, 20))
    after = b'\x02\x20\x01\x42POWR\x00\x00' + b'\xff' * 9 if k == 3 else b''
    return memoryview(before + raw + after)[len(before):len(before) + len(raw)]
