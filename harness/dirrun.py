"""Building PEL directories and projecting the output of the directory modes (C08, C09, C10)."""
import hashlib
import json
import os
import shutil

from . import encode, genpel, project, seams

REFS = ['BD8D1001', 'BD8D1002', 'BC8A1001', '11001001', 'BD701001', 'B1811001', 'BD8D2030', '110000AC']
# (the last two are reason codes the message registry of seams.install_registry() knows)
# reference codes that use more of the 32 characters (blanks inside, text behind the eight digits)
REFS_LONG = ['BD8D1003 LP=0002', 'B7001111 LP=0002', 'BD8D1004        X', 'BC8A1002 A B', '11001002/P1-C5', 'BD8D', 'B181',
             'BD701002 0000000000000000000000Z']


def mk_pel(rng, eid, plid=None, bmc=None, ref=None, sev=0x40, flags=0x2000, creator='O', extra_secs=True, lead=False):
    pel = genpel.gen_pel(rng, kinds=[], creator=creator, sev=sev, flags=flags, eid=encode.u32(eid))
    pel['ph']['plid'] = encode.u32(plid if plid is not None else eid)
    pel['ph']['bmc'] = encode.u32(bmc if bmc is not None else eid & 0xFFFF)
    s = genpel.gen_src(rng, 'PS', ncallouts=rng.choice([-1, 0, 1]))
    s['ascii'] = encode.text(ref or rng.choice(REFS), 32, 0x20)
    secs = [s]
    if extra_secs:
        secs += [genpel.gen_eh(rng), genpel.gen_ud(rng, creator=creator)][: rng.randrange(0, 3)]
    r = rng.random()
    if extra_secs and rng.random() < .15:
        # a long log: ten to twenty sections
        for _ in range(rng.randrange(8, 18)):
            secs.append(rng.choice([genpel.gen_other(rng, rng.choice(['XX', 'MI', 'EI'])), genpel.gen_ud(rng, creator=creator),
                                    genpel.gen_mt(rng)]))
    if extra_secs and rng.random() < .3 and creator == 'O':
        secs.append(genpel.gen_hostile_json_ud(rng))          # text that output code trips over
    if extra_secs and rng.random() < .15 and creator == 'O':
        secs.insert(rng.randrange(1, len(secs) + 1), failing_plugin_ud(rng))    # decodes, with an error note
    if lead and r < .35:
        # something in front of the Primary SRC, with a length that is not a multiple of 4
        secs = [genpel.gen_other(rng, rng.choice(['MI', 'XX', 'EI'])), genpel.gen_ud(rng, creator=creator)][: rng.randrange(1, 3)] + secs
    pel['secs'] = secs
    return pel


def attrs(pel, name, data):
    """abstract attributes of a PEL file for the judge"""
    return dict(name=project.cp(name), kind='pel', sev=pel['uh']['sev'], flags=encode.b2i(pel['uh']['flags']),
                eid=pel['ph']['eid'], plid=pel['ph']['plid'], bmc=pel['ph']['bmc'],
                ref=_strip(([x for x in pel['secs'] if x['kind'] == 'SRC'] or [dict(ascii=[])])[0]['ascii']), size=len(data))


def _strip(cps):
    """the reference code as shown: the 32 characters without the blanks around them"""
    cps = list(cps)
    while cps and cps[-1] == 0x20:
        cps.pop()
    while cps and cps[0] == 0x20:
        cps.pop(0)
    return cps


def junk_attrs(name, kind):
    return dict(name=project.cp(name), kind=kind, sev=0, flags=0, eid=[], plid=[], bmc=[], ref=[], size=0)


def failing_plugin_ud(rng):
    """a user-data section routed to the shipped hardware-diagnostics parser with content it cannot digest
    (the parser raises; the decoder contains that and shows the section as a dump with an error note)"""
    s = genpel.hdr(rng, 'UD')
    s.update(kind='UD', comp=[0xE5, 0x00], sub=rng.choice([1, 1, 2, 3, 4, 5]), ver=1,
             payload=rng.choice([[0, 0, 0, 9] + genpel.rbytes(rng, 12), genpel.rbytes(rng, 4 * rng.randrange(1, 6)),
                                 [0x7B, 0x22, 0x78, 0x00]]))
    return s


JUNK_KINDS = ['tinySectionLen', 'tinySectionLen', 'danglingLink', 'danglingLink', 'pluginFailsThenCut', 'pluginFailsThenCut', 'pceSizeMore', 'calloutFlip', 'calloutFlip', 'empty', 'badPHid', 'badUHid', 'truncInHeaders', 'truncAfterHeaders', 'truncAfterSRC',
              'corruptLater', 'random', 'pceSize', 'badUtf8Creator', 'badUtf8Src', 'hugeWordCount', 'noPrimarySrc', 'countTwo', 'byteflip', 'byteflip', 'byteflip']


def make_junk(rng, kind, base_pel):
    """bytes of a junk file derived from a well-formed PEL"""
    if kind == 'danglingLink':
        # not even readable: a symbolic link whose target does not exist (a file removed while the tool runs, a
        # log rotated away, looks the same to open())
        return ('symlink', '/nonexistent/verif-target-%d' % rng.randrange(10 ** 6))
    data = bytearray(encode.encode(base_pel))
    if kind == 'empty':
        return b''
    if kind == 'badPHid':
        data[0:2] = b'XX'
    elif kind == 'badUHid':
        data[48:50] = b'uh'
    elif kind == 'truncInHeaders':
        data = data[: rng.randrange(1, 72)]
    elif kind == 'truncAfterHeaders':
        data = data[: 72 + rng.randrange(0, 40)]
    elif kind == 'truncAfterSRC':
        from .encode import section_bytes
        end = 72 + len(section_bytes(base_pel['secs'][0]))
        data = data[: end + rng.randrange(0, 6)] if len(data) > end + 8 else data[: end - 3]
    elif kind == 'corruptLater':
        # the length of the last section says more than there is
        data = data[: len(data) - rng.randrange(1, 8)]
    elif kind == 'random':
        data = bytearray(rng.randrange(256) for _ in range(rng.randrange(1, 300)))
    elif kind == 'badUtf8Creator':
        data[24] = 0xC3                     # creator id byte is not decodable text
    elif kind == 'badUtf8Src':
        data[72 + 8 + 8 + 32 + 3] = 0xFF    # a byte of the reference code (first optional section is the SRC)
    elif kind == 'hugeWordCount':
        data[72 + 8 + 3] = 200              # valid word count far beyond the 9 words
    elif kind == 'byteflip':
        # an arbitrary single-byte corruption (most land in the headers / the SRC, where they matter)
        off = rng.randrange(0, min(len(data), 160)) if rng.random() < .8 else rng.randrange(len(data))
        data[off] = rng.choice([0x00, 0xFF, data[off] ^ 0x80, data[off] ^ 0x01, rng.randrange(256)])
    elif kind == 'noPrimarySrc':
        data[73] = ord('X')                 # the first optional section is no longer a Primary SRC: decodable,
        #                                     but the SRC look-ups have nothing to match
    elif kind == 'countTwo':
        data[27] = 2                        # the section count says there is nothing after the headers
    elif kind == 'pceSize':
        pass
    elif kind == 'tinySectionLen':
        # a section whose length field says 8 or less: its header fits, its body has a length of zero or below
        # (user data or an unknown section type, in front of the SRC or behind it)
        import copy
        pel = copy.deepcopy(base_pel)
        extra = [genpel.gen_ud(rng, creator='O'), genpel.gen_other(rng, rng.choice(['XX', 'ZQ', 'MI']))]
        rng.shuffle(extra)
        pos = rng.choice([0, 0, len(pel['secs'])])
        pel['secs'] = pel['secs'][:pos] + extra[:rng.randrange(1, 3)] + pel['secs'][pos:]
        data = bytearray(encode.encode(pel))
        off = 72
        for k, s in enumerate(pel['secs']):
            if pos <= k < pos + 2 and s['kind'] != 'SRC':
                data[off + 2:off + 4] = bytes([0, rng.choice([8, 0, 4, 7, 1])])
                break
            off += len(encode.section_bytes(s))
    elif kind == 'pluginFailsThenCut':
        # sections whose parser module raises (in front of the SRC and behind it), then the file ends early
        import copy
        pel = copy.deepcopy(base_pel)
        front = [failing_plugin_ud(rng) for _ in range(rng.randrange(0, 2))]
        pel['secs'] = front + pel['secs'][:1] + [failing_plugin_ud(rng)] + pel['secs'][1:]
        if not front and rng.random() < .5:
            pel['secs'] = pel['secs'][1:]        # no Primary SRC at all: the summaries walk every section
        data = bytearray(encode.encode(pel))
        data = data[: len(data) - rng.randrange(1, 8)]
    return bytes(data)


def pce_size_junk(rng):
    """a PEL whose PCE identity size field is below 24 (the decoder prints a diagnostic) and which then fails"""
    pel = mk_pel(rng, 0x5F000001, extra_secs=False)
    s = genpel.gen_src(rng, 'PS', ncallouts=1, shapes=[dict(fru='p', pce=4, mru=None, loc=0)])
    pel['secs'] = [s]
    data = bytearray(encode.encode(pel))
    k = bytes(data).find(b'PE', 72 + 80)
    data[k + 2] = 8
    return bytes(data[: len(data) - 2])


def callout_junk(rng, kind):
    """a PEL with a rich callout subsection AND more sections behind the SRC, damaged inside the callouts: the
    decoder leaves the callout walk in many different ways (range check, attribute of a half-built object, index,
    text decoding ...) - whichever it is, the file must only cost its own entry"""
    pel = mk_pel(rng, 0x5F000002, extra_secs=False)
    shapes = [dict(fru=rng.choice(['p', 'm', 'pcs']), pce=rng.choice([4, 8, None]), mru=rng.choice([None, 1, 3]),
                   loc=rng.choice([0, 4, 12])) for _ in range(rng.randrange(1, 4))]
    if kind == 'pceSizeMore':
        # the PCE identity is the last thing in the last callout and has no name; the section behind the SRC is
        # plain ASCII: the walk slips by a few bytes, reads a bogus callout out of the next section and comes to
        # an end - the damage shows only when the half-built PCE object is displayed
        shapes[-1] = dict(fru='p', pce=0, mru=None, loc=rng.choice([0, 4]))
    s = genpel.gen_src(rng, 'PS', ncallouts=len(shapes), shapes=shapes)
    mt = genpel.gen_mt(rng)
    if kind == 'pceSizeMore':
        mt.update(ver=rng.randrange(1, 0x80), sub=rng.randrange(0x80), comp=[rng.randrange(1, 0x80), rng.randrange(0x80)])
    pel['secs'] = [s, mt, genpel.gen_eh(rng), genpel.gen_ud(rng, creator='O')]
    data = bytearray(encode.encode(pel))
    lo = 72 + 80
    hi = 72 + len(encode.section_bytes(s))
    if kind == 'pceSizeMore':
        k = bytes(data).rfind(b'PE', lo, hi)
        if k > 0:
            data[k + 2] = rng.randrange(16, 24)      # PCE identity shorter than its fixed part
    else:
        for _ in range(rng.choice([1, 1, 2])):
            off = rng.randrange(lo, max(lo + 1, hi))
            data[off] = rng.choice([0x00, 0xFF, data[off] ^ 0x80, data[off] ^ 0x01, rng.randrange(256)])
    return bytes(data)


def write_dir(d, files):
    shutil.rmtree(d, ignore_errors=True)
    os.makedirs(d)
    for name, data in files:
        p = os.path.join(d, name)
        os.makedirs(os.path.dirname(p), exist_ok=True)
        if isinstance(data, tuple) and data[0] == 'mkdir':
            continue                                 # only the directory itself is wanted (an empty subdirectory)
        if isinstance(data, tuple) and data[0] == 'symlink':
            os.symlink(data[1], p)                   # a directory entry that cannot be opened (dangling link)
        else:
            seams.write_file(p, data)


def sha(s):
    return hashlib.sha1(s.encode('utf-8', 'replace')).hexdigest()[:20]


def list_entries(out):
    """-l / --plid / --src output -> list of projected summaries (in printed order)"""
    doc = json.loads(out)
    if not isinstance(doc, dict):
        raise project.ShapeError('list output is not an object')
    res = []
    for k, v in doc.items():
        if not isinstance(v, dict):
            raise project.ShapeError('list entry is not an object')
        res.append(dict(eid=project.numbytes(k, 4), src=project.cp(v.get('SRC', '')),     # a log without an SRC has none
                        plid=project.numbytes(project.get(v, 'PLID'), 4),
                        creator=project._str(project.get(v, 'CreatorID')),
                        subsystem=project._str(project.get(v, 'Subsystem')),
                        commit=project.cp(project.get(v, 'Commit Time')), sev=project._str(project.get(v, 'Sev')),
                        comp=project.cp(project.get(v, 'CompID'))))
    return res


def all_entries(out):
    """-a output -> the same seven fields taken from each full decode"""
    docs = json.loads(out)
    if not isinstance(docs, list):
        raise project.ShapeError('-a output is not an array')
    res = []
    for d in docs:
        ph, uh = project.get(d, 'Private Header'), project.get(d, 'User Header')
        ps = d.get('Primary SRC') or d.get('Primary SRC 0') or {}
        res.append(dict(eid=project.numbytes(project.get(ph, 'Entry Id'), 4),
                        src=project.cp(ps.get('Reference Code', '')),
                        plid=project.numbytes(project.get(ph, 'Platform Log Id'), 4),
                        creator=project._str(project.get(ph, 'Creator Subsystem')),
                        subsystem=project._str(project.get(uh, 'Subsystem')),
                        commit=project.cp(project.get(ph, 'Committed at')),
                        sev=project._str(project.get(uh, 'Event Severity')),
                        comp=project.cp(project.get(ph, 'Created by'))))
    return res


def hex_blocks(out):
    """stdout of a --hex mode -> list of byte strings (one per delimited dump); None if malformed"""
    blocks, cur = [], None
    for line in out.split('\n'):
        if line.startswith('-------------- PEL Begin'):
            if cur is not None:
                return None
            cur = bytearray()
        elif line.startswith('-------------- PEL End'):
            if cur is None:
                return None
            blocks.append(bytes(cur))
            cur = None
        elif line.strip() == '':
            continue
        else:
            if cur is None:
                return None
            hexpart = line[13:51].replace(' ', '')
            try:
                cur += bytes.fromhex(hexpart)
            except ValueError:
                return None
    return blocks if cur is None else None


def hex_ids(out):
    bl = hex_blocks(out)
    if bl is None:
        raise project.ShapeError('hex output is not a sequence of delimited dumps')
    return [list(b[44:48]) for b in bl]


def json_ok(out):
    try:
        json.loads(out)
        return True
    except ValueError:
        return False
