"""C06 - the printed JSON parses back to exactly the decoded document.

MC   : spec/mc/MC_PrettyPrint (every dumps-shaped line over an 7-character alphabet)
Bind : the real prettyPrint is observed (a) on every line of the MC bound, (b) at the
       module seam while the real decoder / CLI print generated PELs (JSON and text user
       data with quotes, colons, braces, backslashes, non-ASCII), (c) on adversarial
       documents, both alignment widths.  Trace_C06 judges every line with
       PrettyPrint!Allowed; the round trip (json.loads of the printed text equals the
       document) is recorded by the harness and demanded by the judge.
"""
import io
import itertools
import json
import os
import random

from .. import encode, genpel, seams

ID = 'C06'
LEVEL = 'model_checking'
TRACE = 'trace/Trace_C06'
RULE = ('case = one document (or single line) passed through the real prettyPrint: lines of the model-checking '
        'bound, outputs of the real decoder / CLI for generated PELs, adversarial documents; non-trivial = at least '
        'one line contains a quote, colon, brace or backslash inside a key or string value; distinct = by input text')
ASSUMPTIONS = [
    'alignment is permitted, never required: an untouched line and any number of inserted spaces are accepted',
    'documents are what json.dumps(indent=4) produces (the only producer in the tool)',
]
ALPHA = ['"', '\\', ':', '{', 'a', ' ', ',']


def model_checks(tier):
    return [dict(module='mc/MC_PrettyPrint', cfg='mc/MC_PrettyPrint_repaired', must_cover=['Evaluate'])]


def _words(n):
    out = ['']
    for k in range(1, n + 1):
        out += [''.join(t) for t in itertools.product(ALPHA, repeat=k)]
    return out


def cases(tier, seed, info):
    rng = random.Random(seed + 6)
    out = []
    # (a) lines of the MC bound, as one-key documents (quick: keys <= 2, thorough: <= 3)
    keys = _words(2 if tier == 'quick' else 3)
    vals = _words(2)
    batch = []
    for k in keys:
        for v in (vals if tier == 'thorough' or len(k) < 2 else rng.sample(vals, 12)):
            batch.append({k: v})
            batch.append([k + v])
        if len(batch) >= 400:
            out.append(dict(kind='docs', docs=batch, widths=[34, 29]))
            batch = []
    if batch:
        out.append(dict(kind='docs', docs=batch, widths=[34, 29]))
    info['bound_lines'] = sum(len(c['docs']) for c in out)
    # (c) adversarial documents
    n = 300 if tier == 'quick' else 30000
    chars = ALPHA + ['}', '[', ']', '\n', '\t', 'é', '中', '\x01', 'b', '1', '/']

    def word():
        return ''.join(rng.choice(chars) for _ in range(rng.randrange(0, 9)))

    def doc(depth):
        r = rng.random()
        if depth > 3 or r < .35:
            return rng.choice([word(), word(), rng.randrange(1000), None, True, 1.5, word() + '":' + word()])
        if r < .6:
            return [doc(depth + 1) for _ in range(rng.randrange(0, 4))]
        return {word() + rng.choice(['', '":', '\\":', '": {', ':']) + word(): doc(depth + 1)
                for _ in range(rng.randrange(0, 4))}
    docs = [doc(0) if k % 3 else {word(): doc(1), word(): doc(1)} for k in range(n)]
    for j in range(0, n, 100):
        out.append(dict(kind='docs', docs=docs[j:j + 100], widths=[34, 29]))
    info['adversarial_docs'] = n
    # (b) decoder / CLI
    m = 60 if tier == 'quick' else 5000
    for j in range(0, m, 10):
        out.append(dict(kind='pels', seed=seed * 1000 + j, n=10))
    info['pels'] = m
    # (d) documents whose printed LENGTH sits on and next to round numbers (the sizes buffers and blocks have)
    marks = [2048, 4096, 8192, 16384, 32768] if tier == 'quick' else [512 * k for k in range(4, 120)]
    slot = seed
    for j, mk in enumerate(marks):
        targets = [mk - 1, mk, mk + 1] + ([2 * mk] if tier == 'quick' else [])
        # each target is printed / written in this process AND by the real tool started as a process in one of
        # several ordinary environments (python -O, a POSIX locale, another directory ...), all of them in turn
        variants = [seams.PROC_VARIANTS[(slot + i) % len(seams.PROC_VARIANTS)] for i in range(len(targets))]
        slot += len(targets)
        out.append(dict(kind='lengths', seed=seed * 77 + j, targets=targets, variants=variants))
    info['length_marks'] = len(marks)
    return out


def _not_json(token):
    raise ValueError('%s is not JSON' % token)


def strict_loads(text):
    """what the tool printed is read as JSON and nothing more: NaN and Infinity are no JSON values (Python's reader
    would take them)"""
    return json.loads(text, parse_constant=_not_json)


def _cp(s):
    return [[ord(c) for c in line] for line in s.split('\n')]


def _rec(src, intext, outtext, doc_known=None):
    parses, rt = True, False
    try:
        back = strict_loads(outtext)
        rt = back == (json.loads(intext) if doc_known is None else doc_known)
    except ValueError:
        parses = False
    return dict(shape_ok=isinstance(outtext, str), src=src, inl=_cp(intext), outl=_cp(outtext),
                parses=parses, roundtrip=rt, text=intext[:300])


def _docs(case):
    import pel.peltool.peltool as pt
    recs = []
    for d in case['docs']:
        text = json.dumps(d, indent=4)
        for w in case['widths']:
            recs.append(_rec('direct:%d' % w, text, pt.prettyPrint(text, w), d))
    return recs


def _text_ud(rng):
    s = genpel.hdr(rng, 'UD')
    body = ''.join(rng.choice(['hello": world', 'a":b', '{', '}', ':', '"', '\\', ' ', 'x', '\n', 'k": {v', ','])
                   for _ in range(rng.randrange(1, 12)))
    raw = ('T' + body + 'z').encode()
    raw += b'\x00' * ((-len(raw)) % 4)
    s.update(kind='UD', comp=[0x20, 0x00], sub=3, payload=list(raw))
    return s


def _pels(case):
    import pel.peltool.peltool as pt
    rng = random.Random(case['seed'])
    d = os.path.join(seams.scratch_dir('c06'), 'dir')
    import shutil
    shutil.rmtree(d, ignore_errors=True)
    os.makedirs(d)
    calls = []
    orig = pt.prettyPrint

    def spy(Mdata, desiredSpace=34):
        out = orig(Mdata, desiredSpace)
        calls.append((Mdata, out, desiredSpace))
        return out
    pt.prettyPrint = spy
    recs = []
    deep_at = rng.choice([-1, 1, case['n'] // 2, case['n'] - 1])
    try:
        for k in range(case['n']):
            pel = genpel.gen_pel(rng, kinds=['PS', 'UD', 'UD'], creator='O', sev=0x40, flags=0x2000,
                                 eid=encode.u32(0x50001000 + k))
            pel['secs'][1] = genpel.gen_ud(rng, route='json') if k % 3 else genpel.gen_hostile_json_ud(rng)
            pel['secs'][2] = _text_ud(rng)
            if k == deep_at:
                # a log that decodes but cannot be PRINTED (JSON user data nested deeper than the JSON writer goes):
                # it is reported and left out - of a listing that stays one well-formed document
                raw = ('[' * 1300 + ']' * 1300).encode()
                pel['secs'][1] = dict(genpel.hdr(rng, 'UD'), kind='UD', comp=[0x20, 0x00], sub=1, ver=1, payload=list(raw))
            pel['secs'][0]['callouts'] = None
            pel['secs'][0]['flags'] &= 0xFE
            if k in (1, 4) or rng.random() < .15:
                # a section whose parser module fails (the decoder shows it with an error note): whatever
                # that failure does inside the process, what is printed afterwards is still one document
                from .. import dirrun
                pel['secs'].append(dirrun.failing_plugin_ud(rng))
            seams.write_file(os.path.join(d, '%08X' % (0x50001000 + k)), encode.encode(pel))
        # a second directory in which some files yield no document (hidden / informational PELs, junk) - among
        # them, often, the first or the last one in listing order
        d2 = os.path.join(seams.scratch_dir('c06'), 'dir2')
        shutil.rmtree(d2, ignore_errors=True)
        os.makedirs(d2)
        names = sorted(os.listdir(d))
        silent = set(rng.sample(names, rng.randrange(1, max(2, len(names) // 2))) + [names[0]] * (rng.random() < .6)
                     + [names[-1]] * (rng.random() < .4))
        for nm in names:
            with open(os.path.join(d, nm), 'rb') as f:
                raw = bytearray(f.read())
            if nm in silent:
                how = rng.choice(['hidden', 'info', 'junk', 'cut'])
                if how == 'hidden':
                    raw[48 + 8 + 10] |= 0x40            # action flags: not customer viewable
                elif how == 'info':
                    raw[48 + 8 + 2] = 0x00              # severity: informational
                    raw[48 + 8 + 10] &= 0x7F
                elif how == 'junk':
                    raw[0:2] = b'XX'
                else:
                    raw = raw[: len(raw) // 2]
            seams.write_file(os.path.join(d2, nm), bytes(raw))
        for argv, mode in ((['-p', d, '-a'], 'all'), (['-p', d, '-l'], 'list'),
                           (['-f', os.path.join(d, '50001000')], 'file'), (['-p', d, '-l', '-r', '-E'], 'list'),
                           (['-p', d2, '-a'], 'all'), (['-p', d2, '-a', '-r'], 'all'), (['-p', d2, '-l'], 'list'),
                           (['-p', d2, '-a', '-H'], 'all')):
            del calls[:]
            res = seams.run_cli(argv)
            ins = [c[0] for c in calls]
            for c in calls:
                recs.append(_rec('cli-' + mode + ':%d' % c[2], c[0], c[1]))
            # what was really printed parses back to the documents handed to prettyPrint
            try:
                printed = strict_loads(res['out'])
                if ins:
                    want = [json.loads(x) for x in ins]
                    ok = printed == (want if mode == 'all' else want[0])
                else:
                    # the module-level prettyPrint was not used for printing (an internal detail): the printed
                    # text must still be valid JSON of the right shape
                    ok = isinstance(printed, list if mode == 'all' else dict)
            except (ValueError, IndexError):
                ok = False
            recs.append(dict(shape_ok=True, src='stdout-' + mode, inl=[], outl=[], parses=ok, roundtrip=ok,
                             text=(res['out'] or '')[:300]))
        # what -j WRITES parses back too - whatever already sits under the result file's name (nothing, the
        # result of an earlier run with other options, a shorter or a longer file)
        outdir = os.path.join(seams.scratch_dir('c06'), 'out')
        shutil.rmtree(outdir, ignore_errors=True)
        os.makedirs(outdir)
        runs = [(['-p', d, '-j', '-o', outdir, '-E'], 'fresh')]
        # (options that mean something to OTHER modes ride along: what -j writes is the document all the same)
        runs.append((['-p', d, '-j', '-o', outdir, '-E'] + rng.choice([['-P'], [], ['-P'], ['-x'], ['-x', '-P', '-r'], ['-r'], ['-H', '-N']]),
                     rng.choice(['rerun', 'longer', 'shorter', 'mixed'])))
        if rng.random() < .5:
            runs.append((['-p', d, '-j', '-o', outdir, '-E'], 'mixed'))
        for argv, pre in runs:
            if pre != 'fresh':
                for fn in sorted(os.listdir(outdir)):
                    fp = os.path.join(outdir, fn)
                    how = pre if pre != 'mixed' else rng.choice(['rerun', 'longer', 'shorter'])
                    if how == 'longer':
                        with open(fp, 'a') as f:
                            f.write(rng.choice(['\n', ' ', '{"old": "%s"}\n' % ('x' * rng.randrange(1, 3000)),
                                                '}' * rng.randrange(1, 40)]) * rng.randrange(1, 4))
                    elif how == 'shorter':
                        with open(fp, 'r+') as f:
                            f.truncate(rng.randrange(0, max(1, os.path.getsize(fp))))
            del calls[:]
            seams.run_cli(argv)
            # the document of each input file: what the decoder produces for it under the same options
            wants = {}
            from pel.datastream import DataStream
            from pel.peltool.config import Config
            cfg = Config()
            cfg.every_pel = True
            cfg.allow_plugins = '-P' not in argv
            for fn in sorted(os.listdir(d)):
                with open(os.path.join(d, fn), 'rb') as f:
                    raw = f.read()
                try:
                    _, text = pt.parsePEL(DataStream(raw, byte_order='big', is_signed=False), cfg, False)
                    doc = json.loads(text)
                    wants[str(doc['Private Header']['Entry Id'])[2:].upper()] = doc
                except Exception:
                    pass
            names = sorted(os.listdir(outdir))
            for fn in names:
                with open(os.path.join(outdir, fn), encoding='utf-8', errors='replace') as f:
                    text = f.read()
                eid = fn.split('.')[-2].upper() if fn.count('.') >= 2 else ''
                try:
                    back = strict_loads(text)
                    parses, rt = True, eid in wants and back == wants[eid]
                except ValueError:
                    parses, rt = False, False
                recs.append(dict(shape_ok=True, src='jsonfile-' + pre, inl=[], outl=[], parses=parses, roundtrip=rt,
                                 text=text[:300]))
            recs.append(dict(shape_ok=len(names) == len(wants) == case['n'] - (1 if deep_at >= 0 else 0), src='jsonfiles-' + pre, inl=[], outl=[],
                             parses=True, roundtrip=True, text='%d files %d documents' % (len(names), len(wants))))
        shutil.rmtree(outdir, ignore_errors=True)
    finally:
        pt.prettyPrint = orig
        shutil.rmtree(d, ignore_errors=True)
        shutil.rmtree(os.path.join(seams.scratch_dir('c06'), 'dir2'), ignore_errors=True)
    return recs


def _lengths(case):
    """one PEL per target: its text user data is stretched until the printed document has exactly the wanted number
    of characters; then -f, -a and -j must each give that document back"""
    import shutil
    import pel.peltool.peltool as pt
    from pel.datastream import DataStream
    from pel.peltool.config import Config
    rng = random.Random(case['seed'])
    cfg = Config()
    cfg.every_pel = True
    cfg.allow_plugins = False
    recs = []
    for t, variant in [(t, None) for t in case['targets']] + list(zip(case['targets'], case.get('variants', []))):
        seams.set_proc_variant(variant)
        pel = genpel.gen_pel(rng, kinds=['UD'], creator='O', sev=0x40, flags=0x2000, eid=encode.u32(0x50002000))

        def build(n):
            raw = ('T' + 'x' * n).encode()
            raw += b'\x00' * ((-len(raw)) % 4)
            pel['secs'][0] = dict(genpel.hdr(rng, 'UD'), kind='UD', comp=[0x20, 0x00], sub=3, ver=1, payload=list(raw))
            data = bytes(encode.encode(pel))
            _, text = pt.parsePEL(DataStream(data, byte_order='big', is_signed=False), cfg, False)
            return data, text
        n, data, text = 1, None, ''
        for _ in range(6):
            data, text = build(n)
            if len(text) == t or n + t - len(text) < 1:
                break
            n += t - len(text)
        hit = len(text) == t
        want = json.loads(text)
        d = os.path.join(seams.scratch_dir('c06'), 'len')
        shutil.rmtree(d, ignore_errors=True)
        os.makedirs(os.path.join(d, 'in'))
        os.makedirs(os.path.join(d, 'out'))
        fp = os.path.join(d, 'in', '50002000')
        seams.write_file(fp, data)
        for argv, mode in ((['-f', fp, '-E', '-P'], 'file'), (['-p', os.path.join(d, 'in'), '-a', '-E', '-P'], 'all'),
                           (['-p', os.path.join(d, 'in'), '-i', '0x50002000', '-E', '-P'], 'file')):
            res = seams.run_cli(argv)
            try:
                printed = strict_loads(res['out'])
                ok = printed == ([want] if mode == 'all' else want)
            except ValueError:
                ok = False
            recs.append(dict(shape_ok=hit, src='stdout-%s-len%s' % (mode, '-' + variant if variant else ''), inl=[], outl=[], parses=ok, roundtrip=ok,
                             text='%d chars: %s' % (len(text), (res['out'] or '')[:200])))
        seams.run_cli(['-p', os.path.join(d, 'in'), '-j', '-o', os.path.join(d, 'out'), '-E', '-P']
                      + [[], ['-x'], ['-r'], []][t % 4])
        names = os.listdir(os.path.join(d, 'out'))
        ok = False
        if len(names) == 1:
            with open(os.path.join(d, 'out', names[0]), encoding='utf-8', errors='replace') as f:
                got = f.read()
            try:
                ok = strict_loads(got) == want
            except ValueError:
                ok = False
        recs.append(dict(shape_ok=hit and len(names) == 1, src='jsonfile-len' + ('-' + variant if variant else ''), inl=[], outl=[], parses=ok, roundtrip=ok,
                         text='%d chars, files %r' % (len(text), names)))
        shutil.rmtree(d, ignore_errors=True)
    seams.set_proc_variant(None)
    return recs


def run_case(case):
    if case['kind'] == 'lengths':
        return _lengths(case)
    return _docs(case) if case['kind'] == 'docs' else _pels(case)


def nontrivial(r):
    t = r['text']
    if r['inl'] and any(c in t for c in '\\{') or t.count('":') > t.count('": '):
        return t
    return None


def fingerprint(r, clauses):
    return 'C06:%s:%s' % ('+'.join(clauses), r['src'].split(':')[0])


def sample(r):
    return dict(src=r['src'], text=r['text'][:200], lines=len(r['inl']), roundtrip=r['roundtrip'])


def corrupt(r):
    if not r['outl']:
        return None
    r['outl'][0] = [120] + r['outl'][0]
    return r
