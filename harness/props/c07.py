"""C07 - PEL selection follows the documented class/severity/--only rules.

MC   : spec/mc/MC_Selection  (Impl-shaped considerPEL against Selection!RuleSet)
Bind : (a) the real considerPEL swept over option records x severities x flag
           words, recorded as bit maps, judged by Trace_C07!BitmapOK
       (b) the real CLI (peltool.main, -l / -a / -n and look-ups) on a directory of
           PELs covering the (severity, flag) classes, judged by Trace_C07!CliOK
"""
import itertools
import json
import os
import random

from .. import encode, seams

ID = 'C07'
LEVEL = 'model_checking'
TRACE = 'trace/Trace_C07'
PROCESS_EVERY = 5         # every fifth case runs the command line as a real process (seams.PROC_VARIANTS)
RULE = ('case = one option record (6 switches x subset of 7 severity groups x look-up key) swept over '
        'severities x action-flag words through the real considerPEL, or one CLI invocation on a '
        'directory of PELs; non-trivial = the recorded verdict vector is neither all-selected nor '
        'all-rejected; distinct = by option record + mode')
ASSUMPTIONS = [
    'look-ups combined with selection options are outside the statement and are not generated',
    'for the undefined severities 0x01..0x0F either reading of "informational" (byte 0x00 only / whole '
    'group) is accepted for the serviceable test',
    'TLC and the TLA+ transcription of the documented rules (Selection!RuleWith) are trusted',
]
EXHAUSTIVE = {'quick': False, 'thorough': True}
GROUPS = [0, 1, 2, 4, 5, 6, 7]
GROUP_NAMES = {0: 'Informational', 1: 'Recovered', 2: 'Predictive', 4: 'Unrecoverable', 5: 'Critical',
               6: 'Diagnostic', 7: 'Symptom'}
LOOKUPS = ['plid', 'src', 'bmcID', 'pelID', 'srcExclude']
QUICK_SEVS = list(range(16)) + [16, 31, 32, 36, 47, 48, 63, 64, 72, 79, 80, 81, 82, 95, 96, 97, 111,
                                 112, 113, 118, 127, 128, 129, 160, 255]
COMBOS = [0, 0x2000, 0x4000, 0x6000, 0x8000, 0xA000, 0xC000, 0xE000]


# SelectionProof.tla: considerPEL (as repaired) meets the documented rules for every severity byte, flag word and option record
PROOFS = ['SelectionProof']


def model_checks(tier):
    if tier == 'quick':
        return [dict(module='mc/MC_Selection', cfg='mc/MC_Selection_quick', must_cover=['Evaluate'])]
    return [dict(module='mc/MC_Selection', cfg='mc/MC_Selection_full', must_cover=['Evaluate'],
                 timeout=3600)]


def _opt(sw, sevs, lookup):
    every, sv, nsv, hid, term, only = sw
    return dict(every=every, sv=sv, nsv=nsv, hid=hid, term=term, only=only, sevs=list(sevs),
                lookup=lookup)


def all_options():
    out = []
    for sw in itertools.product([False, True], repeat=6):
        for m in range(128):
            sevs = [g for k, g in enumerate(GROUPS) if m >> k & 1]
            out.append(_opt(sw, sevs, 'none'))
    for lk in LOOKUPS:
        out.append(_opt((False,) * 6, [], lk))
    return out


def cases(tier, seed, info):
    rng = random.Random(seed)
    opts = all_options()
    others = [0, 0x1FFF] + [rng.randrange(0x2000) for _ in range(0 if tier == 'quick' else 2)]
    flags = [c | x for x in others for c in COMBOS][:16]
    sevs = QUICK_SEVS if tier == 'quick' else list(range(256))
    out = []
    B = 32
    for k in range(0, len(opts), B):
        out.append(dict(kind='bitmap', opts=opts[k:k + B], sevs=sevs, flags=flags))
    info['bitmap_option_records'] = len(opts)
    info['bitmap_severities'] = len(sevs)
    info['bitmap_flag_words'] = len(flags)
    if tier == 'thorough':
        # every one of the 65536 flag words, for a spread of option records
        pick = [opts[j] for j in (0, 1, 129, 2048 + 5, 4096 + 64, 1024 + 127, 8191, 8192, 8194)]
        pick += rng.sample(opts, 7)
        fsevs = [0, 5, 16, 64, 81, 96, 255]
        for o in pick:
            for base in range(0, 65536, 16 * 64):
                out.append(dict(kind='bitmap', opts=[o] * 64, sevs=fsevs,
                                flagblocks=[list(range(base + 16 * b, base + 16 * b + 16)) for b in range(64)]))
        info['full_flag_sweep_option_records'] = len(pick)
    # CLI wiring
    switches = list(itertools.product([False, True], repeat=6))
    if tier == 'quick':
        subsets = [[], [5], [0, 4]]
    else:
        subsets = [[], [5], [0, 4], [0], [1, 2], [6, 7], GROUPS, [2, 4, 5]]
    cli = []
    for sw in switches:
        for ss in subsets:
            for mode in ('list', 'all', 'count', 'json'):
                cli.append(dict(o=_opt(sw, ss, 'none'), mode=mode))
    for rep in range(3):           # (three times each: they land in different cases, i.e. environments / process variants)
        for lk in ('plid', 'src', 'srcExclude'):
            cli.insert((rep * 97) % (len(cli) + 1), dict(o=_opt((False,) * 6, [], lk), mode=lk))
    # the look-ups that display ONE PEL: every class of PEL must be found without selection options
    # (PEL number 1 carries BMC event log id 0)
    npel = len(CLI_SEVS) * len(CLI_FLAGS)
    targets = sorted(set([1, 2, 3] + list(range(1, len(CLI_FLAGS) + 1)) +
                         rng.sample(range(1, npel + 1), 10 if tier == 'quick' else npel)))
    for t in targets + [1, 1]:
        for lk in ('bmcID', 'pelID'):
            cli.append(dict(o=_opt((False,) * 6, [], lk), mode=lk, target=t))
    for k in range(0, len(cli), 12):
        out.append(dict(kind='cli', runs=cli[k:k + 12], seed=seed))
    info['cli_invocations'] = len(cli)
    return out


# ---------------------------------------------------------------------------

def _spell(o):
    """the chosen severity groups as a user may name them: in any order, some of them twice"""
    sevs = list(o['sevs'])
    if not sevs:
        return sevs
    h = sum(sevs) * 7 + len(sevs) + 2 * o['only'] + 3 * o['hid'] + 5 * o['nsv']
    if h % 3 == 1:
        sevs = sevs[::-1]
    if h % 2 == 0:
        sevs = sevs + [sevs[0]] + ([sevs[-1], sevs[0]] if h % 4 == 0 else [])
    return sevs


def _config(o):
    from pel.peltool.config import Config
    c = Config()
    c.every_pel, c.serviceable, c.non_serviceable = o['every'], o['sv'], o['nsv']
    c.hidden, c.critSysTerm, c.only = o['hid'], o['term'], o['only']
    c.severities = _spell(o)
    lk = o['lookup']
    if lk == 'plid':
        c.plid = '0x50000001'
    elif lk == 'src':
        c.src = 'BD8D'
    elif lk == 'bmcID':
        c.bmcID = '17'
    elif lk == 'pelID':
        c.pelID = '0x50000001'
    elif lk == 'srcExclude':
        c.srcExcludeFile = '/nonexistent/exclude.txt'
    return c


def _bitmaps(case):
    from pel.peltool.peltool import considerPEL
    from pel.peltool.user_header import UserHeader
    uh = UserHeader(None, 0x5548, 24, 1, 0, 0, 'O')
    recs = []
    blocks = case.get('flagblocks')
    for k, o in enumerate(case['opts']):
        cfg = _config(o)
        flags = blocks[k] if blocks else case['flags']
        v = []
        shape = True
        for s in case['sevs']:
            uh.eventSeverity = s
            m = 0
            for j, f in enumerate(flags):
                uh.actionFlags = f
                r = considerPEL(uh, cfg)
                if r is not True and r is not False:
                    # truthiness is what the callers use
                    r = bool(r)
                if r:
                    m |= 1 << j
            v.append(m)
        recs.append(dict(kind='bitmap', shape_ok=shape, o=o, sevs=case['sevs'], flags=flags, v=v))
    return recs


# PEL directory for the CLI runs: one PEL per (severity, flag word) class; severities
# 0x01..0x0F are left out so that the selected set is determined by the statement.
CLI_SEVS = [0x00, 0x10, 0x20, 0x40, 0x50, 0x51, 0x60, 0x71, 0x24, 0x45, 0xA0]
CLI_FLAGS = [0x0000, 0x2000, 0x6000, 0x8000, 0xA800, 0xC000, 0x4020, 0xE100]


def _cli_dir():
    d = seams.scratch_dir('c07dir')
    pels = []
    n = 0
    for s in CLI_SEVS:
        for f in CLI_FLAGS:
            n += 1
            pels.append(dict(sev=s, flags=f, eid=n))
    if not os.listdir(d):
        for p in pels:
            eid = 0x50000000 + p['eid']
            pel = encode.mk_pel(ph=encode.mk_ph(eid=eid, plid=0x50000001, bmc=p['eid'] - 1),
                                uh=encode.mk_uh(sev=p['sev'], flags=p['flags']),
                                secs=[encode.mk_src('BD8D%04X' % p['eid'])])
            seams.write_file(os.path.join(d, '%08X_pel' % eid), encode.encode(pel))
        with open(os.path.join(os.path.dirname(d), 'c07_exclude.txt'), 'w') as fh:
            fh.write('')
    return d, pels


def _argv(o, mode, d, target=None):
    a = ['-p', d]
    if mode == 'bmcID':
        return a + ['--bmc-id', str(target - 1)]
    if mode == 'pelID':
        return a + ['-i', '0x%08X' % (0x50000000 + target)]
    for key, flag in (('every', '-E'), ('sv', '-s'), ('nsv', '-N'), ('hid', '-H'), ('term', '-t'),
                      ('only', '-O')):
        if o[key]:
            a.append(flag)
    a += {'list': ['-l'], 'all': ['-a'], 'count': ['-n'], 'json': ['-j', '-o', os.path.join(os.path.dirname(d), 'c07out')],
          'plid': ['--plid', '0x50000001'],
          'src': ['--src', 'BD8D'],
          'srcExclude': ['--src-exclude', os.path.join(os.path.dirname(d), 'c07_exclude.txt')]}[mode]
    if o['sevs']:
        # -S is nargs='+': keep it last
        a += ['-S'] + [GROUP_NAMES[g] for g in _spell(o)]
    return a


def _eid_num(s):
    return int(s, 16) - 0x50000000


def _cli(case):
    d, pels = _cli_dir()
    recs = []
    for run in case['runs']:
        o, mode = run['o'], run['mode']
        outd = os.path.join(os.path.dirname(d), 'c07out')
        if mode == 'json':
            import shutil
            shutil.rmtree(outd, ignore_errors=True)
            os.makedirs(outd)
        tgt = run.get('target')
        res = seams.run_cli(_argv(o, mode, d, tgt))
        rec = dict(kind='cli', o=o, mode=mode, pels=pels if tgt is None else [p for p in pels if p['eid'] == tgt],
                   selected=[], count=-1, exit=res['exit'],
                   shape_ok=True, argv=_argv(o, mode, '<dir>', tgt))
        try:
            if res['uncaught']:
                raise ValueError('uncaught: ' + res['uncaught'][-300:])
            if mode == 'json':
                # one <file>.<EID>.json per selected PEL
                names = sorted(os.listdir(outd))
                rec['selected'] = [_eid_num(n.split('.')[-2]) for n in names]
                rec['count'] = len(names)
                doc = None
            elif mode in ('bmcID', 'pelID') and res['out'].strip() in ('', 'PEL not found'):
                doc, rec['count'] = None, 0
            else:
                doc = json.loads(res['out'])
            if mode == 'json' or doc is None:
                pass
            elif mode in ('bmcID', 'pelID'):
                rec['selected'] = [_eid_num(doc['Private Header']['Entry Id'])]
                rec['count'] = 1
            elif mode == 'count':
                rec['count'] = int(doc['Number of PELs found'])
            elif mode == 'all':
                rec['selected'] = [_eid_num(x['Private Header']['Entry Id']) for x in doc]
                rec['count'] = len(doc)
            else:
                rec['selected'] = [_eid_num(k) for k in doc.keys()]
                rec['count'] = len(doc)
            if any((not isinstance(x, int)) or x < 0 or x > 60000 for x in rec['selected']):
                raise ValueError('entry ids out of range')
        except Exception as e:   # output not of the expected shape: the Judge rejects it (clause Shape)
            rec['shape_ok'] = False
            rec['shape_error'] = repr(e)[:300]
            rec['selected'] = []
        recs.append(rec)
    return recs


def run_case(case):
    if case['kind'] == 'bitmap':
        return _bitmaps(case)
    return _cli(case)


def nontrivial(r):
    if r['kind'] == 'bitmap':
        full = (1 << len(r['flags'])) - 1
        if all(x == 0 for x in r['v']) or all(x == full for x in r['v']):
            return None
        return ('b', json.dumps(r['o'], sort_keys=True), tuple(r['flags'][:2]))
    if r['count'] in (0, len(r['pels'])):
        return None
    return ('c', json.dumps(r['o'], sort_keys=True), r['mode'])


def fingerprint(r, clauses):
    o = r['o']
    return 'C07:%s:%s:lookup=%s:only=%s' % (r['kind'], '+'.join(clauses), o['lookup'], o['only'])


def sample(r):
    if r['kind'] == 'bitmap':
        return dict(kind='bitmap', options=r['o'], severities=r['sevs'][:6], flag_words=r['flags'][:6],
                    verdict_masks=r['v'][:6])
    return dict(kind='cli', argv=r['argv'], selected=r['selected'][:10], count=r['count'], exit=r['exit'])


def corrupt(r):
    if r['kind'] == 'bitmap':
        r['v'][0] ^= 1
    else:
        r['count'] += 1
    return r
