"""C02 - header-type sections display exactly the values encoded in the log.

Spec : PelFormat.tla (layout) + PelDisplay.tla (Show* = what must be shown) + PelTables.tla
Bind : generated PELs with Private/User Header, Extended User Header, Failing MTMS and Impacted
       Partition sections, every field swept through boundary values and all values of each
       coded byte, are decoded by the real parsePEL; harness/project.py brings each entry into
       the record shape of PelDisplay and Trace_Pel compares field by field (one clause per
       displayed field, so a rejection names the field).
"""
import random

import os

from .. import encode, genpel, pelrun, seams

ID = 'C02'
LEVEL = 'model_checking'
TRACE = 'trace/Trace_Pel'
PROCESS_EVERY = 4         # every fourth case decodes through the real tool as a real process (seams.PROC_VARIANTS)
RULE = ('case = one well-formed PEL (PH, UH + EH, MT, LP sections) with swept field values, decoded by the real '
        'parsePEL; every displayed field of every section is compared with PelDisplay!Show*; non-trivial = every '
        'record (each carries >= 30 compared fields); distinct = by encoded bytes')
ASSUMPTIONS = [
    'ids and counts are compared numerically (leading zeros / case are not violations); timestamps and text literally',
    'text fields are printable ASCII with NUL padding (the quantifier), creator ids below 0x80',
    'no component-id registry is installed in the sandbox (names fall back to 4 hex digits); the fixture-registry '
    'run covers the named case',
    'the spec is used as an executable reference under TLC (encode/decode fidelity), see DESIGN.md 10',
]


def model_checks(tier):
    return [dict(module='mc/MC_PelDisplay', must_cover=['Evaluate'])]


def cases(tier, seed, info):
    n = 1500 if tier == 'quick' else 70000     # thorough: (k * 37) mod 65536 sweeps every action-flag word
    out = [dict(seed=seed * 1000003 + j, start=j, n=50, tier=tier) for j in range(0, n, 50)]
    info['pels'] = n
    return out


BOUND32 = [0, 1, 0xFF, 0x100, 0xFFFF, 0x10000, 0x0FFFFFFF, 0x10000000, 0x7FFFFFFF, 0x80000000, 0xFFFFFFFF,
           0x01020304, 0x00ABCDEF]


def build(rng, k, tables=None):
    creator = chr(k % 128) if k % 3 == 0 else rng.choice(genpel.CREATORS)
    if creator in ('\x00',) and k % 6:
        creator = 'O'
    if tables and k % 2:
        creator = rng.choice(sorted(tables))             # creators that have a table of component names
    pel = genpel.gen_pel(rng, kinds=[], creator=creator)
    ph, uh = pel['ph'], pel['uh']
    ph['ver'], ph['sub'] = k % 256, (k * 7) % 256
    ph['plid'] = encode.u32(BOUND32[k % len(BOUND32)]) if k % 2 else genpel.rid32(rng)
    ph['eid'] = encode.u32(BOUND32[(k // 2) % len(BOUND32)]) if k % 3 == 1 else genpel.rid32(rng)
    ph['bmc'] = encode.u32(BOUND32[(k // 3) % len(BOUND32)]) if k % 5 == 1 else genpel.rid32(rng)
    if k % 7 == 0:
        ph['cssver'] = [0] * (k % 8) + [0xFF] * (8 - k % 8)
    uh['subsys'] = k % 256
    uh['scope'] = (k // 3) % 256 if k % 2 else k % 6
    uh['sev'] = (k * 5) % 256
    uh['etype'] = (k * 3) % 256 if k % 4 else rng.choice([0, 1, 2, 8, 0x30])
    uh['flags'] = encode.u16((k * 37) % 65536) if (k % 3 or k >= 3000) else encode.u16(1 << (k % 16))
    uh['states'] = [rng.randrange(256), rng.randrange(256), (k // 2) % 256 if k % 2 else k % 5, k % 256 if k % 3 else k % 5]
    secs = []
    eh = genpel.gen_eh(rng)
    if k % 4 == 0:
        eh['symptom'] = encode.text(genpel.rtext(rng, max(1, (k // 4) % 256 - 2)), (k // 4) % 256) if (k // 4) % 256 else []
    if k % 5 == 0:     # machine type shorter than its field
        eh['mtm'] = genpel.padded(rng, 8)
    secs.append(eh)
    secs.append(genpel.gen_mt(rng))
    lp = genpel.gen_lp(rng, ntargets=(k // 2) % 256 if k % 2 else None, namelen=(k // 3) % 256 if k % 3 == 0 else None)
    secs.append(lp)
    if k % 9 == 0:
        secs.append(genpel.gen_lp(rng, ntargets=3, namelen=4))
    rng.shuffle(secs)
    if k % 7 == 3:
        # an extended user data section from ANOTHER creator in front of (or between) the header-type sections: whose
        # log it is does not change
        other = rng.choice([c for c in 'OBHM' if c != creator])
        secs.insert(rng.choice([0, 0, 1]), genpel.gen_ed(rng, creator=other))
    pel['secs'] = secs
    if tables and creator in tables:
        ids = [[int(key[0:2], 16), int(key[2:4], 16)] for key in sorted(tables[creator])]
        for h in [ph, uh] + secs:
            if rng.random() < .6:
                h['comp'] = list(rng.choice(ids))
    return pel


def run_case(case):
    rng = random.Random(case['seed'])
    recs = []
    # two cases in three: component names come from <creator>_component_ids.json files that the tool's own loader
    # reads on first use - several creators with tables are decoded in one process
    with_tables = (case['start'] // 50) % 3 != 0
    if with_tables:
        names = seams.install_comp_tables(os.path.join(seams.scratch_dir('c02'), 'pels-config'))
        env = dict(names=names, registry=[])
    else:
        seams.no_comp_tables()
        env = None
    for k in range(case['start'], case['start'] + case['n']):
        recs.append(pelrun.observe(build(rng, k, seams.COMP_TABLES if with_tables else None), 'C02', plugins=False,
                                   standalone=False, env=env))
    return recs


def nontrivial(r):
    return bytes(r['bytes'])


def fingerprint(r, clauses):
    return 'C02:' + '+'.join(clauses)


def sample(r):
    return dict(pel_bytes=len(r['bytes']), sections=[s['kind'] for s in r['abs']['secs']],
                shown_ph={k: r['shown']['ph'].get(k) for k in ('plid', 'eid', 'bmc', 'creator')},
                outcome=r['outcome'])


def corrupt(r):
    if not r['shown']['ph']:
        return None
    r['shown']['ph']['plid'][3] ^= 1
    return r
