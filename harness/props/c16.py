"""C16 - history logs show a full hex dump and exactly the non-zero fields.

MC   : spec/mc/MC_Hlog (field cursor: contiguous from 0, stop at the first misfit, non-zero filter),
       spec/mc/MC_HexDump
Bind : real parse_hlog_data on both shipped field tables (independent reader, cross-checked by
       MEX_HLOG_FIELD_COUNT) and synthetic tables in varied surface syntax; every length from 0 past
       the full record; all-zero / all-ones / single-byte-set / random records.  Trace_Drawer:
       DumpLossless (HexDump!Parse of the dump part = data), Fields = Hlog!NonZeroFields.
"""
import os
import random

from .. import drawer, seams

ID = 'C16'
LEVEL = 'model_checking'
TRACE = 'trace/Trace_Drawer'
RULE = ('case = one history-log byte string decoded by the real parse_hlog_data against one field table (shipped or '
        'synthetic); non-trivial = at least one field is listed and at least one is not; distinct = by (table, data)')
ASSUMPTIONS = [
    'field lines are read as <name><separator><hex value>: the name is the text before the last colon, the value the '
    'trailing hex digits (an optional 0x prefix is ignored)',
]


def model_checks(tier):
    return [dict(module='mc/MC_Hlog', must_cover=['Evaluate'], workers=4)]


def cases(tier, seed, info):
    n = 1000 if tier == 'quick' else 100000
    out = [dict(seed=seed * 977 + j, start=j, n=50) for j in range(0, n, 50)]
    info['records'] = n
    return out


def one(rng, k):
    from io_drawer.hlog import parse_hlog_data
    if k % 3 == 0:
        fname = ['mex_pte.h', 'nimitz_pte.h'][(k // 3) % 2]
        path = os.path.join(drawer.io_dir(), fname)
        fields, count = drawer.read_hlog_fields(path)
        if count is None or len(fields) != count:
            raise RuntimeError('independent reader disagrees with MEX_HLOG_FIELD_COUNT')
        label = fname
    else:
        fields = [dict(size=rng.choice([1, 2]), name=rng.choice(['hl_', 'f', 'cnt_', 'temp\u00e9rature_', '\u00b5', '\u4e2d', 'hl_\x0cff_', 'gs\x1d_', 'ps\u2029_']) +
                       '%d_%s' % (j, rng.choice(['crc', 'x', 'failures', '\u00b5\u00b5'])))
                  for j in range(rng.randint(0, 12))]
        # a table may declare the same entry again (reserved / filler fields): same name, same or another width
        for _ in range(rng.choice([0, 0, 1, 2, 3])):
            if fields:
                twin = dict(rng.choice(fields))
                if rng.random() < .3:
                    twin['size'] = 3 - twin['size']
                fields.insert(rng.randrange(len(fields) + 1), twin)
        d = seams.scratch_dir('c16')
        path = os.path.join(d, 'synthetic_hlog.h')
        with open(path, 'w') as f:
            f.write(drawer.render_hlog_header(rng, fields))
        label = 'synthetic'
    total = sum(f['size'] for f in fields)
    L = [0, 1, total - 1, total, total + 1, total + 3, rng.randrange(0, total + 4)][k % 7]
    L = max(0, L)
    mode = k % 5
    if mode == 0:
        data = [0] * L
    elif mode == 1:
        data = [0xFF] * L
    elif mode == 2:
        data = [0] * L
        if L:
            data[rng.randrange(L)] = rng.randrange(1, 256)
    else:
        data = [rng.choice([0, 0, 0, rng.randrange(256)]) for _ in range(L)]
    route = 'direct'
    if label in ('mex_pte.h', 'nimitz_pte.h') and (k // 3) % 4 == 3 and data:
        # as the user-data section of an I/O drawer error log, shown by `peltool -f` run as a real process in one of
        # the ordinary environments (python -O among them)
        route = 'process'
        lines = drawer.lines_via_process(72, {'mex_pte.h': 1, 'nimitz_pte.h': 2}[label], data,
                                         seams.PROC_ROTATION[(k // 12) % len(seams.PROC_ROTATION)])
    elif label in ('mex_pte.h', 'nimitz_pte.h') and (k // 3) % 4 >= 1:
        # through the I/O drawer plug-in, which picks table and decoder by section version: the two drawer types take
        # turns in one process, and what one of them declares says nothing about the other
        import json
        import udparsers.m2c00.m2c00 as plug
        route = 'plugin'
        out = json.loads(plug.parseUDToJson(72, {'mex_pte.h': 1, 'nimitz_pte.h': 2}[label], memoryview(bytes(data))))
        lines = out.get('History Log') if isinstance(out, dict) and isinstance(out.get('History Log'), list) else None
        if lines is None or (not lines and not data):
            # (nothing to decode: the plug-in shows an empty list, the decoder itself is asked instead)
            lines, route = parse_hlog_data(memoryview(bytes(data)), path), 'direct'
    else:
        lines = parse_hlog_data(drawer.view(data, k), path)
    rec = dict(family='C16', shape_ok=True, label=label, fields=[dict(name=drawer.cp(f['name']), size=f['size']) for f in fields],
               data=data, dump=[], listed=[], dump_first=False, route=route)
    try:
        blank = lines.index('')
        rec['dump'] = [drawer.cp(x) for x in lines[2:blank]]
        rec['dump_first'] = blank >= 2
        for ln in lines[blank + 3:]:
            name, _, val = ln.rpartition(':')
            val = val.strip()
            if val.lower().startswith('0x'):
                val = val[2:]
            if not name or not val or any(c not in '0123456789abcdefABCDEF' for c in val):
                raise ValueError('field line not of the form name: value -> %r' % ln)
            rec['listed'].append(dict(name=drawer.cp(name), digits=drawer.cp(val.upper())))
    except ValueError as e:
        rec['shape_ok'] = False
        rec['shape_error'] = repr(e)[:200]
    return rec


def run_case(case):
    rng = random.Random(case['seed'])
    return [one(rng, k) for k in range(case['start'], case['start'] + case['n'])]


def nontrivial(r):
    if r['listed'] and len(r['listed']) < len(r['fields']):
        return (r['label'], str(r['fields'])[:300], bytes(r['data']))
    return None


def fingerprint(r, clauses):
    return 'C16:%s:%s' % (r['label'], '+'.join(clauses))


def sample(r):
    return dict(table=r['label'], fields=len(r['fields']), data=r['data'][:24], listed=len(r['listed']))


def corrupt(r):
    r['listed'] = r['listed'] + [dict(name=[120], digits=[48, 49])]
    return r
