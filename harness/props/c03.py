"""C03 - SRC sections display the encoded words, flags and every callout faithfully.

MC   : spec/mc/MC_SrcCallouts (callout walk: count, order, no desynchronisation)
Gen  : spec/gen/Gen_SrcShape emits every callout shape (FRU flag combination x PCE x MRU x
       location code length); the harness composes SRC sections from them with
       distinguishable 32-bit words, all SRC types, word counts 1..9, flag bytes
Bind : real parsePEL (plugins off) -> project.src -> Trace_Pel: one clause per displayed field,
       per-callout field clauses, CalloutCount, and the registry message (registry entries are
       installed through the documented module state src.registry.pels / comp_id.componentIDs).
"""
import random

from .. import encode, genpel, pelrun, tlc

ID = 'C03'
LEVEL = 'model_checking'
TRACE = 'trace/Trace_Pel'
PROCESS_EVERY = 4         # every fourth case decodes through the real tool as a real process (seams.PROC_VARIANTS)
RULE = ('case = one well-formed PEL with 1-3 SRC sections composed from TLC-enumerated callout shapes (all 960 shapes '
        'are used), all SRC types / word counts / flag bits, with and without a message registry; non-trivial = '
        'the SRC has at least one callout or a registry message; distinct = by bytes')
ASSUMPTIONS = [
    'every generated callout has a FRU identity (mandatory in the platform format); PCE names have >= 1 byte',
    'registry messages use in-order %1..%n placeholders and no braces',
    'parser plugins are off for these runs (SRC Details / procedure descriptions are C18)',
]


def model_checks(tier):
    return [dict(module='mc/MC_SrcCallouts', cfg='mc/MC_SrcCallouts_repaired', must_cover=['Next'], workers=8)]


def cases(tier, seed, info):
    shapes, _ = tlc.generate('gen/Gen_SrcShape')
    info['callout_shapes_from_tlc'] = len(shapes)
    rng = random.Random(seed + 3)
    rng.shuffle(shapes)
    reps = 1 if tier == 'quick' else 60
    items = []
    pos = 0
    total = len(shapes) * reps
    k = 0
    while pos < total:
        n = [1, 2, 3, 4, 1, 2, 0, 10][k % 8]
        sh = [shapes[(pos + j) % len(shapes)] for j in range(n)]
        pos += max(n, 1) if n else 0
        items.append(dict(shapes=sh, k=k))
        k += 1
    for j in range(64 if tier == 'quick' else 6000):      # no callout subsection at all
        items.append(dict(shapes=None, k=k + j))
    out = [dict(seed=seed * 8191 + j, items=items[j:j + 20]) for j in range(0, len(items), 20)]
    # the same kind of PELs decoded in a fresh interpreter in which registry and component names are found by the
    # tool's own loaders (a pel_registry package with the files next to it)
    nf = 3 if tier == 'quick' else 40
    for j in range(nf):
        out.append(dict(seed=seed * 8191 + 100000 + j, fresh=True,
                        items=[dict(shapes=items[(j * 16 + q) % len(items)]['shapes'], k=4 * (j * 16 + q)) for q in range(16)]))
    info['pels'] = len(items) + 16 * nf
    info['fresh_interpreter_runs_with_loaded_registry'] = nf
    return out


REG = [
    dict(type='BD', reason='2030', message='Power fault on rail %1 status %2', args=[6, 7]),
    dict(type='BD', reason='2030', message='second entry must not win', args=[]),
    # (more argument sources than the message has placeholders: the surplus is ignored)
    dict(type='11', reason='00AC', message='Fan %1 failed - 100% certain', args=[9, 3, 4]),
    dict(type='BC', reason='8A01', message='%1 then %2 then %3 and %4', args=[9, 2, 5, 8]),
    dict(type='BD', reason='E500', message='', args=[]),
]


def _install(reg_on):
    import pel.peltool.src as srcmod
    import pel.peltool.comp_id as comp_id
    pels = []
    names, registry = [], []
    if reg_on:
        for e in REG:
            doc = dict(Message=e['message'])
            if e['args']:
                doc['MessageArgSources'] = ['SRCWord%d' % a for a in e['args']]
            pels.append(dict(SRC=dict(ReasonCode='0x' + e['reason'], Type=e['type']), Documentation=doc))
            registry.append(dict(type=[ord(c) for c in e['type']], reason=[ord(c) for c in e['reason']],
                                 message=[ord(c) for c in e['message']], args=e['args']))
        comp_id.componentIDs.clear()
        comp_id.componentIDs.update({'O': {'1000': 'bmc common function', '2700': 'bmc power'},
                                     'B': {'0100': 'hb trace'}})
        for cr, m in comp_id.componentIDs.items():
            for kx, v in m.items():
                names.append(dict(creator=ord(cr), comp=[ord(c) for c in kx], name=[ord(c) for c in v]))
    else:
        comp_id.componentIDs.clear()
    comp_id.attemptedToParseCompIDs = True
    srcmod.registry.pels = pels
    return dict(names=names, registry=registry)


def build(rng, it):
    k = it['k']
    creator = ['O', 'B', 'H', 'O', 'M'][k % 5]
    pel = genpel.gen_pel(rng, kinds=[], creator=creator)
    kind = ['BD', '11', 'BC', 'other'][(k // 4 + k) % 4]      # (every kind meets the reason codes the registry knows: k % 4 == 0)
    secs = []
    nsrc = 1 + (k % 3 == 0) + (k % 7 == 0)
    for j in range(nsrc):
        sh = it['shapes'] if j == 0 else (it['shapes'][:1] if it['shapes'] else None)
        shp = None
        if sh is not None:
            shp = [dict(fru=x['fru'], pce=None if x['pce'] < 0 else x['pce'],
                        mru=None if x['mru'] < 0 else x['mru'],
                        loc=x['loc'] if x['loc'] != 20 else 4 * rng.randrange(1, 20)) for x in sh]
        s = genpel.gen_src(rng, 'PS' if j == 0 else 'SS', kind=kind if j == 0 else ['BD', 'BC', 'other'][k % 3],
                           ncallouts=len(sh) if sh is not None else -1, shapes=shp)
        s['wc'] = 1 + (k + j) % 9
        s['flags'] = (s['flags'] & 1) | ((k * 2 + j * 16) & 0xFE)
        if k % 4 == 0:
            # reason codes the registry knows
            ref = {'BD': 'BD8D2030', '11': '110000AC', 'BC': 'BC8A8A01', 'other': 'XY992030'}[kind if j == 0 else 'other']
            if k % 8 == 4 and kind == 'BD':
                ref = 'BD70E500'
            s['ascii'] = encode.text(ref, 32, 0x20)
        if k % 5 == 0:
            s['comp'] = [[0x10, 0x00], [0x27, 0x00], [0x01, 0x00]][k % 3]
        # words: all different, high bits set in some, small values in others (hex() drops leading zeros)
        base = [0x000000F0, 0x00012345, 0x80000001, 0x01000000, 0x22000000, 0xFFFFFFFF, 0x00000000, 0x0A0B0C0D]
        s['words'] = [encode.u32((base[(i + k) % 8] + i * 0x01010101 * (k % 3)) & 0xFFFFFFFF) for i in range(8)]
        if k % 2:
            s['words'][3][0] = [0x00, 0x20, 0x02, 0x01, 0x23, 0xFF][k % 6]
        secs.append(s)
        if nsrc == 3 and j == 1 and k % 2:
            secs.append(genpel.gen_mt(rng))          # something between the two secondary SRCs
    if k % 6 == 0:
        secs.append(genpel.gen_other(rng, rng.choice(['ID', 'PE', 'MR', 'XX'])))
    pel['secs'] = secs
    return pel


def _fresh_case(case):
    import json
    import os
    import shutil
    import subprocess
    from ..framework import REPO, VERIF
    from .. import seams, encode
    rng = random.Random(case['seed'])
    d = os.path.join(seams.scratch_dir('c03'), 'regpkg')
    shutil.rmtree(d, ignore_errors=True)
    pkg = os.path.join(d, 'pel_registry')
    os.makedirs(pkg)
    pels_json, registry = [], []
    for e in REG:
        doc = dict(Message=e['message'])
        if e['args']:
            doc['MessageArgSources'] = ['SRCWord%d' % a for a in e['args']]
        pels_json.append(dict(SRC=dict(ReasonCode='0x' + e['reason'], Type=e['type']), Documentation=doc))
        registry.append(dict(type=[ord(c) for c in e['type']], reason=[ord(c) for c in e['reason']],
                             message=[ord(c) for c in e['message']], args=e['args']))
    with open(os.path.join(pkg, 'message_registry.json'), 'w') as f:
        json.dump(dict(PELs=pels_json), f)
    with open(os.path.join(pkg, '__init__.py'), 'w') as f:
        f.write('import os\n\n\ndef get_registry_path():\n'
                '    return os.path.join(os.path.dirname(__file__), "message_registry.json")\n')
    tables = {'O': {'1000': 'bmc common function', '2700': 'bmc power'}, 'B': {'0100': 'hb trace'}}
    names = []
    for cr, t in tables.items():
        with open(os.path.join(pkg, cr + '_component_ids.json'), 'w') as f:
            json.dump(t, f)
        for kx, v in t.items():
            names.append(dict(creator=ord(cr), comp=[ord(c) for c in kx], name=[ord(c) for c in v]))
    pels = [build(rng, it) for it in case['items']]
    p = subprocess.run(['/venv/bin/python', os.path.join(VERIF, 'harness', 'c03_fresh.py')],
                       input=json.dumps(dict(repo=REPO, verif=VERIF, dir=d, pels=[bytes(encode.encode(x)).hex() for x in pels])),
                       stdout=subprocess.PIPE, stderr=subprocess.PIPE, text=True, timeout=120,
                       env=dict(os.environ, PYTHONDONTWRITEBYTECODE='1', PYTHONWARNINGS='ignore'))
    shutil.rmtree(d, ignore_errors=True)
    if p.returncode != 0:
        # the fresh interpreter died: whatever it was, it happened inside the tool's loaders / decoder
        return [dict(shape_ok=False, crashed=True, crash='fresh interpreter failed', where='c03_fresh',
                     case=p.stderr[-400:])]
    results = json.loads(p.stdout.strip().splitlines()[-1])
    env = dict(names=names, registry=registry)
    return [pelrun.observe(pel, 'C03', plugins=False, standalone=False, env=env, res=res,
                           extra=dict(loaded_by='the tool itself'))
            for pel, res in zip(pels, results)]


def run_case(case):
    if case.get('fresh'):
        return _fresh_case(case)
    rng = random.Random(case['seed'])
    recs = []
    for it in case['items']:
        env = _install(it['k'] % 2 == 0)
        try:
            pel = build(rng, it)
            recs.append(pelrun.observe(pel, 'C03', plugins=False, standalone=False, env=env))
        finally:
            _install(False)
    return recs


def nontrivial(r):
    for s, m in zip(r['abs']['secs'], r.get('messages', [])):
        if s['kind'] == 'SRC' and (s['callouts'] or m != [-1]):
            return bytes(r['bytes'])
    return None


def fingerprint(r, clauses):
    return 'C03:' + '+'.join(clauses)


def sample(r):
    s = [x for x in r['abs']['secs'] if x['kind'] == 'SRC'][0]
    return dict(refcode=''.join(chr(c) for c in s['ascii']).strip(), word_count=s['wc'],
                callouts=len(s['callouts'][0]['list']) if s['callouts'] else None,
                registry=bool(r['env']['registry']), outcome=r['outcome'])


def corrupt(r):
    for s in r['shown']['secs']:
        if s and 'wc' in s:
            s['wc'] += 1
            return r
    return None
