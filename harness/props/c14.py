"""C14 - ILOG decoding reports every entry with the first matching table message.

MC   : spec/mc/MC_Ilog (first match, reported retry only for error PTEs, suffix rule, entry cursor)
Bind : the real parse_ilog_data is run on (a) both shipped PTE tables - abstract tables read by an
       independent reader, cross-checked by PTE_TABLE_SIZE - with, for every pattern, matching PTEs
       per wildcard fill, their reported variants, near misses, plus random / all-zero entries,
       boundary timestamps and partial tails; (b) synthetic tables rendered from abstract tables in
       varied surface syntax (overlapping patterns, wildcards anywhere, digit parameter lists,
       out-of-range parameters, format / argument mismatches, escaped quotes).
       Trace_Drawer recomputes every line with Ilog!Render (Python %-formatting by PyFormat.tla).
"""
import os
import random

from .. import drawer, seams

ID = 'C14'
LEVEL = 'model_checking'
TRACE = 'trace/Trace_Drawer'
RULE = ('case = one ILOG byte string (up to ~150 entries) decoded by the real parse_ilog_data against one PTE table '
        '(shipped mex / nimitz, or synthetic); non-trivial = at least one entry matches a table pattern only through a '
        'wildcard or through the reported-flag retry, or no pattern at all; distinct = by (table, data)')
ASSUMPTIONS = [
    'patterns are 8 characters of hex digits and * (what the grammar of the shipped files produces)',
    'format directives are those of PyFormat.tla (%d %i %u %x %X %c %s %%, 0 flag, width, precision)',
    'the shipped tables are read by an independent reader and cross-checked by PTE_TABLE_SIZE - 1',
]
JUDGE_XMX = '4g'
HEXD = '0123456789ABCDEF'


def model_checks(tier):
    return [dict(module='mc/MC_Ilog', must_cover=['Evaluate'])]


def cases(tier, seed, info):
    out = []
    reps = 1 if tier == 'quick' else 30
    for name in ('mex_pte.h', 'nimitz_pte.h'):
        for rep in range(reps):
            for chunk in range(6):
                out.append(dict(kind='shipped', file=name, chunk=chunk, nchunks=6, seed=seed * 31 + rep * 7 + chunk))
    n = 64 if tier == 'quick' else 3000
    for k in range(n):
        out.append(dict(kind='synthetic', seed=seed * 8887 + k))
    info['shipped_runs'] = 12 * reps
    info['synthetic_tables'] = n
    return out


# byte values that text handling treats as blank / separator (what str.strip() and str.split() remove)
BLANKS = [0x20, 0x09, 0x0A, 0x0B, 0x0C, 0x0D, 0x1C, 0x1D, 0x1E, 0x1F, 0x85, 0xA0, 0x00, 0x25, 0x7B, 0x5C]


def fill(rng, pattern, mode):
    if mode == 'ws':
        # wildcard BYTES take blank-like (and format-like) values: a parameter shown with %c becomes such a character
        out = ''
        for j in range(0, len(pattern), 2):
            pair = pattern[j:j + 2]
            out += '%02X' % rng.choice(BLANKS) if pair == '**' else \
                ''.join(rng.choice(HEXD) if c == '*' else c.upper() for c in pair)
        return int(out, 16)
    out = ''
    for ch in pattern:
        if ch == '*':
            out += {'zero': '0', 'f': 'F', 'rand': rng.choice(HEXD)}[mode]
        else:
            out += ch.upper()
    return int(out, 16)


def entry_bytes(ts, seq, pte):
    return list(ts.to_bytes(2, 'big') + seq.to_bytes(2, 'big') + pte.to_bytes(4, 'big'))


TS = [0, 1, 59, 60, 3599, 3600, 35551, 36000, 65534, 65535, 12345]


def data_for(rng, table, lo, hi):
    data = []
    seq = rng.randrange(65536)
    for e in table[lo:hi]:
        pat = e['pattern']
        if len(pat) != 8 or any(c not in HEXD + 'abcdef*' for c in pat):
            continue
        for mode in ('zero', 'rand', 'ws') if '**' in pat else ('zero', 'rand'):
            pte = fill(rng, pat, mode)
            seq = (seq + 1) & 0xFFFF
            data += entry_bytes(rng.choice(TS), seq, pte)
            if (pte >> 28) == 0xE:
                seq = (seq + 1) & 0xFFFF
                data += entry_bytes(rng.choice(TS), seq, pte | 0x00040000)
        if rng.random() < .3:
            seq = (seq + 1) & 0xFFFF
            data += entry_bytes(rng.choice(TS), seq, fill(rng, pat, 'f') ^ (1 << rng.randrange(32)))     # near miss
        if rng.random() < .1:
            data += [0] * 8
    for _ in range(10):
        data += entry_bytes(rng.randrange(65536), rng.randrange(65536), rng.randrange(1 << 32))
    data += [0] * 8 + entry_bytes(0, 0, 1) + entry_bytes(0, 1, 0) + entry_bytes(1, 0, 0)
    data += [rng.randrange(256) for _ in range(rng.randrange(0, 8))]            # partial tail
    return data


MSGS = ['Plain message', 'caf\u00e9 %d \u4e2d', '100%% done', 'Value %d', 'Hex 0x%02X and %c', '%c%c', 'PS%d - Faults Cleared', 'Level = %.4X%%',
        'Two %x %X', 'Quote "N-Mode" %u', 'Too many %d %d %d', '100%', 'pad %02u:%02u', '%s', 'x%08Xy', '%.2X', '%i',
        'bad %q directive', 'trailing %']


def synthetic(rng):
    table = []
    base = ''.join(rng.choice(HEXD) for _ in range(8))
    for _ in range(rng.randint(1, 12)):
        kind = rng.random()
        if kind < .5:
            pat = ''.join(c if rng.random() < .7 else '*' for c in base)
        elif kind < .8:
            pat = 'E' + ''.join(rng.choice(HEXD + '**') for _ in range(7))
        else:
            pat = ''.join(rng.choice(HEXD + '*') for _ in range(8))
        if rng.random() < .2:
            pat = pat.lower()
        raw = [rng.choice([1, 2, 3, 4, 4, 3, 0, 5, 9, 12, 34]) for _ in range(rng.choice([0, 0, 1, 2, 2, 3]))]
        digits = [int(ch) for p in raw for ch in str(p)]
        table.append(dict(pattern=pat, msg=rng.choice(MSGS), raw_params=raw, params=[p for p in digits if 1 <= p <= 4]))
    return table


def run_case(case):
    from io_drawer.ilog import parse_ilog_data
    rng = random.Random(case['seed'])
    if case['kind'] == 'shipped':
        path = os.path.join(drawer.io_dir(), case['file'])
        table, size = drawer.read_pte_table(path)
        if size is None or len(table) != size - 1:
            raise RuntimeError('independent reader disagrees with PTE_TABLE_SIZE for %s' % path)
        n = len(table)
        lo, hi = case['chunk'] * n // case['nchunks'], (case['chunk'] + 1) * n // case['nchunks']
        data = data_for(rng, table, lo, hi)
        label = case['file']
    else:
        table = synthetic(rng)
        d = seams.scratch_dir('c14')
        path = os.path.join(d, 'synthetic_pte.h')
        with open(path, 'w') as f:
            f.write(drawer.render_pte_header(rng, table))
        data = data_for(rng, table, 0, len(table))
        label = 'synthetic'
    if case['kind'] == 'shipped':
        # the SAME entries are then decoded for the other drawer type, and for the first one again - through the
        # decoder itself and through the I/O drawer plug-in that picks table and decoder by section version: what one
        # table says about a PTE says nothing about the other's
        other = [f for f in ('mex_pte.h', 'nimitz_pte.h') if f != case['file']][0]
        tb, _ = drawer.read_pte_table(os.path.join(drawer.io_dir(), other))
        nb = len(tb)
        extra = data_for(rng, tb, case['chunk'] * nb // case['nchunks'], (case['chunk'] + 1) * nb // case['nchunks'])
        extra = extra[: min(len(extra) - len(extra) % 8, 8 * 60)]
        data = extra + data
        recs = []
        global _VARIANT
        from .. import seams as _s
        _VARIANT = 'opt' if case['chunk'] == 2 else _s.PROC_ROTATION[case['seed'] % len(_s.PROC_ROTATION)]
        for fname, tbl, route in ((case['file'], table, 'direct'), (other, tb, 'plugin'),
                                  (case['file'], table, ['plugin', 'direct', 'process'][case['chunk'] % 3])):
            recs.append(_decode(parse_ilog_data, data, os.path.join(drawer.io_dir(), fname), tbl, fname, route))
        return recs
    return [_decode(parse_ilog_data, data, path, table, label, 'direct')]


_VARIANT = 'plain'


def _decode(parse_ilog_data, data, path, table, label, route):
    out = None
    if route == 'process':
        # as the user-data section of an I/O drawer error log, shown by `peltool -f` run as a real process in one of
        # the ordinary environments
        from .. import seams
        lines = drawer.lines_via_process(73, {'mex_pte.h': 1, 'nimitz_pte.h': 2}[label], data,
                                         _VARIANT)
    elif route == 'plugin':
        import json
        import udparsers.m2c00.m2c00 as plug
        out = json.loads(plug.parseUDToJson(73, {'mex_pte.h': 1, 'nimitz_pte.h': 2}[label], memoryview(bytes(data))))
        lines = out.get('ILOG') if isinstance(out, dict) and isinstance(out.get('ILOG'), list) else None
    else:
        lines = parse_ilog_data(drawer.view(data, len(data) // 8), path)
    rec = dict(family='C14', shape_ok=lines is not None, label=label, table=drawer.abstract_pte(table), data=data,
               headings=min(2, len(lines or [])), lines=[], route=route)
    if lines is None:
        rec['shape_error'] = 'the plug-in returned no ILOG lines: %r' % (str(out)[:200],)
        return rec
    try:
        for ln in lines[2:]:
            ts, rest = ln[:8], ln[9:]
            if ln[8:9] != ' ':
                raise ValueError('no blank after the timestamp: %r' % ln)
            seq, pte, msg = rest.split(' ', 2)
            rec['lines'].append(dict(ts=drawer.cp(ts), seq=list(int(seq, 16).to_bytes(2, 'big')),
                                     pte=list(int(pte, 16).to_bytes(4, 'big')), msg=drawer.cp(msg)))
    except (ValueError, OverflowError) as e:
        rec['shape_ok'] = False
        rec['shape_error'] = repr(e)[:200]
    return rec


def nontrivial(r):
    if any(b'*'[0] in e['pattern'] for e in r['table']) and r['lines']:
        return (r['label'], bytes(r['data'][:256]), len(r['data']))
    return None


def fingerprint(r, clauses):
    return 'C14:%s:%s' % (r['label'], '+'.join(clauses))


def sample(r):
    return dict(table=r['label'], table_entries=len(r['table']), data_bytes=len(r['data']), lines=len(r['lines']),
                first=''.join(chr(c) for c in r['lines'][0]['msg']) if r['lines'] else None)


def corrupt(r):
    if not r['lines']:
        return None
    r['lines'][0]['pte'][3] ^= 1
    return r
