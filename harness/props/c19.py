"""C19 - decoding a PEL gives the same result whatever was decoded before it.

MC   : spec/mc/MC_DecodeHistory (all histories <= 4 over the import caches: HistoryIndependent,
       NoPoisoning)
Gen  : spec/gen/Gen_DecodeHistory: every history of 2 consultations, -simulate for longer ones
Bind : each item is realised as a PEL (fixture parser modules supply the behaviours), the history
       is played in ONE interpreter; after every decode the document and the projection of the
       real import caches are recorded; every PEL is also decoded FIRST in a fresh interpreter.
       Trace_C19 replays the history through DecodeHistory!ImplStep: CacheStep (model state =
       real caches after every step), SameAsFresh, NoForeignValue (unique sentinels per PEL),
       Repeatable.  Random long histories mixing damaged / shipped-plugin / header-only PELs and
       directory runs (-a, -a -r, file by file) go through the same judge.
"""
import json
import os
import random
import subprocess

from .. import encode, genpel, pelrun, project, seams, tlc
from ..framework import REPO, VERIF

ID = 'C19'
LEVEL = 'model_checking'
TRACE = 'trace/Trace_C19'
RULE = ('case = one history of 2-40 decode operations played in one interpreter (TLC-emitted over the model '
        'alphabet of 45 consultations, or seeded random incl. damaged and shipped-plugin PELs), every PEL also decoded '
        'first in a fresh interpreter; or one directory shown in both orders and file by file; non-trivial = the '
        'history contains a failing or absent parser consultation followed by another decode; distinct = by item sequence')
ASSUMPTIONS = [
    'fixture parser modules realise the behaviours; m1/m2/a1 of the model are x*/y*/q* modules',
    'the fresh-interpreter decode of the same bytes is the oracle document',
    'sentinels: every PEL of a history carries unique id / serial / reference-code values',
]
CASE_TIMEOUT = 900
PY = '/venv/bin/python'

MODMAP = {'ud': {'m1': ('X', [0x66, 0x66]), 'm2': ('Y', [0x66, 0x66]), 'a1': ('X', [0x7A, 0x7A]), 'b1': ('X', [0x88, 0x88])},
          'src': {'m1': 'X', 'm2': 'Y', 'a1': 'Q', 'b1': 'Z'},
          'co': {'m1': 'X', 'm2': 'Y', 'a1': 'Q', 'b1': 'Z'},
          # the BMC wrapper: m1 / m2 are the two modules of ONE component (BD..AA.. -> oaa00, BC..AA.. -> bsrc)
          # b1: modules that exist but fail while being loaded
          'osrc': {'m1': 'BD8DAA', 'm2': 'BC8AAA', 'a1': 'BD8DCC', 'b1': 'BD8DDD'}}
NAMES = {'ud': {'m1': 'udparsers.x6666.x6666', 'm2': 'udparsers.y6666.y6666', 'a1': 'udparsers.x7a7a.x7a7a',
                'b1': 'udparsers.x8888.x8888'},
         'src': {'m1': 'srcparsers.xsrc.xsrc', 'm2': 'srcparsers.ysrc.ysrc', 'a1': 'srcparsers.qsrc.qsrc',
                 'b1': 'srcparsers.zsrc.zsrc'},
         'co': {'m1': 'calloutparsers.xcallouts.xcallouts', 'm2': 'calloutparsers.ycallouts.ycallouts',
                'a1': 'calloutparsers.qcallouts.qcallouts', 'b1': 'calloutparsers.zcallouts.zcallouts'},
         'osrc': {'m1': 'srcparsers.oaa00.oaa00', 'm2': 'srcparsers.bsrc.bsrc', 'a1': 'srcparsers.occ00.occ00',
                  'b1': 'srcparsers.odd00.odd00'}}
BEHSEL = {'ok': 0, 'nondict': 1, 'none': 2, 'raise': 3, 'importerror': 4, 'raise_empty': 5}
SRC_BEHSEL = dict(BEHSEL, none=6)        # SRC parsers: digit 2 returns '', digit 6 returns None (nothing at all)
PROC = {'ok': 'FIX0001', 'nondict': 'FIXJUNK', 'none': 'NOSUCH1', 'raise': 'FIXBOOM', 'importerror': 'FIXIMPT',
        'raise_empty': 'FIXEMPT'}


# DecodeHistoryProof.tla: HistoryIndependent and NoPoisoning for every history length and every set of modules
PROOFS = ['DecodeHistoryProof']


def model_checks(tier):
    return [dict(module='mc/MC_DecodeHistory', cfg='mc/MC_DecodeHistory_repaired', must_cover=['Decode'], workers=8)]


def cases(tier, seed, info):
    rng = random.Random(seed + 19)
    two, _ = tlc.generate('gen/Gen_DecodeHistory', 'gen/Gen_DecodeHistory_2')
    sim, _ = tlc.generate('gen/Gen_DecodeHistory', simulate=30 if tier == 'quick' else 400, seed=seed + 5, depth=7)
    uniq = {}
    for g in sim:
        uniq.setdefault(json.dumps(g, sort_keys=True), g)
    sim = [uniq[k] for k in sorted(uniq)]
    rng.shuffle(sim)
    rng.shuffle(two)
    # pairs where the second decode is a well-behaved consultation through the same cache: every way
    # the first one can leave the cache behind is followed by every module it could affect
    focused = [g for g in two if g['items'][0]['cache'] == g['items'][1]['cache'] and g['items'][1]['beh'] == 'ok'
               and g['items'][0]['mod'] == g['items'][1]['mod'] or
               (g['items'][0]['cache'] == g['items'][1]['cache'] == 'osrc' and g['items'][1]['beh'] == 'ok')]
    rest = [g for g in two if g not in focused]
    n2, ns = (60, 60) if tier == 'quick' else (len(rest), 4000)
    out = []
    info['focused_pairs'] = len(focused)
    for k, g in enumerate(focused + rest[:n2] + sim[:ns]):
        out.append(dict(kind='history', origin='tlc', seed=seed * 30011 + k, items=g['items']))
    info['tlc_histories_len2'] = len(two)
    info['tlc_histories_used'] = len(out)
    m = 25 if tier == 'quick' else 500
    alphabet = [dict(cache=c, mod=mm, beh=b, plugins=pl) for c in ('ud', 'src', 'co', 'osrc') for mm in ('m1', 'm2', 'a1', 'b1')
                for b in BEHSEL for pl in (True, True, False)]
    for k in range(m):
        items = []
        for _ in range(rng.randint(10, 40 if tier == 'thorough' else 16)):
            r = rng.random()
            if r < .55:
                items.append(rng.choice(alphabet))
            else:
                items.append(dict(cache='other', mod=rng.choice(['damaged', 'e500', 'm2c00', 'plain', 'badheader',
                                                                 'bmcproc', 'lp', 'hidden', 'regmsg', 'regmsg', 'regmsg', 'regmsg', 'ilog', 'ilog',
                                                                 'longkeys', 'longkeys', 'longkeys', 'drawerpair', 'drawerpair', 'drawerpair', 'drawerpair']), beh='-',
                                  plugins=rng.random() < .7))
        out.append(dict(kind='history', origin='random', seed=seed * 17 + k + 777, items=items))
    info['random_histories'] = m
    for k in range(12 if tier == 'quick' else 180):
        out.append(dict(kind='dir', seed=seed * 101 + k, n=rng.randint(3, 9), opt=k + seed))
    return out


def realise(rng, item, serial):
    """-> (abstract PEL or raw bytes, sentinels)"""
    eid = 0x51000000 + serial * 0x101 + rng.randrange(1, 200)
    sn = 'SN%06dQZ' % (serial * 7 + 100000 + rng.randrange(1000))
    c, mod, beh = item['cache'], item['mod'], item['beh']
    creator = 'O'
    secs = []
    if c == 'ud':
        creator, comp = MODMAP['ud'][mod]
        payload = genpel.rbytes(rng, rng.choice([4, 9, 33]))
        payload[0] = BEHSEL[beh] + 8 * rng.randrange(8)
        secs = [dict(kind='UD', id=encode.text('UD'), ver=1, sub=rng.randrange(256), comp=comp, payload=payload)]
    elif c == 'src':
        creator = MODMAP['src'][mod]
        s = genpel.gen_src(rng, 'PS', ncallouts=-1, kind='other')
        s['words'][0][3] = (s['words'][0][3] & 0xF0) | (SRC_BEHSEL if rng.random() < .5 else BEHSEL)[beh]
        secs = [s]
    elif c == 'osrc':
        creator = 'O'
        s = genpel.gen_src(rng, 'PS', ncallouts=-1, kind='BD')
        s['ascii'] = encode.text(MODMAP['osrc'][mod] + '%02X' % rng.randrange(256), 32, 0x20)
        s['words'][0][3] = (s['words'][0][3] & 0xF0) | (SRC_BEHSEL if rng.random() < .5 else BEHSEL)[beh]
        s['comp'] = [0x35, 0x00]
        secs = [s]
    elif c == 'co':
        creator = MODMAP['co'][mod]
        s = genpel.gen_src(rng, 'PS', ncallouts=1, shapes=[dict(fru='m', pce=None, mru=None, loc=4)], kind='other')
        # the procedure name fills its field with NULs - or, in another log of the same history, with blanks: another
        # name as far as the module is concerned
        s['callouts']['list'][0]['fru']['pn'] = encode.text(PROC[beh], 8, 0x20 if rng.random() < .4 else 0)
        s['words'][0][3] = (s['words'][0][3] & 0xF0)
        secs = [s]
    else:
        if mod == 'e500':
            secs = [genpel.gen_src(rng, 'PS', ncallouts=-1, kind='BD')]
            secs[0]['ascii'] = encode.text('BD8DE510', 32, 0x20)
            u = genpel.hdr(rng, 'UD')
            u.update(kind='UD', comp=[0xE5, 0x00], sub=1, ver=1, payload=encode.u32(2) + genpel.rbytes(rng, 24))
            secs.append(u)
        elif mod == 'm2c00':
            creator = 'M'
            u = genpel.hdr(rng, 'UD')
            u.update(kind='UD', comp=[0x2C, 0x00], sub=rng.choice([72, 73, 84]), ver=rng.choice([1, 2]),
                     payload=genpel.rbytes(rng, 32))
            secs = [u]
        elif mod == 'ilog':
            # an I/O drawer ILOG made of entries the shipped table knows - among them patterns that overlap
            # (a specific line in front of a generic one): which line wins must not depend on earlier decodes
            from . import c14
            from .. import drawer
            creator = 'M'
            ver = rng.choice([1, 2])
            table = drawer.read_pte_table(os.path.join(drawer.io_dir(), ['mex_pte.h', 'nimitz_pte.h'][ver - 1]))[0]
            def fits(pat, hex8):
                return len(pat) == 8 and all(c == '*' or c.upper() == d for c, d in zip(pat, hex8))
            # generic lines that also match a specific line standing in front of them with another text
            overlaps = {}
            for j, g in enumerate(table):
                if '*' in g['pattern'] and len(g['pattern']) == 8:
                    sp = [i for i in range(j) if '*' not in table[i]['pattern'] and len(table[i]['pattern']) == 8
                          and fits(g['pattern'], table[i]['pattern'].upper()) and table[i]['msg'] != g['msg']]
                    if sp:
                        overlaps[j] = sp
            if overlaps and rng.random() < .7:
                j = rng.choice(sorted(overlaps))
                ptes = [int(table[i]['pattern'], 16) for i in rng.sample(overlaps[j], min(len(overlaps[j]), rng.randrange(1, 4)))]
                only_generic = None
                for _ in range(50):
                    cand = c14.fill(rng, table[j]['pattern'], 'rand')
                    if not any(fits(table[i]['pattern'], '%08X' % cand) for i in range(j)):
                        only_generic = cand
                        break
                if only_generic is not None:
                    ptes.append(only_generic)            # the LAST entry is one only the generic line matches
                payload = []
                for n, pte in enumerate(ptes):
                    payload += c14.entry_bytes(rng.choice(c14.TS), (serial * 16 + n) & 0xFFFF,
                                               pte | (0x00040000 if rng.random() < .3 else 0))
            else:
                k0 = rng.randrange(len(table))
                payload = c14.data_for(rng, table, max(0, k0 - rng.randrange(0, 6)), k0 + 1)[: 8 * rng.randrange(2, 14)]
            u = genpel.hdr(rng, 'UD')
            u.update(kind='UD', comp=[0x2C, 0x00], sub=73, ver=ver, payload=payload)
            secs = [u]
        elif mod == 'drawerpair':
            # an I/O drawer log with a history log section in FRONT of its ILOG section, the ILOG made of entries the
            # two drawer types describe differently: which table is used is a matter of this section's version only
            from . import c14
            from .. import drawer
            creator = 'M'
            ver = rng.choice([1, 2])
            mine = drawer.read_pte_table(os.path.join(drawer.io_dir(), ['mex_pte.h', 'nimitz_pte.h'][ver - 1]))[0]
            theirs = {e['pattern'].upper(): e['msg'] for e in
                      drawer.read_pte_table(os.path.join(drawer.io_dir(), ['nimitz_pte.h', 'mex_pte.h'][ver - 1]))[0]}
            differing = [e for e in mine if '*' not in e['pattern'] and len(e['pattern']) == 8
                         and theirs.get(e['pattern'].upper(), e['msg']) != e['msg']]
            payload = []
            for n, e in enumerate(rng.sample(differing, min(len(differing), rng.randrange(1, 4)))):
                payload += c14.entry_bytes(rng.choice(c14.TS), (serial * 16 + n) & 0xFFFF, int(e['pattern'], 16))
            h = genpel.hdr(rng, 'UD')
            h.update(kind='UD', comp=[0x2C, 0x00], sub=72, ver=ver, payload=genpel.rbytes(rng, 64))
            u = genpel.hdr(rng, 'UD')
            u.update(kind='UD', comp=[0x2C, 0x00], sub=73, ver=ver, payload=payload or genpel.rbytes(rng, 8))
            secs = [h, u] if rng.random() < .7 else [u, h]
        elif mod == 'bmcproc':
            s = genpel.gen_src(rng, 'PS', ncallouts=1, shapes=[dict(fru='m', pce=None, mru=None, loc=0)], kind='BD')
            s['callouts']['list'][0]['fru']['pn'] = encode.text(rng.choice(['BMC0001', 'BMC0004', 'BMC9999']), 8)
            secs = [s]
        elif mod == 'regmsg':
            # a reference code the message registry knows, its message filled from THIS log's words
            kind, ref = rng.choice([('BD', 'BD8D2030'), ('BD', 'BD8D2030'), ('11', '110000AC'), ('BC', 'BC8A8A01'),
                                    ('BD', 'BD702031')])
            creator = rng.choice(['O', 'B'])
            s = genpel.gen_src(rng, 'PS', ncallouts=-1, kind=kind)
            s['ascii'] = encode.text(ref, 32, 0x20)
            s['wc'] = 9
            secs = [s]
            if rng.random() < .4:
                s2 = genpel.gen_src(rng, 'SS', ncallouts=-1, kind=kind)
                s2['ascii'], s2['wc'] = encode.text(ref, 32, 0x20), 9
                secs.append(s2)
        elif mod == 'longkeys':
            # BMC JSON user data with member names of every length (far beyond the column values are aligned at),
            # nested to different depths, next to very short ones
            def obj(depth):
                d_ = {}
                for _ in range(rng.randrange(1, 4)):
                    key = genpel.rtext(rng, rng.choice([1, 2, 20, 25, 26, 27, 30, 40, 60, rng.randrange(1, 70)]))
                    d_[key] = obj(depth + 1) if depth < 3 and rng.random() < .4 else rng.choice([1, 'v', genpel.rtext(rng, 5)])
                return d_
            raw = json.dumps(obj(0)).encode()
            raw += b'\x00' * ((-len(raw)) % 4)
            u = genpel.hdr(rng, 'UD')
            u.update(kind='UD', comp=[0x20, 0x00], sub=1, ver=1, payload=list(raw))
            secs = [u] + ([genpel.gen_ud(rng, route='noparser')] if rng.random() < .5 else [])
        elif mod == 'lp':
            secs = [genpel.gen_lp(rng, ntargets=rng.randrange(1, 6), namelen=8), genpel.gen_src(rng, 'PS')]
        else:
            creator = rng.choice(['O', 'B', 'H'])
            secs = [genpel.gen_src(rng, 'PS'), genpel.gen_eh(rng), genpel.gen_ud(rng, creator=creator)]
    pel = genpel.gen_pel(rng, kinds=[], creator=creator, sev=0x40, flags=0x2000, eid=encode.u32(eid))
    pel['secs'] = secs + [genpel.gen_mt(rng)]
    pel['secs'][-1]['sn'] = encode.text(sn, 12)
    if c == 'other' and mod == 'hidden':
        pel['uh']['flags'] = encode.u16(0x6000)
    data = bytes(encode.encode(pel))
    if c == 'other' and mod == 'damaged':
        data = data[: rng.randrange(40, len(data) - 1)]
    if c == 'other' and mod == 'badheader':
        data = b'XY' + data[2:]
    return data, ['%08X' % eid, sn]


_FRESH = {}


def fresh_digest(data, plugins=True, every=True, tables=False):
    key = (data, plugins, tables)
    if key not in _FRESH:
        p = subprocess.run([PY, os.path.join(VERIF, 'harness', 'c19_fresh.py')],
                           input=json.dumps(dict(repo=REPO, verif=VERIF, hex=data.hex(), plugins=plugins, tables=tables,
                                                 scratch=seams.scratch_dir('c19fresh'))),
                           stdout=subprocess.PIPE, stderr=subprocess.PIPE, text=True, timeout=60,
                           env=dict(os.environ, PYTHONDONTWRITEBYTECODE='1', PYTHONWARNINGS='ignore'))
        if p.returncode != 0:
            raise RuntimeError('fresh decode failed: ' + p.stderr[-1500:])
        _FRESH[key] = json.loads(p.stdout.strip().splitlines()[-1])['digest']
    return _FRESH[key]


def cache_projection():
    """-> (projection, observable): the caches are internal state; when they are not found in the shape
    the model knows (module-level dicts keyed by module name) the projection is marked unobservable"""
    import sys
    try:
        import pel.peltool.parse_user_data as pud
        import pel.peltool.src as srcmod
        osrc = sys.modules.get('srcparsers.osrc.osrc')
        dicts = {'ud': pud.userDataParsers, 'src': srcmod.srcParsers, 'co': srcmod.calloutParsers,
                 'osrc': osrc.osrcParsers if osrc is not None else {}}
        if not all(isinstance(d, dict) for d in dicts.values()):
            raise AttributeError('cache is not a dict')
    except AttributeError:
        return {c: {m: 'unseen' for m in NAMES[c]} for c in NAMES}, False
    out = {}
    for c, d in dicts.items():
        out[c] = {}
        for m, name in NAMES[c].items():
            out[c][m] = 'unseen' if name not in d else ('none' if d[name] is None else 'module')
    return out, True


def _history(case):
    rng = random.Random(case['seed'])
    seams.install_fixture_plugins()
    seams.install_registry()
    seams.clear_plugin_caches(unload=True)
    # every second history runs with component-name tables for several creators installed (found and loaded by the
    # tool's own loader on first use): whose log comes first must not decide whose names are shown
    tables = case['seed'] % 2 == 1
    if tables:
        seams.install_comp_tables(os.path.join(seams.scratch_dir('c19'), 'comptables'))
    else:
        seams.no_comp_tables()
    pels = []
    for k, it in enumerate(case['items']):
        data, sent = realise(rng, it, k)
        if tables and rng.random() < .8 and len(data) > 72 and data[:2] == b'PH':
            # component ids the tables of this log's creator (or of another creator) know
            cr = chr(data[16])
            known = sorted(seams.COMP_TABLES.get(cr, {})) + sorted(seams.COMP_TABLES['O'])
            b = bytearray(data)
            b[6:8] = bytes.fromhex(rng.choice(known))
            if rng.random() < .5:
                b[54:56] = bytes.fromhex(rng.choice(known))
            data = bytes(b)
        pels.append((data, sent))
    steps = []
    for k, it in enumerate(case['items']):
        data, sent = pels[k]
        plug = it.get('plugins', True)
        res = pelrun.decode(data, plug)
        dg = pelrun.full_digest(res)
        text = json.dumps(res['doc']) if res['doc'] is not None else ''
        foreign = []
        for j, (_, s2) in enumerate(pels):
            if pels[j][0] != data:
                foreign += [s for s in s2 if s in text and s not in sent]
        consults = [it]
        if it['cache'] == 'co':
            # the same SRC then consults the SRC parser of that creator (well-behaved for these words)
            consults = [it, dict(cache='src', mod=it['mod'], beh='ok', plugins=plug)]
        steps.append(dict(item=dict(it, plugins=plug), consults=[dict(c, plugins=plug) for c in consults],
                          pel=data.hex()[:64] + ':%d:%s' % (len(data), plug), digest=dg, fresh=fresh_digest(data, plug, tables=tables),
                          caches=cache_projection()[0], caches_ok=cache_projection()[1], foreign=foreign))
    seams.clear_plugin_caches(unload=True)
    seams.no_comp_tables()
    return [dict(kind='history', shape_ok=True, origin=case['origin'], steps=steps)]


def _dir(case):
    rng = random.Random(case['seed'])
    d = os.path.join(seams.scratch_dir('c19'), 'dir')
    import shutil
    shutil.rmtree(d, ignore_errors=True)
    os.makedirs(d)
    seams.install_fixture_plugins()
    seams.install_registry()
    seams.clear_plugin_caches(unload=True)
    alphabet = [dict(cache=c, mod=mm, beh=b, plugins=True) for c in ('ud', 'src', 'co', 'osrc') for mm in ('m1', 'm2') for b in BEHSEL]
    files = []
    OPTS = [['-E'], ['-S', 'Unrecoverable', 'Predictive', 'Critical'], ['-E'], ['-H', '-S', 'Recovered', 'Diagnostic'],
            ['-N', '-O'], ['-s', '-H'], [], ['-t', '-S', 'Informational'], ['-O', '-S', 'Predictive', 'Recovered']]
    opts = OPTS[case.get('opt', 0) % len(OPTS)]
    head = [o for o in opts if o in ('-E', '-H', '-N', '-O', '-s', '-t')]
    tail = opts[len(head):] if '-S' in opts else []
    for k in range(case['n']):
        it = rng.choice(alphabet) if k % 2 else dict(cache='other', mod=rng.choice(['e500', 'plain', 'lp', 'regmsg', 'ilog', 'longkeys', 'longkeys', 'drawerpair', 'drawerpair']), beh='-')
        data, sent = realise(rng, it, k)
        if opts != ['-E'] and len(data) > 72:
            # severities and action flags of every kind: what the selection options make of ONE log does not depend
            # on the logs handled before it either
            b = bytearray(data)
            b[58] = rng.choice([0x40, 0x20, 0x10, 0x50, 0x60, 0x70, 0x00, 0x51, 0x21])
            b[66:68] = bytes(rng.choice([[0x20, 0x00], [0x60, 0x00], [0x00, 0x00], [0x80, 0x00], [0xA8, 0x00]]))
            data = bytes(b)
        eid = sent[0]
        name = '%02d_%s' % (k, eid)
        seams.write_file(os.path.join(d, name), data)
        files.append((name, eid))

    def by_eid(out):
        # every document of the array with the exact text it was printed as
        import hashlib
        res, dec, pos = {}, json.JSONDecoder(), out.find('[') + 1
        try:
            json.loads(out)
            while True:
                while pos < len(out) and out[pos] in ' \n\r\t,':
                    pos += 1
                if pos >= len(out) or out[pos] == ']':
                    break
                x, end = dec.raw_decode(out, pos)
                res[x['Private Header']['Entry Id']] = project.digest(x) + '/' + hashlib.sha1(
                    out[pos:end].encode('utf-8', 'surrogatepass')).hexdigest()[:12]
                pos = end
        except (ValueError, KeyError, TypeError):
            return None
        return res
    a = by_eid(seams.run_cli(['-p', d, '-a'] + head + tail)['out'])
    ar = by_eid(seams.run_cli(['-p', d, '-a', '-r'] + head + tail)['out'])
    docs, complete = [], a is not None and ar is not None
    for name, eid in files:
        seams.clear_plugin_caches(unload=True)
        one = seams.run_cli(['-f', os.path.join(d, name)] + head + tail)['out']
        try:
            import hashlib
            f = project.digest(json.loads(one)) + '/' + hashlib.sha1(one.strip().encode('utf-8', 'surrogatepass')).hexdigest()[:12]
        except ValueError:
            f = 'no document'
        key = '0x' + eid
        docs.append(dict(a=(a or {}).get(key, 'no document'), ar=(ar or {}).get(key, 'no document'), f=f))
    shutil.rmtree(d, ignore_errors=True)
    return [dict(kind='dir', shape_ok=True, docs=docs, opts=opts,
                 complete=complete and (len(a) == len(files) or opts != ['-E']))]


def run_case(case):
    return _history(case) if case['kind'] == 'history' else _dir(case)


def nontrivial(r):
    if r['kind'] == 'dir':
        return ('dir', str(r['docs']))
    its = [s['item'] for s in r['steps']]
    for k, it in enumerate(its[:-1]):
        if it['cache'] != 'other' and (it['mod'] == 'a1' or it['beh'] in ('raise', 'none', 'importerror')):
            return json.dumps(its, sort_keys=True)
    return None


def fingerprint(r, clauses):
    return 'C19:%s:%s' % (r['kind'], '+'.join(clauses))


def sample(r):
    if r['kind'] == 'dir':
        return dict(kind='dir', pels=len(r['docs']))
    return dict(kind='history', origin=r['origin'],
                items=['%s/%s/%s' % (s['item']['cache'], s['item']['mod'], s['item']['beh']) for s in r['steps']][:12],
                caches_after_last=r['steps'][-1]['caches'])


def corrupt(r):
    if r['kind'] == 'history':
        r['steps'][0]['fresh'] = 'corrupted'
    else:
        r['complete'] = False
    return r
