"""C15 - trace buffers decode entry by entry, stopping at the first malformed entry.

MC   : spec/mc/MC_TraceBuf (entry framing: data lengths {0,1,3,4,1024,1025} x well-formed / wrong
       size word / truncated x declared size before / at / beyond the end)
Bind : real parse_trace_data on buffers built from abstract (header, entries): every stop reason at
       every position, data lengths with every alignment, declared size smaller / equal / larger,
       truncation at every offset of sample buffers, hashes exact / partial (several partial
       candidates: the last wins) / unknown against both shipped string files and synthetic ones,
       binary and field-trace tags, 0..7 argument words, format / argument mismatches; inputs
       shorter than a header.  Trace_Drawer recomputes header lines, every entry line, warning and
       dump lines with TraceBuf.tla (+ PyFormat, HexDump); the fall-back dump must parse back.
"""
import os
import random

from .. import drawer, seams

ID = 'C15'
LEVEL = 'model_checking'
TRACE = 'trace/Trace_Drawer'
RULE = ('case = one trace buffer (header + 0..14 entries, possibly malformed / truncated) decoded by the real '
        'parse_trace_data against one string file (shipped or synthetic); non-trivial = the buffer has at least two '
        'entries or stops at a malformed entry or takes the fall-back; distinct = by (string file, bytes)')
ASSUMPTIONS = [
    'hash values and arguments are 32-bit; string-file hashes are below 2^32; component names are ASCII',
    'format directives are those of PyFormat.tla',
]
JUDGE_XMX = '4g'


def model_checks(tier):
    return [dict(module='mc/MC_TraceBuf', must_cover=['Evaluate'], workers=4)]


def cases(tier, seed, info):
    n = 300 if tier == 'quick' else 40000
    out = [dict(seed=seed * 2221 + j, start=j, n=10) for j in range(0, n, 10)]
    info['buffers'] = n
    return out


def u16(n):
    return [(n >> 8) & 255, n & 255]


def u32(n):
    return [(n >> 24) & 255, (n >> 16) & 255, (n >> 8) & 255, n & 255]


SYN_MSGS = ['battery 100%% full', '%%', 'a %% b %% c', 'caf\u00e9 %u \u4e2d', 'I> value = %u', 'E> Dev 0x%x: Fail count = %d', 'Cmd Data: 0x%08X', 'no args here', '%c%c%c', '%d %d %d %d %d',
            '%d %d %d %d %d %d', '100%% sure %u', 'bad %', 'x=%.4X y=%02u', '%s and %i',
            # characters that some text functions take for line ends or blanks - a line of the file ends at \n only
            'form\x0cfeed %u', 'unit\x1fsep\x1eand\x1dgroup', 'next\x85line %x', 'ls\u2028and ps\u2029 %d', 'vt\x0bhere',
            'tab\there %u', 'nbsp\xa0here']


# a few hash values that come back in many string files (with another text, only as a partial match, or
# not at all): what one file says about a hash must not colour the next decode of the process
HASH_POOL = [100001, 200002, 1234567, 300003, 700001, 4100001, 2700002, 99999, 4294967295, 31234567]


def synthetic_strings(rng):
    out = []
    base = rng.randrange(1, 99999)
    for h in rng.sample(HASH_POOL, rng.choice([0, 0, 1, 2, 4])):
        out.append(dict(hash=str(h), msg=rng.choice(SYN_MSGS) + ' (pool %d)' % rng.randrange(1000),
                        loc='pool.cpp(%d)' % rng.randrange(1, 9999)))
    for k in range(rng.randint(1, 14)):
        r = rng.random()
        if r < .4:
            h = base + 100000 * rng.randrange(1, 40000)        # same residue: partial-match candidates
        else:
            h = rng.randrange(1, 1 << 32)
        out.append(dict(hash=str(h), msg=rng.choice(SYN_MSGS), loc='file%d.cpp(%d)' % (k, rng.randrange(1, 9999))))
    # the same hash on several lines with different text: the first one in file order is the exact match
    for _ in range(rng.choice([0, 1, 2])):
        twin = dict(rng.choice(out))
        twin['msg'] = rng.choice(SYN_MSGS) + ' (twin)'
        twin['loc'] = 'twin.cpp(%d)' % rng.randrange(1, 999)
        out.insert(rng.randrange(len(out) + 1), twin)
    return out


def entry(rng, strings, kind=None):
    ln = rng.choice([0, 0, 4, 8, 12, 20, 24, 28, 1, 2, 3, 5, 7, 17, 1023, 1024])
    tag = rng.choice([0x4654, 0x4654, 0x4654, 0x4644, 0x1234])
    r = rng.random()
    s = rng.choice(strings)
    if r < .5:
        h = int(s['hash'])
    elif r < .8:
        h = (int(s['hash']) % 100000) + 100000 * rng.randrange(0, 42000)
        h &= 0xFFFFFFFF
    elif r < .9:
        h = rng.choice(HASH_POOL)
    else:
        h = rng.randrange(1 << 32)
    data = [rng.randrange(256) for _ in range(ln)]
    if ln >= 4 and rng.random() < .5:
        data[0:3] = [0, 0, 0]
    pad = (-ln) % 4
    total = 16 + ln + pad + 4
    size_word = total
    bad = None
    if kind == 'size':
        size_word = total + rng.choice([-4, 4, 1, 1000])
        bad = 'size'
    if kind == 'oversized':
        ln2 = rng.choice([1025, 1028, 4000, 65535])
        return dict(bytes=u16(rng.randrange(65536)) + u16(rng.randrange(65536)) + u16(ln2) + u16(tag) + u32(h)
                    + u32(rng.randrange(100000)) + [0] * 8, bad='oversized')
    b = (u16(rng.choice([0, 35551, 65534, 65535, rng.randrange(65536)])) + u16(rng.randrange(65536)) + u16(ln) + u16(tag)
         + u32(h) + u32(rng.choice([rng.randrange(100000), 0, 99999, 100000, 4294967295])) + data + [0] * pad + u32(size_word))
    return dict(bytes=b, bad=bad)


def build(rng, strings, k):
    comp = rng.choice(['FANS', 'IICS', 'POWR', 'INFO', 'ERRL', 'IICM', 'X', ''])
    compb = [ord(c) for c in comp] + rng.choice([[0x20] * (12 - len(comp)), [0] * (12 - len(comp)),
                                                 [0x20] * 4 + [0] * (8 - len(comp)) if len(comp) <= 4 else [0] * (12 - len(comp))])
    compb = (compb + [0] * 12)[:12]
    if k % 11 == 0:
        compb[5] = 0xC3
    elif k % 11 in (3, 7):
        # bytes that are not ASCII, anywhere in the field (also behind the fill): alone, or in groups that spell a
        # character in some multi-byte encoding
        seq = rng.choice([[0xC2, 0xB5], [0xE2, 0x82, 0xAC], [0xC3, 0xA9], [0xFF], [0x80], [0xF0, 0x9F, 0x98, 0x80],
                          [0xA4], [0xFE, 0xFF]])
        at = rng.choice([0, len(comp), max(0, len(comp) - 1), 12 - len(seq), rng.randrange(0, 13 - len(seq))])
        compb[at:at + len(seq)] = seq
    body, starts = [], []
    n = rng.choice([0, 1, 2, 3, 5, 9, 14])
    stop = rng.choice([None, None, 'size', 'oversized', 'cut'])
    stop_at = rng.randrange(n) if n and stop else None
    good = []
    for j in range(n):
        starts.append(32 + len(body))
        if good and rng.random() < .4 and not (j == stop_at and stop != 'cut'):
            # an earlier entry once more: the same hash and data - as it was, or under the other tag
            # (a binary entry and a trace entry with equal content are shown differently)
            b = list(rng.choice(good))
            if rng.random() < .7:
                b[6:8] = [0x46, 0x44] if b[6:8] == [0x46, 0x54] else [0x46, 0x54]
            body += b
            continue
        e = entry(rng, strings, kind=stop if j == stop_at and stop != 'cut' else None)
        body += e['bytes']
        if e['bad'] is None:
            good.append(e['bytes'])
    total = 32 + len(body)
    decl = rng.choice([total, total, total + 64, max(32, total - rng.randrange(1, 40)), 32, 0, 0xFFFFFFFF, 33])
    # (the fourth byte is the header's endian flag: 'B' on every dump seen so far; the arguments are big-endian whatever it says)
    hdr = [rng.choice([2, 1, 255]), 0x20, 1, rng.choice([0x42, 0x42, 0x42, 0x4C, 0x6C, 0x00, 0xFF])] + compb + [0, 0, 0, 0] + u32(decl) + u32(rng.choice([0, 3, 254, 4294967295, 1, 1])) \
        + u32(rng.choice([rng.randrange(1 << 32), total, 32] + (starts[1:] + starts[1:] if len(starts) > 1 else [decl & 0xFFFFFFFF])))
    # (times wrapped and next free offset are shown as they are: the entries come in the order they are stored in,
    # wherever the next free byte is - at the end, at an entry's start, inside one)
    data = hdr + body
    if stop == 'cut' and len(data) > 33:
        data = data[: rng.randrange(33, len(data))]
    if k % 13 == 0:
        data = data[: rng.randrange(0, 32)]          # no header
    return data


def run_case(case):
    from io_drawer.trace import parse_trace_data
    rng = random.Random(case['seed'])
    recs = []
    d = seams.scratch_dir('c15')
    for k in range(case['start'], case['start'] + case['n']):
        if k % 10 == 0:
            fname = ['mexStringFile', 'nimitzStringFile'][(k // 10) % 2]
            path = os.path.join(drawer.io_dir(), fname)
            strings = drawer.read_string_file(path)
            label = fname
        else:
            strings = synthetic_strings(rng)
            path = os.path.join(d, 'strings_%d' % (k % 3))      # paths come back with other content
            with open(path, 'w') as f:
                f.write(drawer.render_string_file(rng, strings))
            label = 'synthetic'
        data = build(rng, strings, k)
        if label != 'synthetic' and (k // 20) % 4 == 3 and data:
            lines = drawer.lines_via_process(84, {'mexStringFile': 1, 'nimitzStringFile': 2}[label], data,
                                             seams.PROC_ROTATION[(k // 80) % len(seams.PROC_ROTATION)])
        elif label != 'synthetic' and (k // 20) % 2 and data:
            # through the I/O drawer plug-in, which picks the string file by section version (the two drawer types
            # take turns in one process)
            import json
            import udparsers.m2c00.m2c00 as plug
            out = json.loads(plug.parseUDToJson(84, {'mexStringFile': 1, 'nimitzStringFile': 2}[label], memoryview(bytes(data))))
            lines = out.get('Trace') if isinstance(out, dict) and 'Error' not in out else None
            if not isinstance(lines, list):
                lines = ['the plug-in returned no Trace lines: %s' % str(out)[:150]]
        else:
            lines = parse_trace_data(drawer.view(data, k), path)
        if label == 'synthetic':
            os.remove(path)
        rec = dict(family='C15', shape_ok=True, label=label, data=data,
                   strings=[dict(hash=u32(int(s['hash'])), msg=drawer.cp(s['msg']), loc=drawer.cp(s['loc'])) for s in strings],
                   fallback=False, header=dict(comp=[], ver=[], size=[], wraps=[]), entries=[], lines=[])
        try:
            if len(lines) >= 7 and lines[0].startswith('Component: ') and lines[1].startswith('Version: '):
                def after(s, p):
                    if not s.startswith(p):
                        raise ValueError('header line %r' % s)
                    return drawer.cp(s[len(p):])
                rec['header'] = dict(comp=after(lines[0], 'Component: '), ver=after(lines[1], 'Version: '),
                                     size=after(lines[2], 'Size: '), wraps=after(lines[3], 'Times Wrapped: '))
                cur = None
                for ln in lines[7:]:
                    if ln.startswith(' ' * 20):
                        if cur is None:
                            raise ValueError('continuation line before any entry')
                        cur['extra'].append(drawer.cp(ln))
                    else:
                        cur = dict(main=drawer.cp(ln), extra=[])
                        rec['entries'].append(cur)
            else:
                rec['fallback'] = True
                rec['lines'] = [drawer.cp(x) for x in lines]
        except ValueError as e:
            rec['shape_ok'] = False
            rec['shape_error'] = repr(e)[:200]
        recs.append(rec)
    return recs


def nontrivial(r):
    if r['fallback'] or len(r['entries']) >= 2 or (len(r['data']) > 48 and len(r['entries']) < 2):
        return (r['label'], bytes(r['data']))
    return None


def fingerprint(r, clauses):
    return 'C15:%s:%s' % (r['label'], '+'.join(clauses))


def sample(r):
    return dict(strings=r['label'], data_bytes=len(r['data']), fallback=r['fallback'], entries=len(r['entries']),
                first=''.join(chr(c) for c in r['entries'][0]['main']) if r['entries'] else None)


def corrupt(r):
    if r['fallback']:
        r['data'] = r['data'] + [1] if len(r['data']) < 31 else r['data']
        r['lines'] = r['lines'][:-1] if r['lines'] else r['lines']
        return r if r['lines'] else None
    r['header']['ver'] = r['header']['ver'] + [48]
    return r
