"""X02 (extra, not a listed property) - the command line of io_drawer/dump.py follows spec/DrawerCli.tla.

MC   : spec/mc/MC_DrawerCli - every command line through parse_args / main as a state machine:
       the outcome is RuleOutcome, nothing is printed unless the whole dump could be decoded,
       shipped files are used exactly when none is given.
Gen  : spec/gen/Gen_DrawerCli - TLC enumerates the 288 command lines.
Bind : each is run through the real dump.main() in-process (files arranged as the command line
       says; "given" header / string files are synthetic ones that differ from the shipped);
       Trace_DrawerCli compares exit status, stdout (= the dump decoded with the files the rule
       says are used) and the kind of stderr message with DrawerCli!RuleOutcome.

A rejection is reported as DRIFT, not as a VIOLATION of a listed property.
"""
import io
import os
import random
import sys

from .. import drawer, seams, tlc
from . import c14, c15

ID = 'X02'
EXTRA = True
LEVEL = 'model_checking'
TRACE = 'trace/Trace_DrawerCli'
PROCESS_EVERY = 3         # every third case runs dump.py as a real process (seams.PROC_VARIANTS)
RULE = ('case = one command line of the drawer-dump formatter (TLC-enumerated: drawer type x header file x string '
        'file x dump file x with / without trace buffers) run through the real main(); non-trivial = a file is given '
        'or missing, or the type is refused; distinct = by command line and seed')
ASSUMPTIONS = ['main() is run in-process with sys.argv / stdout / stderr replaced',
               'the expected text is what the real parse_dump_data shows for the same bytes and files (C13 - C17 '
               'decide whether THAT is right)']
START = [0x02, 0x20, 0x01, 0x42]


def model_checks(tier):
    return [dict(module='mc/MC_DrawerCli', must_cover=['ParseArgs', 'ReadDump', 'Ilog', 'Traces'])]


def cases(tier, seed, info):
    lines, _ = tlc.generate('gen/Gen_DrawerCli')
    lines = sorted(lines, key=lambda l: sorted(l.items()))
    rng = random.Random(seed + 202)
    reps = 1 if tier == 'quick' else 8
    items = [dict(line=l, seed=rng.randrange(1 << 30)) for l in lines for _ in range(reps)]
    info['command_lines_from_tlc'] = len(lines)
    return [dict(items=items[j:j + 24]) for j in range(0, len(items), 24)]


def _dump_bytes(rng, traces, table, strings):
    """ILOG entries that the table of the header file in use knows, trace entries whose strings the string file in
    use knows: a run that used OTHER files shows other text"""
    data = []
    if table:
        k = rng.randrange(len(table))
        own = [j for j, e in enumerate(table) if e.get('own')]
        if own and rng.random() < .8:
            k = rng.choice(own)               # an entry only THIS drawer type's table has
        data += c14.data_for(rng, table, k, k + 3)[:8 * rng.randrange(2, 12)]
    for _ in range(rng.randrange(1, 4)):
        data += [rng.randrange(256) for _ in range(8)]
    data = [b if data[max(0, j - 3):j + 1] != START else 0x43 for j, b in enumerate(data)]
    if traces:
        for name in rng.sample(['FANS', 'POWR', 'INFO', 'IICS'], rng.randrange(1, 3)):
            body = []
            for _ in range(rng.randrange(0, 4)):
                body += c15.entry(rng, strings)['bytes'] if strings else []
            total = 32 + len(body)
            data += START + [ord(c) for c in name] + [0x20] * 8 + [0, 0, 0, 0] + list(total.to_bytes(4, 'big')) \
                + [0, 0, 0, 1] + [0, 0, 0, 0] + body
    return data


def _render(data, rng):
    out = []
    for off in range(0, len(data), 16):
        ch = data[off:off + 16]
        txt = ''.join(chr(b) if 0x20 <= b < 0x7f else '.' for b in ch).ljust(16)
        raw = ' '.join(''.join('%02X' % b for b in ch[j:j + 4]) for j in range(0, len(ch), 4)).ljust(35)
        out.append('%04X:  %s  <%s>' % (off, raw, txt))
    return out


def _one(it, root):
    import io_drawer.dump as dd
    rng = random.Random(it['seed'])
    l = it['line']
    gtable, gstrings = c14.synthetic(rng), c15.synthetic_strings(rng)
    if seams._proc_variant in ('posix', 'nohome'):
        # a process without any UTF-8 locale reads text files as ASCII: the files GIVEN to it are ASCII there (what
        # a tool does with files its locale cannot decode is not part of this specification)
        asc = lambda t: ''.join(c if ord(c) < 128 else '?' for c in t)
        gtable = [dict(e, msg=asc(e['msg'])) for e in gtable]
        gstrings = [dict(e, msg=asc(e['msg']), loc=asc(e['loc'])) for e in gstrings]
    table, strings = [], []
    if l['type'] in ('mex', 'nimitz'):
        table = drawer.read_pte_table(os.path.join(drawer.io_dir(), l['type'] + '_pte.h'))[0]
        strings = drawer.read_string_file(os.path.join(drawer.io_dir(), l['type'] + 'StringFile'))
        other = {'mex': 'nimitz', 'nimitz': 'mex'}[l['type']]
        theirs = {(e['pattern'], e['msg']) for e in drawer.read_pte_table(os.path.join(drawer.io_dir(), other + '_pte.h'))[0]}
        table = [dict(e, own=(e['pattern'], e['msg']) not in theirs) for e in table]
        their_hashes = {s['hash'] for s in drawer.read_string_file(os.path.join(drawer.io_dir(), other + 'StringFile'))}
        own_strings = [s for s in strings if s['hash'] not in their_hashes]
        if own_strings and rng.random() < .8:
            strings = own_strings
    if l['header'] == 'given':
        table = gtable
    if l['strings'] == 'given':
        strings = gstrings
    data = _dump_bytes(rng, l['traces'], table, strings)
    dump_path = os.path.join(root, 'dump.txt')
    if l['dump'] == 'data':
        with open(dump_path, 'w') as f:
            f.write('\n'.join(_render(data, rng)) + '\n')
    elif l['dump'] == 'empty':
        with open(dump_path, 'w') as f:
            f.write(rng.choice(['', '# nothing here\n', '\n\n']))
    elif os.path.exists(dump_path):
        os.remove(dump_path)
    given_hdr = os.path.join(root, 'given_pte.h')
    with open(given_hdr, 'w') as f:
        f.write(drawer.render_pte_header(rng, gtable))
    given_str = os.path.join(root, 'given_strings')
    with open(given_str, 'w') as f:
        f.write(drawer.render_string_file(rng, gstrings))
    argv = []
    if l['dump'] != 'none':
        argv.append(dump_path)
    if l['type'] != 'none':
        argv += ['-t', l['type'] if l['type'] != 'other' else 'zeppelin']
    hdr_used = str_used = None
    if l['type'] in ('mex', 'nimitz'):
        hdr_used = os.path.join(drawer.io_dir(), l['type'] + '_pte.h')
        str_used = os.path.join(drawer.io_dir(), l['type'] + 'StringFile')
    if l['header'] != 'default':
        hdr_used = given_hdr if l['header'] == 'given' else os.path.join(root, 'no-such-header.h')
        argv += [rng.choice(['-d', '--header-file']), hdr_used]
    if l['strings'] != 'default':
        str_used = given_str if l['strings'] == 'given' else os.path.join(root, 'no-such-strings')
        argv += [rng.choice(['-s', '--string-file']), str_used]
    if rng.random() < .5 and l['dump'] != 'none':
        argv = argv[1:] + argv[:1]            # the positional argument may come last
    old = (sys.argv, sys.stdout, sys.stderr)
    out, err = io.StringIO(), io.StringIO()
    status, uncaught = None, False
    if seams._proc_variant:
        # the real dump.py as a real process in one of the ordinary environments (seams.PROC_VARIANTS)
        res = seams.run_cli_proc(argv, seams._proc_variant, tool='dump')
        out.write(res['out'])
        err.write(res['err'])
        status, uncaught = res['exit'], bool(res['uncaught'])
    else:
        sys.argv, sys.stdout, sys.stderr = ['dump.py'] + argv, out, err
        try:
            try:
                dd.main()
                status = 0
            except SystemExit as e:
                status = 0 if e.code is None else (e.code if isinstance(e.code, int) else 1)
            except BaseException:
                uncaught = True
        finally:
            sys.argv, sys.stdout, sys.stderr = old
    expect = None
    try:
        if l['dump'] == 'data' and hdr_used and str_used:
            expect = ''.join(x + '\n' for x in dd.parse_dump_data(memoryview(bytes(data)), hdr_used, str_used))
    except Exception:
        expect = None
    o, e = out.getvalue(), err.getvalue()
    return dict(shape_ok=not uncaught and isinstance(status, int), line=l, status=status if isinstance(status, int) else 99,
                out_same=expect is not None and o == expect, out_empty=o == '', err_error=e.startswith('Error:'),
                err_usage='usage:' in e, argv=[a for a in argv if a.startswith('-')], out_len=len(o))


def run_case(case):
    import shutil
    root = os.path.join(seams.scratch_dir('x02'), 'fs')
    shutil.rmtree(root, ignore_errors=True)
    os.makedirs(root)
    try:
        return [_one(it, root) for it in case['items']]
    finally:
        shutil.rmtree(root, ignore_errors=True)


def nontrivial(r):
    l = r['line']
    if l['header'] != 'default' or l['strings'] != 'default' or l['type'] in ('other', 'none') or l['dump'] != 'data':
        return (str(sorted(l.items())), r['out_len'])
    return None


def fingerprint(r, clauses):
    return 'X02:%s' % '+'.join(clauses)


def sample(r):
    return dict(line=r['line'], status=r['status'], stdout_chars=r['out_len'])


def corrupt(r):
    r['status'] = {0: 1, 1: 0, 2: 0}.get(r['status'], 0)
    return r
