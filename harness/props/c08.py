"""C08 - list, count and display-all agree on the same PELs in file-name order.

MC   : spec/mc/MC_Listing (the listing loop vs the rule: Agree, MatchesRule, reverse), MC_Selection
Bind : generated directories of well-formed PELs (distinct entry ids, adversarial names: mixed
       case, with / without extension, dot files) x option sets (TLC's Selection rule decides the
       selected set) are shown by the real CLI with -n, -l, -a, -l -x, -a -x (+ -r, -e);
       Trace_Dir judges CountEq, ListIds / AllIds / Hex*Ids against the spec's own
       ascending-by-name order of the selected set, and SummaryFields (each --list entry
       against the full decode).
"""
import os
import random

from .. import genpel, dirrun, project, seams

ID = 'C08'
LEVEL = 'model_checking'
TRACE = 'trace/Trace_Dir'
PROCESS_EVERY = 5         # every fifth case runs the command line as a real process (seams.PROC_VARIANTS)
RULE = ('case = one directory of 0-25 (thorough: up to 60) well-formed PELs with distinct entry ids and adversarial '
        'file names x one option set (6 switches, severity groups, --reverse, --extension), shown with -n, -l, -a and '
        'their --hex variants; non-trivial = at least two PELs are selected and at least one is not; distinct = by '
        '(file names, PEL classes, options)')
ASSUMPTIONS = [
    'directories hold only well-formed PELs here (junk is C09); severities 0x01..0x0F (ambiguous in the selection '
    'statement) are not generated',
    'file-name order is code-point order of the names (what sorted() gives)',
]
GROUPS = [0, 1, 2, 4, 5, 6, 7]
GROUP_NAMES = {0: 'Informational', 1: 'Recovered', 2: 'Predictive', 4: 'Unrecoverable', 5: 'Critical',
               6: 'Diagnostic', 7: 'Symptom'}
SEVS = [0x00, 0x10, 0x20, 0x21, 0x40, 0x45, 0x50, 0x51, 0x60, 0x71, 0xA0]
FLAGS = [0x0000, 0x2000, 0x6000, 0x8000, 0xA800, 0xC000, 0x4020, 0xE100, 0x2800]


def model_checks(tier):
    return [dict(module='mc/MC_Listing', cfg='mc/MC_Listing_code3', must_cover=['Step'])]


def cases(tier, seed, info):
    n = 120 if tier == 'quick' else 12000
    info['directories'] = n
    return [dict(seed=seed * 65537 + k, k=k, big=(tier == 'thorough')) for k in range(n)]


def names_for(rng, eids):
    out = []
    for k, e in enumerate(eids):
        style = rng.randrange(12)
        base = '%08X' % e
        nm = ['2023%04d_%s' % (rng.randrange(10000), base), base, 'a_' + base, 'B_' + base, base + '.pel',
              'Z' + base + '.PEL', '.' + base, base.lower() + '.pel', 'x.' + base + '.pel', base + '.pel.bak',
              base + '.', 'a.b.' + base][style]
        out.append(nm)
    return out


def argv_opts(o, rev, ext):
    a = []
    for key, flag in (('every', '-E'), ('sv', '-s'), ('nsv', '-N'), ('hid', '-H'), ('term', '-t'), ('only', '-O')):
        if o[key]:
            a.append(flag)
    if rev:
        a.append('-r')
    if ext:
        a += ['-e', ext]
    tail = (['-S'] + [GROUP_NAMES[g] for g in o['sevs']]) if o['sevs'] else []
    return a, tail


def run_case(case):
    rng = random.Random(case['seed'])
    if case['seed'] % 2:
        seams.install_registry()        # every second directory is shown with a message registry installed
    else:
        import pel.peltool.src as _src
        _src.registry.pels = []
    n = rng.choice([0, 1, 2, 5, 8, 12, 25] + ([40, 60] if case['big'] else []))
    eids = rng.sample(range(0x50000001, 0x50000FFF), n)
    if n and rng.random() < .3:
        eids[0] = rng.randrange(1, 0x0FFFFFFF)          # fewer than 8 hex digits
    names = names_for(rng, eids)
    d = os.path.join(seams.scratch_dir('c08'), 'dir')
    files, fattrs = [], []
    for e, nm in zip(eids, names):
        pel = dirrun.mk_pel(rng, e, plid=rng.choice([e, 0x50000001, rng.randrange(1, 0xFFFFFFFF)]),
                            sev=rng.choice(SEVS), flags=rng.choice(FLAGS), creator=rng.choice(['O', 'B', 'H']), lead=True)
        r_ = rng.random()
        if r_ < .08:
            pel['secs'] = []                                    # the shortest log there is: the two headers, count 2
        elif r_ < .12:
            pel['secs'] = [s for s in pel['secs'] if s['kind'] != 'SRC'] or [genpel.gen_mt(rng)]   # sections, but no SRC
        data = bytes(__import__('harness.encode', fromlist=['encode']).encode(pel))
        if rng.random() < .12:
            # the log is kept elsewhere and linked into the directory (relative or absolute link): a file like any other
            store = d + '_store'
            os.makedirs(store, exist_ok=True)
            seams.write_file(os.path.join(store, 's_' + nm), data)
            files.append((nm, ('symlink', rng.choice([os.path.join('..', 'dir_store', 's_' + nm), os.path.join(store, 's_' + nm)]))))
        else:
            files.append((nm, data))
        fattrs.append(dirrun.attrs(pel, nm, data))
    if rng.random() < .3:
        # subdirectories (two or three, one of them empty, one holding a log under the name of a top-level one):
        # the modes look at the files directly in the directory only
        for j, sub in enumerate(rng.sample(['archive', '0dir', 'zdir', 'Mid'], rng.choice([2, 3]))):
            if j == 1:
                files.append((sub + '/.keep_dir', ('mkdir', None)))
            else:
                other = bytes(__import__('harness.encode', fromlist=['encode']).encode(dirrun.mk_pel(rng, 0x5F0000C1 + j)))
                files.append((sub + '/' + (names[0] if names and j == 0 else 'inner_5F0000C%d' % j), other))
    dirrun.write_dir(d, files)
    sw = [rng.random() < p for p in (.15, .3, .3, .3, .25, .35)]
    o = dict(every=sw[0], sv=sw[1], nsv=sw[2], hid=sw[3], term=sw[4], only=sw[5],
             sevs=sorted(rng.sample(GROUPS, rng.choice([0, 0, 1, 2, 3]))), lookup='none')
    rev = rng.random() < .4
    ext = rng.choice([None, None, '.pel', '.PEL', '.txt', '.bak', '.', '.%08X' % eids[0] if eids else '.x'])
    head, tail = argv_opts(o, rev, ext)
    rec = dict(family='C08', shape_ok=True, files=fattrs, o=o, rev=rev, ext=project.cp(ext) if ext else [],
               count=-1, list=[], all=[], hexlist=[], hexall=[], exits=[],
               argv=head + tail)
    try:
        runs = {}
        for mode, extra in (('count', ['-n']), ('list', ['-l']), ('all', ['-a']), ('hexlist', ['-l', '-x']),
                            ('hexall', ['-a', '-x'])):
            runs[mode] = seams.run_cli(['-p', d] + head + extra + tail)
            rec['exits'].append(runs[mode]['exit'] if not runs[mode]['uncaught'] else 99)
        import json
        rec['count'] = project._int(json.loads(runs['count']['out'])['Number of PELs found'])
        rec['list'] = dirrun.list_entries(runs['list']['out'])
        rec['all'] = dirrun.all_entries(runs['all']['out'])
        rec['hexlist'] = dirrun.hex_ids(runs['hexlist']['out'])
        rec['hexall'] = dirrun.hex_ids(runs['hexall']['out'])
    except (project.ShapeError, ValueError, KeyError, TypeError) as e:
        rec['shape_ok'] = False
        rec['shape_error'] = repr(e)[:300]
    import shutil
    shutil.rmtree(d, ignore_errors=True)
    shutil.rmtree(d + '_store', ignore_errors=True)
    return [rec]


def nontrivial(r):
    if 2 <= r['count'] < len(r['files']):
        return (str([f['name'] for f in r['files']]), str(r['o']), r['rev'], str(r['ext']))
    return None


def fingerprint(r, clauses):
    return 'C08:' + '+'.join(clauses)


def sample(r):
    return dict(files=[''.join(chr(c) for c in f['name']) for f in r['files']][:8], argv=r['argv'], count=r['count'],
                listed=len(r['list']), shown=len(r['all']))


def corrupt(r):
    r['count'] += 1
    return r
