"""C20 - hardware-diagnostics signatures and register dumps are decoded field-exactly.

MC   : spec/mc/MC_HwDiags (field independence of the signature per hex character, case-blind keys)
Bind : real ParserData.get_signature, the oe500 SRC parser and the oe500 user-data parsers (signature
       list, register dump, scratch registers, scratch signature, callout FFDC), directly and
       end-to-end through parsePEL, with chip data absent / full / partial (synthetic data files in a
       temporary directory selected through pel.hwdiags.data.__file__), upper- and lower-case words,
       swept bytes; Trace_C20 recomputes every string with HwDiags.tla.
"""
import json
import os
import random
import shutil

from .. import encode, genpel, pelrun, seams

ID = 'C20'
LEVEL = 'model_checking'
TRACE = 'trace/Trace_C20'
RULE = ('case = one signature (three words, every byte swept) through the direct / SRC / user-data path, one register '
        'dump (0..4 chips x 0..6 registers x data sizes 1..255), scratch-register / scratch-signature / callout-FFDC '
        'section, with chip data absent / partial / full; non-trivial = chip data is present for the model or the '
        'dump has at least two registers; distinct = by (kind, input bytes, chip data)')
ASSUMPTIONS = [
    'partial chip data means missing keys, not malformed values',
    'chip data files are selected by redirecting pel.hwdiags.data.__file__ inside the harness process',
]


def model_checks(tier):
    return [dict(module='mc/MC_HwDiags', must_cover=['Evaluate'], workers=4)]


def cases(tier, seed, info):
    n = 1500 if tier == 'quick' else 150000
    out = [dict(seed=seed * 3301 + j, start=j, n=50) for j in range(0, n, 50)]
    info['items'] = n
    return out


def cp(s):
    return [ord(c) for c in s]


MODELS = ['20da0020', '20d20010', '60c00020', 'abcdef01']


def chip_data(rng, mode):
    """-> (json docs, abstract chips)"""
    if mode == 'absent':
        return [], []
    docs, chips = [], []
    for m in MODELS[: rng.randint(1, 4)]:
        full = mode == 'full'
        doc = {'model_ec': {'id': m}}
        ch = dict(id=cp(m), type=[-1], desc=[-1], attn=[], sigs=[], regs=[])
        if full or rng.random() < .6:
            doc['model_ec']['type'] = rng.choice(['proc', 'ocmb'])
            ch['type'] = cp(doc['model_ec']['type'])
        if full or rng.random() < .6:
            doc['model_ec']['desc'] = rng.choice(['P10 2.0', 'Explorer 1.0', 'Odyssey'])
            ch['desc'] = cp(doc['model_ec']['desc'])
        if full or rng.random() < .7:
            doc['attn_types'] = {str(k): v for k, v in [(1, 'CS'), (2, 'UCS'), (3, 'RE'), (255, 'weird')][: rng.randint(1, 4)]}
            ch['attn'] = [dict(key=cp(k), val=cp(v)) for k, v in doc['attn_types'].items()]
        if full or rng.random() < .7:
            doc['signatures'] = {}
            for sid in ['abcd', '0001', 'ffff', '1a2b'][: rng.randint(1, 4)]:
                bits = {str(b): 'desc of bit %d' % b for b in rng.sample([0, 1, 23, 63, 255], rng.randint(0, 4))}
                doc['signatures'][sid] = ['SIG_%s' % sid.upper(), bits]
                ch['sigs'].append(dict(id=cp(sid), name=cp('SIG_%s' % sid.upper()),
                                       bits=[dict(key=cp(k), val=cp(v)) for k, v in bits.items()]))
        if full or rng.random() < .7:
            doc['registers'] = {}
            for rid in ['abcdef', '000001', '1a2b3c'][: rng.randint(1, 3)]:
                insts = {str(i): '%X' % rng.randrange(1 << 32) for i in rng.sample([0, 1, 7, 255], rng.randint(0, 3))}
                nm = rng.choice(['REG_%s' % rid, 'A_VERY_LONG_REGISTER_NAME_THAT_IS_CROPPED_%s' % rid, 'R'])
                doc['registers'][rid] = [nm, insts]
                ch['regs'].append(dict(id=cp(rid), name=cp(nm),
                                       insts=[dict(key=cp(k), addr=encode.u32(int(v, 16))) for k, v in insts.items()]))
        docs.append(doc)
        chips.append(ch)
    return docs, chips


def install(docs):
    import pel.hwdiags.data as hd
    d = os.path.join(seams.scratch_dir('c20'), 'data')
    shutil.rmtree(d, ignore_errors=True)
    os.makedirs(d)
    # how the data got there is the installer's business: plain files, files linked in from where the data package
    # keeps them (relative or absolute links), next to things that are no chip data at all
    store = os.path.join(seams.scratch_dir('c20'), 'store')
    shutil.rmtree(store, ignore_errors=True)
    os.makedirs(store)
    how = len(json.dumps(docs)) % 4
    for k, doc in enumerate(docs):
        name = ['chip_%d.json', 'Chip %d.JSON.json', 'p10_%d.json'][(how + k) % 3] % k
        if (how + k) % 4 in (1, 2):
            with open(os.path.join(store, 's%d.json' % k), 'w') as f:
                json.dump(doc, f)
            os.symlink(os.path.join('..', 'store', 's%d.json' % k) if (how + k) % 4 == 1 else os.path.join(store, 's%d.json' % k),
                       os.path.join(d, name))
        else:
            with open(os.path.join(d, name), 'w') as f:
                json.dump(doc, f)
    if how % 2:
        with open(os.path.join(d, 'README.txt'), 'w') as f:
            f.write('not chip data\n')
        os.makedirs(os.path.join(d, '__pycache__'), exist_ok=True)
    if not hasattr(hd, '_verif_orig_file'):
        hd._verif_orig_file = hd.__file__
    hd.__file__ = os.path.join(d, '__init__.py')


def words_for(rng, k):
    model = rng.choice(MODELS + ['%08x' % rng.randrange(1 << 32)])
    b = '%04x%02x%02x' % (rng.choice([0, 1, 0x12, 0xFFFF, rng.randrange(65536)]), (k * 7) % 256, rng.choice([1, 2, 3, 255, k % 256]))
    c = '%s%02x%02x' % (rng.choice(['abcd', '0001', 'ffff', '1a2b', '%04x' % rng.randrange(65536)]), (k * 3) % 256,
                        rng.choice([0, 1, 23, 63, 255, rng.randrange(256)]))
    return [model, b, c]


def one(rng, k):
    from pel.hwdiags.parserdata import ParserData
    import udparsers.oe500.oe500 as ud
    import srcparsers.oe500.oe500 as sp
    mode = ['absent', 'full', 'partial'][k % 3]
    docs, chips = chip_data(rng, mode)
    install(docs)
    kind = ['sig', 'sig', 'sig', 'regdump', 'scratch', 'scratchsig', 'ffdc', 'regdump'][k % 8]
    rec = dict(family='C20', kind=kind, shape_ok=True, raised=False, chips=chips, mode=mode)
    try:
        if kind == 'sig':
            w = words_for(rng, k)
            path = ['direct', 'src', 'ud', 'pel'][(k // 8) % 4]
            rec['path'] = path
            if path == 'direct':
                w = [x.upper() if rng.random() < .5 else x for x in w]
                out = ParserData().get_signature(*w)
            elif path == 'src':
                w = [x.upper() for x in w]
                out = json.loads(sp.parseSRCToJson('BD8DE510', '00000000', '00000000', '00000000', '00000000',
                                                   w[0], w[1], w[2], '00000000'))['Signature Description']
            elif path == 'ud':
                n = rng.randint(1, 4)
                sigs = [words_for(rng, k + j) for j in range(n - 1)] + [w]
                payload = encode.u32(n) + [b for s in sigs for x in s for b in bytes.fromhex(x)]
                lst = json.loads(ud.parseUDToJson(1, 1, memoryview(bytes(payload))))['Signature List']
                if len(lst) != n:
                    raise ValueError('signature list has %d entries for %d signatures' % (len(lst), n))
                out = lst[-1]
            else:
                # end to end: BMC PEL whose SRC words 6..8 carry the signature
                w = [x.upper() for x in w]
                s = genpel.gen_src(rng, 'PS', ncallouts=-1, kind='BD')
                s['ascii'] = encode.text('BD8DE510', 32, 0x20)
                s['wc'] = 9
                s['words'][4] = list(bytes.fromhex(w[0]))
                s['words'][5] = list(bytes.fromhex(w[1]))
                s['words'][6] = list(bytes.fromhex(w[2]))
                pel = genpel.gen_pel(rng, kinds=[], creator='O')
                pel['secs'] = [s]
                seams.clear_plugin_caches()
                res = pelrun.decode(encode.encode(pel), True)
                out = res['doc']['Primary SRC']['SRC Details']['Signature Description']
            rec['words'] = [cp(x) for x in w]
            rec['out'] = dict(chip=cp(out['Chip Desc']), sig=cp(out['Signature']), attn=cp(out['Attn Type']))
        elif kind == 'regdump':
            nchips = rng.randint(0, 4)
            payload = encode.u32(nchips)
            heads, regids = [], []
            for _ in range(nchips):
                m = rng.choice(MODELS + ['%08x' % rng.randrange(1 << 32)])
                nregs = rng.randint(0, 6)
                head = list(bytes.fromhex(m)) + [rng.randrange(256), rng.randrange(256), rng.randrange(256)]
                if heads and rng.random() < .35:        # a layout may name the same chip again
                    head = list(rng.choice(heads))
                heads.append(head)
                payload += head + encode.u32(nregs)
                for _ in range(nregs):
                    rid = rng.choice(['abcdef', '000001', '1a2b3c', '%06x' % rng.randrange(1 << 24)])
                    size = rng.choice([1, 2, 7, 8, 255, rng.randrange(1, 40)])
                    ident = list(bytes.fromhex(rid)) + [rng.choice([0, 1, 7, 255, rng.randrange(256)])]
                    if regids and rng.random() < .25:   # ... and the same register again
                        ident = list(rng.choice(regids))
                    regids.append(ident)
                    payload += ident + [size] + [rng.randrange(256) for _ in range(size)]
            out = json.loads(ud.parseUDToJson(2, 1, memoryview(bytes(payload))))['Register Dump']
            rec['payload'] = payload
            rec['lines'] = [cp(x) for x in out]
        elif kind == 'scratch':
            payload = [rng.randrange(256) for _ in range(24)]
            out = json.loads(ud.parseUDToJson(4, 1, memoryview(bytes(payload))))['Hostboot Scratch Registers']
            rec['payload'] = payload
            rec['pairs'] = [dict(key=cp(a), val=cp(b)) for a, b in out.items()]
        elif kind == 'scratchsig':
            payload = [rng.randrange(256) for _ in range(8)]
            out = json.loads(ud.parseUDToJson(5, 1, memoryview(bytes(payload))))['Scratch Register Error Signature']
            rec['payload'] = payload
            rec['chipid'], rec['sigid'] = cp(out['Chip ID']), cp(out['Signature ID'])
        else:
            doc = genpel.gen_json_value(rng, 1)
            raw = json.dumps(doc).encode() + b'\x00' * rng.randrange(0, 4)
            out = json.loads(ud.parseUDToJson(3, 1, memoryview(raw)))
            rec['canon'] = json.dumps(out, sort_keys=True)
            rec['expect_canon'] = json.dumps({'Callout List FFDC': doc}, sort_keys=True)
    except Exception as e:          # the statement: names fall back to the raw numbers, never to an error
        rec['raised'] = True
        rec['error'] = repr(e)[:200]
    for key, dflt in (('words', []), ('out', dict(chip=[], sig=[], attn=[])), ('payload', []), ('lines', []),
                      ('pairs', []), ('chipid', []), ('sigid', []), ('canon', ''), ('expect_canon', ''), ('path', '-')):
        rec.setdefault(key, dflt)
    return rec


def run_case(case):
    import pel.hwdiags.data as hd
    rng = random.Random(case['seed'])
    try:
        return [one(rng, k) for k in range(case['start'], case['start'] + case['n'])]
    finally:
        if hasattr(hd, '_verif_orig_file'):
            hd.__file__ = hd._verif_orig_file


def nontrivial(r):
    if r['kind'] == 'sig' and r['chips']:
        return ('s', str(r['words']), str(r['chips'])[:200])
    if r['kind'] == 'regdump' and len(r['lines']) >= 3:
        return ('r', bytes(r['payload']), str(r['chips'])[:200])
    if r['kind'] in ('scratch', 'scratchsig', 'ffdc'):
        return (r['kind'], bytes(r['payload']), r['canon'])
    return None


def fingerprint(r, clauses):
    return 'C20:%s:%s:%s' % (r['kind'], '+'.join(clauses), r['mode'])


def sample(r):
    return dict(kind=r['kind'], path=r['path'], chip_data=r['mode'],
                words=[''.join(chr(c) for c in w) for w in r['words']],
                chip=''.join(chr(c) for c in r['out']['chip']), lines=len(r['lines']))


def corrupt(r):
    if r['kind'] == 'sig':
        r['out']['chip'] = r['out']['chip'] + [33]
    elif r['kind'] == 'regdump':
        r['lines'] = r['lines'] + [[120]]
    else:
        r['raised'] = True
    return r
