"""C05 - malformed PELs are rejected cleanly (no hang, crash or fabricated decode).

MC   : spec/mc/MC_DataStream (cursor machine: InBounds / NoFabrication hold iff the
       range checks are real checks), spec/mc/MC_PelDecoder truncation instance
Bind : every proper prefix and single-byte corruptions of generated well-formed
       PELs, plus random strings, are decoded by the real parsePEL through a
       traced DataStream, under `python` and `python -O`; a sample goes through the
       real command line (peltool.py -f) as a subprocess.  Trace_C05 judges every
       cursor event against DataStream!ReadP / ReadRejectedP and the outcomes
       against the statement.
"""
import json
import os
import random
import subprocess
import sys

from .. import encode, genpel, seams
from ..framework import REPO, VERIF

ID = 'C05'
LEVEL = 'model_checking'
TRACE = 'trace/Trace_C05'
RULE = ('case = one byte string offered as a PEL (proper prefix / single-byte corruption of a generated '
        'well-formed PEL / random bytes), decoded by the real parsePEL under python and python -O with every '
        'cursor movement logged, or one `peltool.py -f` subprocess run; non-trivial = the decode performed at '
        'least 12 cursor steps (it got past the private header); distinct = by input bytes')
ASSUMPTIONS = [
    'any Exception subclass is an ordinary error; messages are not compared',
    'a corrupted PEL that is still self-consistent may legitimately decode - only proper prefixes of '
    'well-formed PELs must be rejected',
    'TracedStream subclasses the real DataStream and calls super(), so the real range checks run',
    'hang detection: 20 s alarm per in-process decode, 60 s per subprocess',
]
CASE_TIMEOUT = 600
PY = '/venv/bin/python'


# DataStreamProof.tla: InBounds / NoFabrication / Monotone / RaisedIsFinal for inputs of every size and all requests
PROOFS = ['DataStreamProof']


def model_checks(tier):
    return [dict(module='mc/MC_DataStream', cfg='mc/MC_DataStream_checked', workers=4,
                 must_cover=['Read', 'ReadRejected']),
            # parsePEL over every PEL of <= 3 sections x every truncation length: PrefixRejected, InBounds,
            # termination (the loop variant), WholeDecoded
            dict(module='mc/MC_PelDecoder', cfg='mc/MC_PelDecoder_skew0',
                 must_cover=['PH', 'UH', 'Loop', 'Hdr', 'BodyStep'])]


def _base_pels(rng, n):
    out = []
    kinds_cycle = [['PS', 'EH', 'MT', 'UD', 'UD'], ['PS', 'SS', 'LP', 'ED'], ['PS', 'HD', 'UD', 'MT', 'EH'],
                   ['UD'], [], ['PS'], ['LP', 'LP', 'HD'], ['PS', 'UD', 'ED', 'HD', 'SS', 'EH']]
    for k in range(n):
        kinds = kinds_cycle[k % len(kinds_cycle)] if k < 2 * len(kinds_cycle) else None
        creator = ['O', 'B', 'H', 'M'][k % 4]
        pel = genpel.gen_pel(rng, kinds=kinds, creator=creator)
        if k % 3 == 0:
            pel['secs'].append(_plugin_ud(rng, k))
        # an unknown section whose id spells a callout tag directly after an SRC is a
        # separate matter (C01); keep the base PELs decodable
        pel['secs'] = [s for j, s in enumerate(pel['secs'])
                       if not (bytes(s['id']) in (b'ID', b'PE', b'MR'))]
        out.append(pel)
    # PELs whose LAST section is an SRC with callouts (nothing behind the callout walk to catch an overrun)
    shapes = [[dict(fru='p', pce=None, mru=None, loc=0)],
              [dict(fru='pcs', pce=4, mru=2, loc=8), dict(fru='m', pce=None, mru=None, loc=4)],
              [dict(fru='s', pce=None, mru=1, loc=0), dict(fru='c', pce=9, mru=None, loc=0)]]
    for k, sh in enumerate(shapes[: max(1, n // 4)]):
        pel = genpel.gen_pel(rng, kinds=[], creator='O')
        pel['secs'] = ([genpel.gen_mt(rng)] if k % 2 else []) + [genpel.gen_src(rng, 'PS', ncallouts=len(sh), shapes=sh)]
        out.append(pel)
    return out


def _plugin_ud(rng, k):
    """user data served by the shipped plugins (oe500 / m2c00) so that their cursor use is covered"""
    s = genpel.hdr(rng, 'UD')
    which = k % 4
    if which == 0:      # oe500 signature list
        n = 3
        payload = encode.u32(n) + genpel.rbytes(rng, 12 * n)
        s.update(comp=[0xE5, 0x00], sub=1, ver=1)
    elif which == 1:    # oe500 register dump: 1 chip, 2 registers
        payload = encode.u32(1) + genpel.rbytes(rng, 4) + [0, 1, 0] + encode.u32(2)
        for _ in range(2):
            payload += genpel.rbytes(rng, 3) + [1, 8] + genpel.rbytes(rng, 8)
        s.update(comp=[0xE5, 0x00], sub=2, ver=1)
    elif which == 2:    # oe500 scratch registers
        payload = genpel.rbytes(rng, 24)
        s.update(comp=[0xE5, 0x00], sub=4, ver=1)
    else:               # m2c00 ilog
        payload = genpel.rbytes(rng, 24)
        s.update(comp=[0x2C, 0x00], sub=73, ver=1)
    s.update(kind='UD', payload=payload)
    return s


def cases(tier, seed, info):
    rng = random.Random(seed * 7919 + 5)
    nbase = 10 if tier == 'quick' else 120
    vals = 1 if tier == 'quick' else 3
    out = []
    total = 0
    for k, pel in enumerate(_base_pels(rng, nbase)):
        data = bytes(encode.encode(pel))
        if tier == 'quick' and len(data) > 900:
            continue
        inputs = [(data.hex(), False)]
        for L in range(len(data)):
            inputs.append((data[:L].hex(), True))
        for off in range(len(data)):
            for v in range(vals):
                b = bytearray(data)
                b[off] = [b[off] ^ 0x80, 0x00, 0xFF][v] if vals == 3 else \
                    [b[off] ^ 0x80, 0x00, 0xFF][(off + k) % 3]
                if bytes(b) != data:
                    inputs.append((bytes(b).hex(), False))
        total += len(inputs)
        # split to keep records of one case below ~3000 decodes
        for j in range(0, len(inputs), 1500):
            out.append(dict(kind='decode', base=k, inputs=inputs[j:j + 1500]))
    # counts and lengths at the ends of what their fields can hold (255 targets, a 255 character name, ten callouts,
    # a user-data section of 16 KiB ...): the whole PEL and every proper prefix of it (every 7th beyond 1500 bytes)
    lim = []
    for k, (nt, nl) in enumerate([(255, 0), (255, 255), (254, 4), (253, 5), (0, 255), (1, 254), (128, 128), (127, 3)]):
        pel = genpel.gen_pel(rng, kinds=[], creator='O')
        pel['secs'] = ([genpel.gen_mt(rng)] if k % 3 == 2 else []) + [genpel.gen_lp(rng, ntargets=nt, namelen=nl)]
        lim.append(pel)
    pel = genpel.gen_pel(rng, kinds=[], creator='O')
    pel['secs'] = [genpel.gen_src(rng, 'PS', ncallouts=10)]
    lim.append(pel)
    for size in (4, 8, 252, 256, 16384):
        pel = genpel.gen_pel(rng, kinds=[], creator='O')
        pel['secs'] = [dict(genpel.hdr(rng, 'UD'), kind='UD', sub=rng.randrange(256), ver=1, comp=[0x77, 0x77],
                            payload=genpel.rbytes(rng, size))]
        lim.append(pel)
    nlim = 0
    for pel in lim:
        data = bytes(encode.encode(pel))
        inputs = [(data.hex(), False)]
        inputs += [(data[:L].hex(), True) for L in range(len(data)) if L < 1500 or len(data) - L < 64 or L % 7 == 0]
        nlim += len(inputs)
        for j in range(0, len(inputs), 1500):
            out.append(dict(kind='decode', base=-3, inputs=inputs[j:j + 1500]))
    total += nlim
    info['limit_pels'] = len(lim)
    info['limit_decodes'] = nlim
    # well-formed PELs whose text / JSON user data holds long runs of the characters the output stage scans for
    patho = []
    for ch in ('\\', '"', ':', '{', '\u00e9', '\\"', '":', ' '):
        for n in (24, 60, 200):
            for sub, body in ((3, 'x' + ch * n + 'y\n' + ch * n), (1, json.dumps({'k' + ch * 3: [ch * n, 'z'], ch * n: ch * n}))):
                raw = body.encode('utf-8')
                raw += b'\x00' * ((-len(raw)) % 4)
                sec = dict(kind='UD', id=encode.text('UD'), ver=1, sub=sub, comp=[0x20, 0x00], payload=list(raw))
                pel = genpel.gen_pel(rng, kinds=[], creator='O')
                pel['secs'] = [sec]
                patho.append((bytes(encode.encode(pel)).hex(), False))
    # built-in JSON / text user data whose content is NOT what the format promises: broken JSON, JSON that is not an
    # object, bytes that are not UTF-8, nothing but padding
    for sub in (1, 3):
        for raw in (b'{"a": 1', b'{"a": 1}}', b'[1, 2', b'"just a string"', b'17', b'null', b'{"a": NaN}', b'\xff\xfe\x00\x00',
                    b'{"k": "\xc3"}', b'\x00\x00\x00\x00', b'   \n  ', b'\xef\xbb\xbf{"bom": 1}', b'{"a": 1}\x00\x00garbage'):
            raw = raw + b'\x00' * ((-len(raw)) % 4)
            sec = dict(kind='UD', id=encode.text('UD'), ver=1, sub=sub, comp=[0x20, 0x00], payload=list(raw))
            pel = genpel.gen_pel(rng, kinds=[], creator='O')
            pel['secs'] = [sec, genpel.gen_mt(rng)]
            patho.append((bytes(encode.encode(pel)).hex(), False))
    for j in range(0, len(patho), 8):
        out.append(dict(kind='decode', base=-2, inputs=patho[j:j + 8]))
    total += len(patho)
    info['pathological_content_pels'] = len(patho)
    # random strings and header-only strings
    rnd = []
    hdrs = bytes(encode.encode(genpel.gen_pel(rng, kinds=[])))
    for _ in range(300 if tier == 'quick' else 6000):
        L = rng.choice([0, 1, 7, 8, 47, 48, 71, 72, rng.randrange(600)])
        rnd.append((bytes(rng.randrange(256) for _ in range(L)).hex(), False))
        tail = bytes(rng.randrange(256) for _ in range(rng.randrange(120)))
        h = bytearray(hdrs)
        h[27] = rng.choice([2, 3, 4, 255, rng.randrange(256)])    # section count
        rnd.append((bytes(h).hex() + tail.hex(), False))
    for j in range(0, len(rnd), 1500):
        out.append(dict(kind='decode', base=-1, inputs=rnd[j:j + 1500]))
    total += len(rnd)
    info['decodes'] = total
    info['base_pels'] = nbase
    # command-line sample
    ncli = 160 if tier == 'quick' else 3000
    pels = _base_pels(random.Random(seed + 99), 8)
    cli = []
    for k in range(ncli):
        data = bytes(encode.encode(pels[k % len(pels)]))
        r = rng.random()
        if r < .5:
            cli.append((data[:rng.randrange(len(data))].hex(), True))
        elif r < .9:
            b = bytearray(data)
            b[rng.randrange(len(b))] = rng.randrange(256)
            cli.append((bytes(b).hex(), False) if bytes(b) != data else (data.hex(), False))
        else:
            cli.append((bytes(rng.randrange(256) for _ in range(rng.randrange(300))).hex(), False))
    # the two header ids, damaged one at a time (with -f the tool leaves through sys.exit(1))
    for k in range(4):
        data = bytearray(encode.encode(pels[k % len(pels)]))
        for off, val in ((0, 0x58), (1, 0x00), (48, 0x75), (49, 0x48 ^ 0x20)):
            b = bytearray(data)
            b[off] = val
            cli.append((bytes(b).hex(), False))
    for j in range(0, len(cli), 10):
        out.append(dict(kind='cli', inputs=cli[j:j + 10]))
    info['cli_runs'] = 2 * len(cli)
    # the same strings met TOGETHER: a directory holding a log and damaged copies of it (same entry id, one byte of
    # the headers or of the first section changed, or cut short), through every mode that walks a directory
    ndir = 16 if tier == 'quick' else 400
    for k in range(ndir):
        out.append(dict(kind='clidir', seed=seed * 911 + k, pel=k % len(pels), opt=k % 2 == 1))
    info['directories_of_damaged_copies'] = ndir
    return out


def _worker(opt, inputs):
    cmd = [PY] + (['-O'] if opt else []) + [os.path.join(VERIF, 'harness', 'c05_worker.py')]
    env = dict(os.environ, PYTHONDONTWRITEBYTECODE='1', PYTHONHASHSEED='0')
    p = subprocess.run(cmd, input=json.dumps(dict(repo=REPO, inputs=inputs)), stdout=subprocess.PIPE,
                       stderr=subprocess.PIPE, text=True, env=env, timeout=560)
    if p.returncode != 0:
        raise RuntimeError('c05_worker failed (%s): %s' % (cmd, p.stderr[-2000:]))
    return json.loads(p.stdout)


def _decode_case(case):
    inputs = [h for h, _ in case['inputs']]
    a = _worker(False, inputs)
    b = _worker(True, inputs)
    recs = []
    for (h, prefix), x, y in zip(case['inputs'], a, b):
        recs.append(dict(kind='decode', shape_ok=True, size=len(h) // 2, prefix=prefix,
                         outcome=x['outcome'], detail=x['detail'], digest=x['digest'],
                         events=x['events'], stdout_len=x['stdout_len'],
                         outcomeO=y['outcome'], detailO=y['detail'], digestO=y['digest'],
                         eventsO=[-1] if y['events'] == x['events'] else y['events'],
                         stdout_lenO=y['stdout_len'], input=h if len(h) <= 400 else h[:400] + '...',
                         base=case['base']))
    return recs


def _cli_case(case):
    d = seams.scratch_dir('c05cli')
    recs = []
    script = os.path.join(REPO, 'modules', 'pel', 'peltool', 'peltool.py')
    env = dict(os.environ, PYTHONPATH=os.path.join(REPO, 'modules'), PYTHONDONTWRITEBYTECODE='1')
    for n, (h, prefix) in enumerate(case['inputs']):
        path = os.path.join(d, 'in%d.pel' % n)
        seams.write_file(path, bytes.fromhex(h))
        for opt in (False, True):
            # the options that change what -f does with a decoded log (or with one it cannot decode)
            extra = [[], ['-x'], ['-P'], [], ['-x', '-P'], ['-H', '-N', '-s'], ['-x'], ['-c'], ['-c', '-x']][(n + 2 * opt + len(h)) % 9]
            if '-c' in extra:
                seams.write_file(path, bytes.fromhex(h))        # (an earlier run with --clean may have removed it)
            cmd = [PY] + (['-O'] if opt else []) + [script, '-E', '-f', path] + extra
            rec = dict(kind='cli', shape_ok=True, prefix=prefix, opt=opt, extra=extra,
                       input=h if len(h) <= 400 else h[:400] + '...')
            try:
                p = subprocess.run(cmd, stdout=subprocess.PIPE, stderr=subprocess.PIPE, env=env, timeout=60)
                out = p.stdout.decode('utf-8', 'replace')
                err = p.stderr.decode('utf-8', 'replace')
                rec['exit'] = p.returncode if -1000 < p.returncode < 1000 else 999
                rec['traceback'] = 'Traceback (most recent call last)' in err or 'Traceback' in out
                rec['stderr_empty'] = err.strip() == ''
                if out.strip() == '':
                    rec['stdout'] = 'empty'
                else:
                    try:
                        if '-x' in extra:
                            from .. import dirrun
                            if dirrun.hex_blocks(out) is None:
                                raise ValueError('not a delimited hex dump')
                        else:
                            json.loads(out)
                        rec['stdout'] = 'json'          # (well-formed output of the mode asked for)
                    except ValueError:
                        rec['stdout'] = 'other'
            except subprocess.TimeoutExpired:
                rec.update(exit=998, traceback=False, stderr_empty=True, stdout='other')
            recs.append(rec)
        if os.path.exists(path):
            os.remove(path)
    return recs


def _clidir_case(case):
    import shutil
    rng = random.Random(case['seed'])
    pels = _base_pels(random.Random(case['seed'] // 911 + 99), 8)
    data = bytes(encode.encode(pels[case['pel'] % len(pels)]))
    d = os.path.join(seams.scratch_dir('c05dir'), 'd')
    shutil.rmtree(d, ignore_errors=True)
    os.makedirs(d)
    names = ['2023_%02d_base' % rng.randrange(50)]
    seams.write_file(os.path.join(d, names[0]), data)
    for j in range(rng.randrange(3, 9)):
        b = bytearray(data)
        r = rng.random()
        if r < .7:
            # one byte of the headers (times, creator, counts, ids, severity, flags ...) or of what follows them
            off = rng.randrange(8, 72) if rng.random() < .8 or len(b) <= 72 else rng.randrange(72, len(b))
            if off in range(44, 48) and rng.random() < .7:
                off = rng.randrange(16, 24)                       # mostly keep the entry id: copies of ONE log
            b[off] = rng.choice([0x00, 0xFF, b[off] ^ 0x80, b[off] ^ 0x10, rng.randrange(256)])
        elif r < .85:
            b = b[: rng.randrange(0, len(b))]
        nm = '%s_%02d_copy%d' % (rng.choice(['2022', '2023', '2024']), rng.randrange(50), j)
        names.append(nm)
        seams.write_file(os.path.join(d, nm), bytes(b))
    eid = '%08X' % encode.b2i(list(data[44:48]))
    modes = [['-l'], ['-a'], ['-n'], ['-l', '-r'], ['-a', '-r', '-E'], ['-l', '-E'], ['--plid', '%08X' % encode.b2i(list(data[40:44]))],
             ['--src', 'B'], ['--src', '1'], ['-i', eid], ['--bmc-id', str(encode.b2i(list(data[28:32])))], ['-n', '-E']]
    recs = []
    for m in modes:
        res = seams.run_cli_proc(['-p', d] + m, 'opt' if case['opt'] else 'plain', timeout=60)
        out, err = res['out'], res['err']
        if out.strip() in ('', 'PEL not found'):
            shape = 'empty' if out.strip() == '' else 'json'
        else:
            try:
                json.loads(out)
                shape = 'json'
            except ValueError:
                shape = 'other'
        recs.append(dict(kind='cli', shape_ok=True, prefix=False, opt=case['opt'], input='dir:%s:%s' % (' '.join(m), data.hex()[:120]),
                         exit=res['exit'] if -1000 < res['exit'] < 1000 else 999,
                         traceback='Traceback (most recent call last)' in err or 'Traceback' in out,
                         stderr_empty=err.strip() == '', stdout=shape))
    shutil.rmtree(d, ignore_errors=True)
    return recs


def run_case(case):
    if case['kind'] == 'decode':
        return _decode_case(case)
    if case['kind'] == 'clidir':
        return _clidir_case(case)
    return _cli_case(case)


def nontrivial(r):
    if r['kind'] == 'decode':
        return r['input'] if len(r['events']) >= 72 else None
    return ('cli', r['input'], r['opt'])


def fingerprint(r, clauses):
    if r['kind'] == 'decode':
        return 'C05:decode:%s:prefix=%s:outcome=%s/%s' % ('+'.join(clauses), r['prefix'], r['outcome'],
                                                          r['outcomeO'])
    return 'C05:cli:%s:opt=%s:exit=%s' % ('+'.join(clauses), r['opt'], r['exit'])


def sample(r):
    if r['kind'] == 'decode':
        return dict(kind='decode', input_hex=r['input'][:160], size=r['size'], proper_prefix=r['prefix'],
                    outcome=r['outcome'], outcome_under_O=r['outcomeO'], cursor_events=len(r['events']) // 6,
                    first_events=r['events'][:18])
    return dict(kind='cli', input_hex=r['input'][:160], python_O=r['opt'], exit=r['exit'], stdout=r['stdout'])


def corrupt(r):
    if r['kind'] == 'decode':
        if len(r['events']) < 6:
            return None
        r['events'][3] += 1
        r['eventsO'] = [-1]
        return r
    r['exit'] = 3
    return r
