"""C18 - parser modules are chosen by creator/component, fed the right data, contained.

MC   : spec/mc/MC_DecodeHistory (cache / import / call structure: NoPoisoning, ErrorNoted)
Bind : fixture parser modules (appended to the udparsers / srcparsers / calloutparsers package
       paths; each records its arguments, behaviour ok / non-object / None / raising / raising
       ImportError) and the shipped ones (osrc -> oe500 / bsrc routing, m2c00, ocallouts) are
       exercised through the real parsePEL with an importlib.import_module recorder.
       Trace_UD judges ModuleName, Args, Contained, ErrorNote + Lossless, NothingImported,
       SrcModuleName (incl. the BMC wrapper's target), SrcArgs, DrawerRouting / DrawerDecoder
       (against the stand-alone decoders), CalloutModuleName ...
"""
import json
import os
import random

from .. import encode, genpel, pelrun, project, seams, udrun

ID = 'C18'
LEVEL = 'model_checking'
TRACE = 'trace/Trace_UD'
RULE = ('case = one consultation of a parser module during a real decode: user-data section (fixture / shipped / '
        'absent module x behaviour x plugins on/off), SRC (creator x BD/BC/other reference code x behaviour), I/O '
        'drawer plug-in call (sub-type x version x payload), callout procedure look-up; non-trivial = a parser module '
        'was imported or called; distinct = by (kind, module, behaviour, arguments)')
ASSUMPTIONS = [
    'fixture parser modules stand for "arbitrary well-behaved, raising, None-returning" parsers',
    'import caches are cleared and plugin modules unloaded before each observation, so every consultation is a first one '
    '(histories are C19)',
    'hex words beyond the valid word count may be passed as zeros or as stored (one or the other for all of them)',
    'the stand-alone I/O drawer decoders are the oracle for which decoder the plug-in used (their own output is C14-C16)',
]
MAX_PROCS = 16


def model_checks(tier):
    return [dict(module='mc/MC_DecodeHistory', cfg='mc/MC_DecodeHistory_repaired', must_cover=['Decode'], workers=8)]


BEHS = ['ok', 'ok_lead0', 'ok_letters', 'ok_bmccomp', 'nondict', 'none', 'raise', 'raise_empty', 'importerror', 'importfails',
        'importfails', 'absent']


def cases(tier, seed, info):
    rng = random.Random(seed + 18)
    items = []
    n = 3 if tier == 'quick' else 250
    for rep in range(n):
        for kind in ('UD', 'ED'):
            for beh in BEHS + ['prog0', 'prog1', 'prog2', 'prog3', 'prog4', 'prog5', 'builtin', 'shipped_e500', 'shipped_2c00'] \
                    + (['absent_df', 'absent_b5', 'absent_ff'] if kind == 'ED' else []):
                for plugins in (True, False):
                    items.append(dict(t='ud', kind=kind, beh=beh, plugins=plugins, k=rep))
        for creator in ('X', 'Y', 'O', 'B', 'Q', 'Z'):
            for ref in ('BD', 'BC', '11', 'ZZ'):
                for beh in ('0', '1', '2', '3', '4', '5', '6'):
                    for plugins in (True, False):
                        items.append(dict(t='src', creator=creator, ref=ref, beh=beh, plugins=plugins, k=rep))
        for a in ('BD8DAA', 'BC8AAA', 'BD8DBB', 'BD8DCC', '1100AA', 'BC8ACC'):
            for b in ('BD8DAA', 'BC8AAA', 'BD8DBB', 'BD8DCC', 'BC8ABB'):
                for beh_a in ((0, 3, 4, 5, 6) if rep == 0 else (0, 1 + rep % 6)):
                    items.append(dict(t='src2', a=a, b=b, beh_a=beh_a, k=rep))
        for sub in (72, 73, 84, 1, 99):
            for ver in (1, 2, 0, 3):
                for L in (0, 1, 8, 24, 40, 100):
                    items.append(dict(t='m2c00', sub=sub, ver=ver, L=L, k=rep))
        # content the decoders have something to say about - made from the tables of EITHER drawer type, whatever the
        # version of the section says: full-length history logs, ILOG entries the two tables describe differently
        for sub in (72, 73):
            for ver in (1, 2):
                for made_for in (1, 2):
                    for j in range(2):
                        items.append(dict(t='m2c00', sub=sub, ver=ver, L='real', made_for=made_for, k=rep * 2 + j))
        for creator in ('X', 'O', 'B', 'Z'):
            for proc in ('FIX0001', 'FIXBOOM', 'FIXEMPT', 'FIXJUNK', 'BMC0001', 'BMC0008', 'NOSUCH1',
                         'FIXB%03d' % ((rep * 7 + 1) % 24), 'FIXB%03d' % ((rep * 7 + 4) % 24), 'FIXB%03d' % ((rep * 7 + 6) % 24)):
                for plugins in (True, False):
                    items.append(dict(t='callout', creator=creator, proc=proc, plugins=plugins, k=rep))
    rng.shuffle(items)
    out = [dict(seed=seed * 4099 + j, items=items[j:j + 30]) for j in range(0, len(items), 30)]
    info['consultations'] = len(items)
    return out


def _ud(rng, it):
    beh = it['beh']
    creator, comp, payload, fixture, canon = 'X', None, genpel.rbytes(rng, rng.choice([1, 4, 17, 60])), True, ''
    real_beh = beh
    if beh in udrun.FIXTURE_COMPS:
        comp = udrun.FIXTURE_COMPS[beh]
        if beh == 'importfails':
            comp = list(rng.choice(udrun.BROKEN_COMPS))
        real_beh = 'ok' if beh.startswith('ok') else beh
        if beh == 'ok_bmccomp':
            creator = 'Y'       # the component id under which the BMC's built-in formats live, from another creator
    elif beh.startswith('absent'):
        comp, fixture = [0x7A, 0x7A], False
        if beh != 'absent':
            # the creator of an extended user data section is a byte of the section itself: any of the 256 values
            # (the module asked for is named after the character's lower-case form - these have none other)
            creator = chr(int(beh[-2:], 16))
            real_beh = beh = 'absent'
    elif beh.startswith('prog'):
        comp = [0x66, 0x66]
        sel = int(beh[4])
        payload[0] = sel + 8 * rng.randrange(8)
        real_beh = ['ok', 'nondict', 'none', 'raise', 'importerror', 'raise_empty'][sel]
        creator = rng.choice(['X', 'Y'])
    elif beh == 'builtin':
        creator, comp, fixture, real_beh = 'O', [0x20, 0x00], False, 'absent'
    elif beh == 'shipped_e500':
        creator, comp, fixture, real_beh = 'O', [0xE5, 0x00], False, 'ok'
    elif beh == 'shipped_2c00':
        creator, comp, fixture, real_beh = 'M', [0x2C, 0x00], False, 'ok'
    sec = dict(kind=it['kind'], ver=rng.choice([1, 2, 7]), sub=rng.choice([1, 2, 3, 72, 200]), comp=comp,
               payload=payload)
    if beh == 'shipped_e500':
        sec['sub'] = 4
        sec['payload'] = genpel.rbytes(rng, 24)
    if beh == 'shipped_2c00':
        sec['sub'], sec['ver'] = 73, 1
        sec['payload'] = genpel.rbytes(rng, 16)
    if beh == 'builtin':
        sec['sub'] = 2
    pel_creator = creator if it['kind'] == 'UD' else rng.choice(['O', 'B'])
    if it['kind'] == 'UD':
        sec.update(id=encode.text('UD'))
    else:
        sec.update(id=encode.text('ED'), creator=ord(creator), res=[0, 0, 0])
    name = '%s%02x%02x' % (creator.lower(), comp[0], comp[1])
    if fixture and it['plugins']:
        if real_beh == 'ok':
            canon = json.dumps({'Fixture Parser': name, 'Fixture Subtype': sec['sub'], 'Fixture Version': sec['ver'],
                                'Fixture Payload': bytes(sec['payload']).hex()}, sort_keys=True)
        elif real_beh == 'nondict':
            canon = json.dumps({'Data': [name, sec['sub'], sec['ver'], bytes(sec['payload']).hex()]}, sort_keys=True)
    pel = genpel.gen_pel(rng, kinds=[], creator=pel_creator)
    # neighbours that consult no parser module, so every recorded import belongs to the focus section
    before = [genpel.gen_mt(rng), genpel.gen_eh(rng)]
    after = [genpel.gen_other(rng, 'EI'), genpel.gen_lp(rng, ntargets=2, namelen=4)]
    pel['secs'] = before + [sec] + after
    # the same PEL with a well-behaved parser in that position
    ok_sec = dict(sec)
    if fixture:
        ok_sec['comp'] = [0x11, 0x11]
        if it['kind'] == 'ED':
            ok_sec['creator'] = ord('X')
    pel_ok = dict(pel, secs=before + [ok_sec] + after)
    if it['kind'] == 'UD' and fixture:
        pel_ok = None if pel_creator != 'X' else pel_ok
    rec = udrun.observe(pel, len(before), it['plugins'], real_beh, 'C18', expect_canon=canon, c18=True,
                        pel_ok=pel_ok, fixture=fixture, via_cli=it['k'] % 2 == 1)
    rec['kind'] = 'ud'
    rec['what'] = beh
    return rec


def _digests(doc, skip):
    ent = list(doc.values())
    return [project.digest(e) for k, e in enumerate(ent) if k != skip]


def _src(rng, it):
    import verif_fixture
    seams.install_fixture_plugins()
    log = seams.install_import_recorder()
    creator = it['creator']
    comp2 = {'X': 'AA', 'Y': 'AA', 'O': rng.choice(['AA', 'BB', 'CC', 'E5', 'DD']), 'B': 'AA', 'Q': 'AA',
             'Z': 'AA'}[creator]
    ref = it['ref'] + '8D' + comp2 + '10' if it['ref'] != 'ZZ' else 'ZZ12' + comp2 + '10'
    s = genpel.gen_src(rng, 'PS', ncallouts=-1)
    s['ascii'] = encode.text(ref + rng.choice(['', '        ABCD']), 32, 0x20)
    # from no valid word at all to all eight (word 2 selects the fixture's behaviour: counts that leave it out go
    # with behaviour 0 only, so that either reading of "beyond the count" selects the same behaviour)
    s['wc'] = rng.choice([9, 9, 5, 2, 8] + ([1, 0, 0] if it['beh'] == '0' else []))
    s['words'] = [genpel.rbytes(rng, 4) for _ in range(8)]
    s['words'][0][3] = (s['words'][0][3] & 0xF0) | int(it['beh'])
    pel = genpel.gen_pel(rng, kinds=[], creator=creator)
    pel['secs'] = [genpel.gen_mt(rng), s, genpel.gen_other(rng, 'MI')]
    beh = {'0': 'ok', '1': 'null', '2': 'empty', '3': 'raise', '4': 'importerror', '5': 'raise_empty', '6': 'pynone'}[it['beh']]
    target = None
    if creator in ('X', 'Y'):
        target = creator.lower() + 'src'
    elif creator == 'Z':
        target, beh = 'zsrc', 'importfails'       # exists, fails while being loaded
    elif creator == 'B':
        target = 'bsrc'
    elif creator == 'O':
        if it['ref'] == 'BC':
            target = 'bsrc'
        elif comp2 == 'AA':
            target = 'oaa00'
        elif comp2 == 'BB':
            target, beh = 'obb00', 'raise'
        elif comp2 == 'E5':
            target, beh = 'oe500', 'ok'
        elif comp2 == 'DD':
            target, beh = 'odd00', 'importfails'
    if target is None:
        beh = 'absent'
    seams.clear_plugin_caches(unload=True)
    verif_fixture.reset()
    del log[:]
    before = seams.plugin_modules_loaded()
    res = pelrun.decode(encode.encode(pel), it['plugins'])
    after = seams.plugin_modules_loaded()
    imports = [n for n in log if n.split('.')[0] == 'srcparsers']
    calls = [dict(name=c[1], refcode=project.cp(c[2]), words=[project.cp(w) for w in c[3]])
             for c in verif_fixture.CALLS if c[0] == 'src']
    fixture_target = target in ('xsrc', 'ysrc', 'oaa00', 'obb00', 'bsrc', 'zsrc', 'odd00')
    rec = dict(family='C18', kind='src', shape_ok=res['doc'] is not None, creator=ord(creator), ascii=s['ascii'],
               words=s['words'], wc=s['wc'], plugins=it['plugins'],
               beh=beh if fixture_target else ('absent' if beh == 'absent' else 'shipped'),
               fixture=fixture_target,
               imports=[project.cp(n) for n in imports], calls=calls, has_details=False, details_canon='',
               expect_canon='', others=[], others_ok=[], modules_before=before, modules_after=after, what=target or '-')
    if res['doc'] is None:
        rec['shape_error'] = res['detail']
        return rec
    entry = list(res['doc'].values())[3]
    rec['has_details'] = 'SRC Details' in entry
    if rec['has_details']:
        rec['details_canon'] = json.dumps(entry['SRC Details'], sort_keys=True)
    if fixture_target and beh == 'ok':
        refcode = ''.join(chr(c) for c in s['ascii'])
        words = ['%08X' % encode.b2i(s['words'][n]) if n + 2 <= s['wc'] else '00000000' for n in range(8)]
        rec['expect_canon'] = json.dumps({'Fixture SRC Parser': target, 'Fixture Refcode': refcode,
                                          'Fixture Words': words}, sort_keys=True)
    if rec['beh'] == 'shipped':
        # shipped oe500: details expected; compare with a direct call of the shipped parser
        import srcparsers.oe500.oe500 as oe
        words = ['%08X' % encode.b2i(s['words'][n]) if n + 2 <= s['wc'] else '00000000' for n in range(8)]
        rec['expect_canon'] = json.dumps(json.loads(oe.parseSRCToJson(''.join(chr(c) for c in s['ascii']), *words)),
                                         sort_keys=True)
        rec['beh'] = 'ok'
        rec['calls'] = []
        rec['beh_shipped'] = True
    rec['others'] = _digests(res['doc'], 3)
    # reference run: same PEL, plugins off for the SRC's parser is not available -> compare with the run
    # where the parser behaves (beh 0)
    s_ok = dict(s, words=[list(w) for w in s['words']])
    s_ok['words'][0][3] = s['words'][0][3] & 0xF0
    seams.clear_plugin_caches(unload=True)
    r2 = pelrun.decode(encode.encode(dict(pel, secs=[pel['secs'][0], s_ok, pel['secs'][2]])), it['plugins'])
    rec['others_ok'] = _digests(r2['doc'], 3) if r2['doc'] is not None else ['reference failed']
    return rec


def _src2(rng, it):
    """a BMC PEL with a primary and a secondary SRC: which module does each reach, starting from empty caches"""
    import verif_fixture
    seams.install_fixture_plugins()
    log = seams.install_import_recorder()
    secs, asciis, present = [], [], []
    # the FIRST parser consulted may misbehave in every way (word 2 selects the fixture's behaviour: 0 ok, 1 null,
    # 2 empty, 3 raises, 4 raises ModuleNotFoundError from a lazy import, 5 raises without text); the second is
    # well behaved - what the first one does must not reach it
    beh_a = it['beh_a']
    for sid, ref in (('PS', it['a']), ('SS', it['b'])):
        s = genpel.gen_src(rng, sid, ncallouts=-1)
        s['ascii'] = encode.text(ref + '%02X' % rng.randrange(256), 32, 0x20)
        s['words'][0][3] = (s['words'][0][3] & 0xF0) | (beh_a if sid == 'PS' else 0)
        s['wc'] = 9          # (with fewer valid words the parser is handed zeros, which selects behaviour 0)
        secs.append(s)
        asciis.append(s['ascii'])
        present.append(ref[:2] == 'BC' or ref[4:6] in ('AA', 'BB'))
    pel = genpel.gen_pel(rng, kinds=[], creator='O')
    pel['secs'] = secs
    seams.clear_plugin_caches(unload=True)
    verif_fixture.reset()
    del log[:]
    res = pelrun.decode(encode.encode(pel), True)
    imports = [n for n in log if n.split('.')[0] == 'srcparsers']
    calls = [c[1] for c in verif_fixture.CALLS if c[0] == 'src']
    details = []
    if res['doc'] is not None:
        details = ['SRC Details' in e for e in list(res['doc'].values())[2:4]]
    # oaa00 / bsrc are programmable, obb00 always raises: which SRC must come with details
    want = []
    for k, ref in enumerate((it['a'], it['b'])):
        served = ref[:2] == 'BC' or ref[4:6] == 'AA'
        want.append(bool(served and (beh_a == 0 if k == 0 else True)))
    return dict(family='C18', kind='src2', shape_ok=res['doc'] is not None, plugins=True, asciis=asciis,
                details=details, want_details=want, beh_first=beh_a,
                present=present, imports=[project.cp(n) for n in imports],
                call_mods=[project.cp('srcparsers.%s.%s' % (c, c)) for c in calls], what=it['a'] + '+' + it['b'],
                beh='-', calls=calls)


def _m2c00(rng, it):
    import udparsers.m2c00.m2c00 as m2
    from io_drawer.drawer_type import DRAWER_TYPES
    from io_drawer.hlog import parse_hlog_data
    from io_drawer.ilog import parse_ilog_data
    from io_drawer.trace import parse_trace_data
    from pel.hexdump import hexdump
    if it['L'] == 'real':
        from . import c14
        from .. import drawer
        if it['sub'] == 72:
            payload = [rng.choice([0, 0, rng.randrange(256)]) for _ in range(46)] + genpel.rbytes(rng, 18)
        else:
            table = drawer.read_pte_table(os.path.join(drawer.io_dir(), ['mex_pte.h', 'nimitz_pte.h'][it['made_for'] - 1]))[0]
            other = drawer.read_pte_table(os.path.join(drawer.io_dir(), ['nimitz_pte.h', 'mex_pte.h'][it['made_for'] - 1]))[0]
            theirs = {e['pattern'].upper(): e['msg'] for e in other}
            differing = [i for i, e in enumerate(table) if theirs.get(e['pattern'].upper(), e['msg']) != e['msg']]
            lo = max(0, rng.choice(differing) - rng.randrange(6)) if differing and rng.random() < .8 else rng.randrange(len(table))
            payload = c14.data_for(rng, table, lo, lo + 8)
            payload = payload[: min(len(payload) - len(payload) % 8, 8 * 40)]
    else:
        payload = genpel.rbytes(rng, it['L'])
    if it['sub'] == 84 and it['L'] != 'real' and it['L'] >= 40:
        payload[:4] = [2, 0x20, 1, 0x42]
    mv = memoryview(bytes(payload))
    if it['L'] == 'real' and it['k'] % 2:
        m2.parseUDToJson(it['sub'], 3 - it['ver'], mv)        # the same content was shown for the other drawer type before
    out = m2.parseUDToJson(it['sub'], it['ver'], mv)
    rec = dict(family='C18', kind='m2c00', shape_ok=isinstance(out, str), sub=it['sub'], ver=it['ver'],
               payload=payload, is_object=False, keys=[], lines=[], standalone=[], has_error=False, what='m2c00')
    if not isinstance(out, str):
        return rec
    try:
        doc = json.loads(out)
    except ValueError:
        rec['shape_ok'] = False
        return rec
    rec['is_object'] = isinstance(doc, dict)
    if not rec['is_object']:
        return rec
    rec['has_error'] = 'Error' in doc
    keys = [k for k in doc if k != 'Error']
    rec['keys'] = keys
    val = doc[keys[0]] if len(keys) == 1 else None
    if not (isinstance(val, list) and all(isinstance(x, str) for x in val)):
        rec['shape_ok'] = False
        return rec
    rec['lines'] = [project.cp(x) for x in val]
    dt = [d for d in DRAWER_TYPES if d.user_data_version == it['ver']]
    alone = []
    if payload and it['sub'] not in (72, 73, 84):
        alone = hexdump(mv)
    elif payload and dt:
        # the stand-alone decoder of that drawer type, run in a process that has decoded nothing else
        import subprocess
        from ..framework import REPO, VERIF
        p = subprocess.run(['/venv/bin/python', os.path.join(VERIF, 'harness', 'drawer_fresh.py')],
                           input=json.dumps(dict(repo=REPO, sub=it['sub'], ver=it['ver'], hex=bytes(payload).hex())),
                           stdout=subprocess.PIPE, stderr=subprocess.PIPE, text=True, timeout=60,
                           env=dict(os.environ, PYTHONDONTWRITEBYTECODE='1', PYTHONWARNINGS='ignore'))
        if p.returncode == 0:
            alone = json.loads(p.stdout.strip().splitlines()[-1])['lines']
        else:
            alone = ['stand-alone decoder failed: ' + p.stderr.strip().splitlines()[-1][:120]] if p.stderr.strip() else ['failed']
    rec['standalone'] = [project.cp(x) for x in alone]
    if not payload:
        # nothing to decode: an empty list under the routed key (or Data)
        rec['standalone'] = []
        if it['ver'] not in (1, 2) and it['sub'] in (72, 73, 84):
            rec['ver'] = 1      # with no data the version is never consulted
    return rec


def _callout(rng, it):
    import verif_fixture
    seams.install_fixture_plugins()
    log = seams.install_import_recorder()
    creator = it['creator']
    known = {'X': {'FIX0001'}, 'O': {'BMC0001', 'BMC0008'}, 'B': set(), 'Z': set()}[creator]
    shapes = [dict(fru='m', pce=None, mru=None, loc=4), dict(fru='p', pce=None, mru=None, loc=0)]
    s = genpel.gen_src(rng, 'PS', ncallouts=2, shapes=shapes)
    s['callouts']['list'][0]['fru']['pn'] = encode.text(it['proc'], 8)
    pel = genpel.gen_pel(rng, kinds=[], creator=creator)
    pel['secs'] = [s, genpel.gen_mt(rng)]
    seams.clear_plugin_caches(unload=True)
    verif_fixture.reset()
    del log[:]
    res = pelrun.decode(encode.encode(pel), it['plugins'])
    imports = [n for n in log if n.split('.')[0] == 'calloutparsers']
    beh = 'ok' if it['proc'] in known else ('absent' if creator == 'B' else 'none')
    rec = dict(family='C18', kind='callout', shape_ok=res['doc'] is not None, creator=ord(creator),
               plugins=it['plugins'], beh=beh, imports=[project.cp(n) for n in imports], has_desc=False,
               others=[], others_ok=[], what=it['proc'])
    if res['doc'] is None:
        rec['shape_error'] = res['detail']
        return rec
    ent = list(res['doc'].values())
    co = ent[2]['Callout Section']['Callouts']
    rec['has_desc'] = 'Description' in co[0]
    stripped = json.loads(json.dumps(ent))
    stripped[2]['Callout Section']['Callouts'][0].pop('Description', None)
    rec['others'] = [project.digest(e) for e in stripped]
    seams.clear_plugin_caches(unload=True)
    r2 = pelrun.decode(encode.encode(pel), False)
    rec['others_ok'] = [project.digest(e) for e in r2['doc'].values()] if r2['doc'] is not None else ['reference failed']
    # the SRC parser may add SRC Details with plugins on: not part of this comparison
    if it['plugins'] and r2['doc'] is not None:
        e2 = json.loads(json.dumps(list(r2['doc'].values())))
        stripped[2].pop('SRC Details', None)
        rec['others'] = [project.digest(e) for e in stripped]
        rec['others_ok'] = [project.digest(e) for e in e2]
    return rec


def run_case(case):
    rng = random.Random(case['seed'])
    recs = []
    for it in case['items']:
        recs.append({'ud': _ud, 'src': _src, 'src2': _src2, 'm2c00': _m2c00, 'callout': _callout}[it['t']](rng, it))
    return recs


def nontrivial(r):
    if r['kind'] == 'm2c00':
        return ('m', r['sub'], r['ver'], bytes(r['payload']))
    if r.get('imports') or r.get('calls'):
        return (r['kind'], r.get('what'), r.get('beh'), str(r.get('imports'))[:200], str(r.get('calls'))[:300])
    return None


def fingerprint(r, clauses):
    return 'C18:%s:%s:%s:plugins=%s' % (r['kind'], '+'.join(clauses), r.get('what'), r.get('plugins'))


def sample(r):
    return dict(kind=r['kind'], what=r.get('what'), plugins=r.get('plugins'), beh=r.get('beh'),
                imports=[''.join(chr(c) for c in n) for n in r.get('imports', [])],
                calls=len(r.get('calls', [])))


def corrupt(r):
    if r['kind'] == 'src2':
        r['imports'] = r['imports'] + [[120]]
        return r
    if r['kind'] in ('ud', 'src', 'callout'):
        r['others'] = r['others'] + ['planted']
    else:
        r['is_object'] = False
    return r
