"""C10 - look-ups by platform log id, BMC id, entry id and SRC return exactly the matches.

MC   : spec/mc/MC_Selection (look-ups without selection options consider every PEL),
       spec/mc/MC_Listing
Bind : directories of PELs whose ids collide as strings but not as numbers (platform log ids below
       0x10000000, ids sharing 7 of 8 digits, decimal BMC ids that are prefixes of one another,
       several PELs per id, hidden / informational PELs) are queried through the real CLI with
       every spelling (with / without 0x, upper / lower case); Trace_Dir computes the match sets
       from the abstract attributes and judges PlidExact, BmcIdFound, IdFound, SrcExact,
       SrcExcludeExact, NotFoundReport.
"""
import json
import os
import random
import shutil

from .. import genpel, dirrun, encode, project, seams

ID = 'C10'
LEVEL = 'model_checking'
TRACE = 'trace/Trace_Dir'
PROCESS_EVERY = 5         # every fifth case runs the command line as a real process (seams.PROC_VARIANTS)
RULE = ('case = one (directory, query): --plid / --bmc-id / --id / --src / --src-exclude in one of its spellings on a '
        'directory of 3-14 PELs with colliding ids incl. hidden and non-serviceable ones; non-trivial = the match set is '
        'neither empty nor the whole directory, or the matched PEL is hidden / non-serviceable; distinct = by '
        '(query, directory attributes)')
ASSUMPTIONS = [
    'queries are 8 hex digits after prefix stripping (other lengths are rejected by design); reference codes are the '
    '8-character codes of the platform, exclusion files list whole codes',
    'file names carry their upper-case entry id, as the BMC writes them; entry ids are distinct',
]


def model_checks(tier):
    return [dict(module='mc/MC_Selection', cfg='mc/MC_Selection_quick', must_cover=['Evaluate'])]


def cases(tier, seed, info):
    n = 60 if tier == 'quick' else 6000
    info['directories'] = n
    return [dict(seed=seed * 7001 + k, k=k, nq=10 if tier == 'quick' else 25) for k in range(n)]


PLIDS = [0x50000001, 0x50000011, 0x00001234, 0x00012345, 0x0ABCDEF0, 0x10000000, 0x0FFFFFFF, 0x5000001A, 0xFFFFFFFF,
         0x00000001, 0x00000000, 0x0000000C, 0x00000010, 0x000000FF]
BMCS = [1, 12, 123, 1234, 2, 21, 4294967295, 100, 10, 0, 0, 7, 2147483648, 3221225763, 2147483647]


def run_case(case):
    rng = random.Random(case['seed'])
    if case['seed'] % 2:
        seams.install_registry()        # every second directory is shown with a message registry installed
    else:
        import pel.peltool.src as _src
        _src.registry.pels = []
    n = rng.randint(3, 14)
    eids = rng.sample([0x50000001, 0x50000011, 0x50000101, 0x5000001A, 0x500000A1, 0x00001234, 0x0ABCDEF0,
                       0x51234567, 0x5123456A, 0x90000001, 0xFFFFFFFE, 0x00000012, 0x12340000, 0x50001234,
                       0x5000ABCD, 0x0000ABCD], n)
    # the PATH of the directory is not the name of a file in it: ids and reference codes in the path (a case
    # directory named after a log, say) match nothing
    top = os.path.join(seams.scratch_dir('c10'), 't')
    shutil.rmtree(top, ignore_errors=True)
    d = os.path.join(top, rng.choice(['dir', 'dir', 'case_%08X' % rng.choice(eids + [0x5EEEEEEE, 0x00001235]),
                                      '%08X' % rng.choice(eids + [0x5EEEEEEE]), 'BD8D1001_logs',
                                      # characters that mean something to pattern matching, not to a directory name
                                      'pels [site 7]', 'logs[0]', 'a*b q?', '{x,y}', 'back\\slash']))
    files, fattrs = [], []
    for e in eids:
        pel = dirrun.mk_pel(rng, e, plid=rng.choice(PLIDS + [e]), bmc=rng.choice(BMCS), ref=rng.choice(dirrun.REFS + dirrun.REFS + dirrun.REFS_LONG),
                            sev=rng.choice([0x40, 0x00, 0x20, 0x51]), flags=rng.choice([0x2000, 0x6000, 0x0000, 0x8000]),
                            creator=rng.choice(['O', 'B', 'H', 'H']), lead=True)
        nm = rng.choice(['2023030818402711_%08X', '2024_%08X', 'x_%08X', '%08X_fan_fault', 'pel-%08X-copy.bin',
                         '2023051210203041_%08X.pel', '%08X']) % e
        r_ = rng.random()
        if r_ < .06:
            pel['secs'] = []                                    # the two headers only: no reference code at all
        elif r_ < .12:
            pel['secs'] = [s_ for s_ in pel['secs'] if s_['kind'] != 'SRC'] or [genpel.gen_mt(rng)]   # sections, but no SRC
        elif r_ < .18:
            for s_ in pel['secs']:
                if s_['kind'] == 'SRC':
                    s_['ascii'] = [0x20] * 32                   # an SRC whose reference code is blank
        data = bytes(encode.encode(pel))
        files.append((nm, data))
        fattrs.append(dirrun.attrs(pel, nm, data))
    dirrun.write_dir(d, files)
    recs = []
    spell = lambda v: rng.choice(['%08X', '0x%08X', '%08x', '0X%08x', '0x%08x']) % v
    import re as _re
    named = _re.search(r'[0-9A-F]{8}', os.path.basename(d))
    for qn in range(case['nq']):
        kind = rng.choice(['plid', 'plid', 'bmc', 'id', 'src', 'srcex'])
        if qn < 2:
            kind = 'id'              # (the first two look-ups are by entry id: see the directory's name)
        q = dict(kind=kind)
        if kind == 'plid':
            v = rng.choice(PLIDS + [encode.b2i(a['plid']) for a in fattrs])
            q.update(x=encode.u32(v), spelling=spell(v))
            argv = ['--plid', q['spelling']]
        elif kind == 'bmc':
            v = rng.choice(BMCS + [3, 99])
            q.update(n=encode.u32(v), spelling=rng.choice([str(v), str(v), '0%d' % v if v == 7 else str(v)]) if False else str(v))
            argv = ['--bmc-id', q['spelling']]
        elif kind == 'id':
            v = rng.choice(eids + [0x5EEEEEEE, 0x00001235])
            if named and qn == 0:
                v = int(named.group(0), 16)         # the id the directory is named after (stored there, or not)
            q.update(id=project.cp('%08X' % v), spelling=spell(v))
            argv = ['-i', q['spelling']]
        elif kind == 'src':
            s = rng.choice(['BD8D1001', 'BD8D', 'BD', '1001', 'BC8A1001', 'B1', '11001001', 'ZZZZ', 'D8D1', '8D100'])
            q.update(s=project.cp(s), spelling=s)
            argv = ['--src', s]
        else:
            # the file names whole reference codes, one per line
            present = sorted({''.join(map(chr, a['ref'])) for a in fattrs if a['ref']})
            pool = dirrun.REFS + dirrun.REFS_LONG + present + present
            codes = rng.sample(pool, rng.randint(0, 4))
            path = os.path.join(os.path.dirname(d), 'exclude.txt')
            with open(path, 'w') as f:
                f.write(''.join(c + '\n' for c in codes))
            q.update(codes=[project.cp(c) for c in codes], spelling=','.join(codes))
            argv = ['--src-exclude', path]
        if rng.random() < .25 and kind in ('plid', 'src', 'srcex'):
            argv.append('-r')
        # the same look-up shown as hex dumps (-x): the PELs found are the same ones
        hexm = rng.random() < .25
        if hexm:
            argv.insert(rng.choice([0, len(argv)]), rng.choice(['-x', '--hex']))       # before or behind the look-up
        res = seams.run_cli(['-p', d] + argv)
        out = res['out'] or ''
        rec = dict(family='C10', shape_ok=True, files=fattrs, q=q, result=[], shown=[], not_found=False,
                   exit=res['exit'] if not res['uncaught'] else 99, argv=argv[:2])
        try:
            if kind in ('plid', 'src', 'srcex'):
                rec['result'] = dirrun.hex_ids(out) if hexm else [e['eid'] for e in dirrun.list_entries(out)]
            else:
                if out.strip() == 'PEL not found':
                    rec['not_found'] = True
                elif hexm and out.strip():
                    rec['shown'] = dirrun.hex_ids(out)
                elif out.strip() == 'PEL not found':
                    rec['not_found'] = True
                elif out.strip() == '':
                    pass
                else:
                    doc = json.loads(out)
                    rec['shown'] = [project.numbytes(doc['Private Header']['Entry Id'], 4)]
        except (project.ShapeError, ValueError, KeyError, TypeError) as e:
            rec['shape_ok'] = False
            rec['shape_error'] = repr(e)[:200]
        recs.append(rec)
    shutil.rmtree(d, ignore_errors=True)
    return recs


def nontrivial(r):
    hidden = {tuple(f['eid']) for f in r['files'] if f['flags'] & 0x4000 or not f['flags'] & 0x2000}
    got = [tuple(x) for x in (r['result'] or r['shown'])]
    if (0 < len(got) < len(r['files'])) or any(g in hidden for g in got):
        return (json.dumps(r['q'], sort_keys=True), str([f['eid'] for f in r['files']]))
    return None


def fingerprint(r, clauses):
    return 'C10:%s:%s' % (r['q']['kind'], '+'.join(clauses))


def sample(r):
    return dict(argv=r['argv'], result=r['result'][:5], shown=r['shown'], not_found=r['not_found'],
                pels=len(r['files']))


def corrupt(r):
    if r['q']['kind'] in ('plid', 'src', 'srcex'):
        r['result'] = r['result'] + [[1, 2, 3, 4]]
    else:
        r['not_found'] = not r['not_found']
    return r
