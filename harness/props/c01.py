"""C01 - every PEL section is decoded once, in order, from exactly its own bytes.

MC   : spec/mc/MC_PelDecoder (parsePEL loop: framing, naming, truncation, termination over
       every PEL of <= 3 sections x every truncation point), spec/mc/MC_SrcCallouts (the
       callout walk never desynchronises, whatever follows)
Gen  : spec/gen/Gen_PelSeq emits every sequence of section kind classes up to the bound
Bind : each structure is filled with values/shapes (several fillings), encoded, decoded by the
       real parsePEL through a traced cursor and the sectionFun seam; Trace_Pel judges
       EncoderAgrees, Decoded, OneEntryPerSection, Names, Compositional (entry k equals the
       stand-alone decode of section k), Cursor and Boundaries.  Long PELs (up to 253 optional
       sections) and every creator id 0x00-0x7F are added.
"""
import random

from .. import encode, genpel, pelrun, tlc

ID = 'C01'
LEVEL = 'model_checking'
TRACE = 'trace/Trace_Pel'
PROCESS_EVERY = 4         # every fourth case decodes through the real tool as a real process (seams.PROC_VARIANTS)
RULE = ('case = one well-formed PEL: a sequence of section kind classes emitted by TLC (exhaustive up to the bound) '
        'or seeded random (long PELs, all creator ids), filled with shapes and values, decoded by the real parsePEL; '
        'non-trivial = the PEL has at least two optional sections or a section with callouts; distinct = by bytes')
ASSUMPTIONS = [
    'PH / UH ids are not generated in optional positions; numbering is by displayed name (all unknown ids share '
    '"Unknown"); creator bytes >= 0x80 are excluded (not decodable as text)',
    'well-formed Impacted Partition: 2 pad bytes iff the target count is odd; PCE names have >= 1 byte',
    'Compositional compares each entry with the decode of the same section alone in a PEL with the same headers',
]
JUDGE_SHARDS = 16
CLASS = {'PS': 'PS', 'SS': 'SS', 'EH': 'EH', 'MT': 'MT', 'LP': 'LP', 'UD': 'UD', 'ED': 'ED'}


def model_checks(tier):
    return [dict(module='mc/MC_PelDecoder', cfg='mc/MC_PelDecoder_skew0',
                 must_cover=['PH', 'UH', 'Loop', 'Hdr', 'BodyStep']),
            dict(module='mc/MC_SrcCallouts', cfg='mc/MC_SrcCallouts_repaired', must_cover=['Next'], workers=8)]


def cases(tier, seed, info):
    rng = random.Random(seed + 1)
    seqs, _ = tlc.generate('gen/Gen_PelSeq', 'gen/Gen_PelSeq' if tier == 'thorough' else 'gen/Gen_PelSeq')
    seqs = [s['kinds'] for s in seqs]
    info['tlc_sequences'] = len(seqs)
    items = []
    short = [s for s in seqs if len(s) <= 2]
    long3 = [s for s in seqs if len(s) == 3]
    fill = 2 if tier == 'quick' else 4
    for s in short:
        for f in range(fill):
            items.append(dict(kinds=s, f=f))
    if tier == 'quick':
        for s in rng.sample(long3, 500):
            items.append(dict(kinds=s, f=0))
    else:
        for s in long3:
            for f in range(3):
                items.append(dict(kinds=s, f=f))
    kinds = ['PS', 'SS', 'EH', 'MT', 'LP', 'UD', 'ED', 'HD', 'XX', 'TI', 'TP', 'TM']
    for _ in range(200 if tier == 'quick' else 20000):
        items.append(dict(kinds=[rng.choice(kinds) for _ in range(rng.randint(4, 9))], f=0))
    for n in ([60, 130, 253] if tier == 'quick' else [60, 130, 200, 253] * 40):
        items.append(dict(kinds=[rng.choice(kinds[2:]) for _ in range(n)], f=0, small=True))
    for c in range(128):
        items.append(dict(kinds=['PS', 'UD', 'ED', 'HD'][: 1 + c % 4], f=0, creator=c))
    out = []
    for j in range(0, len(items), 25):
        out.append(dict(seed=seed * 9973 + j, items=items[j:j + 25]))
    info['pels'] = len(items)
    return out


def build(rng, it):
    creator = chr(it['creator']) if 'creator' in it else rng.choice(['O', 'O', 'B', 'H', 'M', 'X'])
    pel = genpel.gen_pel(rng, kinds=[], creator=creator)
    secs = []
    for kd in it['kinds']:
        if kd in ('PS', 'SS'):
            s = genpel.gen_src(rng, kd, ncallouts=0 if it.get('small') else None)
        elif kd in ('EH', 'MT', 'LP', 'ED'):
            s = genpel.gen_section(rng, kd, creator)
            if it.get('small') and kd == 'LP':
                s = genpel.gen_lp(rng, ntargets=rng.randrange(4), namelen=rng.choice([0, 4, 5]))
        elif kd == 'UD':
            s = genpel.gen_ud(rng, creator=creator)
        elif kd == 'HD':
            s = genpel.gen_other(rng, rng.choice(genpel.HEXDUMP_IDS))
        elif kd == 'XX':
            s = genpel.gen_other(rng, rng.choice(['XX', 'ZZ', 'ph', 'A1', '\x01\x02', 'Ud']))
        else:
            s = genpel.gen_other(rng, {'TI': 'ID', 'TP': 'PE', 'TM': 'MR'}[kd])
        secs.append(s)
    pel['secs'] = secs
    return pel


def run_case(case):
    rng = random.Random(case['seed'])
    recs = []
    for it in case['items']:
        pel = build(rng, it)
        recs.append(pelrun.observe(pel, 'C01', plugins=rng.random() < .5,
                                   standalone=len(pel['secs']) <= 12))
        if len(pel['secs']) > 12:
            recs[-1]['alone'] = recs[-1]['digests']      # long PELs: structure clauses only
    return recs


def nontrivial(r):
    secs = r['abs']['secs']
    if len(secs) >= 2 or any(s['kind'] == 'SRC' and s['callouts'] for s in secs):
        return bytes(r['bytes'])
    return None


def fingerprint(r, clauses):
    return 'C01:' + '+'.join(clauses)


def sample(r):
    return dict(section_ids=[''.join(chr(c) for c in s['id']) for s in r['abs']['secs']][:12],
                pel_bytes=len(r['bytes']), keys=r['keys'][:12], outcome=r['outcome'])


def corrupt(r):
    if r['outcome'] != 'doc' or not r['keys']:
        return None
    r['keys'][-1] = r['keys'][-1] + 'x'
    return r
