"""X01 (extra, not a listed property) - the command line of peltool follows spec/Cli.tla.

MC   : spec/mc/MC_Cli - every set of mode options x --clean x every answer of the file
       system, run down the chain of blocks of main(): one mode at most, first in the
       chain wins, a destructive mode never wins over another one, an exit with a message
       carries out nothing, --clean deletes the input of -f only after a complete print.
Gen  : spec/gen/Gen_CliModes - TLC enumerates the 2^12 x 2 command lines.
Bind : each is run through the real peltool.main() in-process with the eleven mode
       functions replaced by recorders (so only main()'s own logic is observed) on a file
       system arranged to give the answers `env`; Trace_Cli compares the function called,
       the exit status, the deletion of the -f input, the configuration object and the
       look-up argument with Cli!RuleOutcome / Cli!ConfigOf.

A rejection here is reported as DRIFT, not as a VIOLATION of a listed property: no listed
statement fixes which of several named modes wins.
"""
import os
import random

from .. import seams, tlc

ID = 'X01'
EXTRA = True
LEVEL = 'model_checking'
TRACE = 'trace/Trace_Cli'
RULE = ('case = one command line (a TLC-enumerated set of mode options, --clean, seeded selection options and '
        'look-up arguments) run through the real main() with recorder functions on a file system giving seeded '
        'answers to main()\'s tests; non-trivial = two or more mode options named, or a failing precondition; '
        'distinct = by (named, clean, env, options)')
ASSUMPTIONS = ['outside the BMC (the BMC log directory does not exist on this machine), so -p is an option and -A is not',
               'the mode functions themselves are not run here (they are the subject of C07-C12)']
HANDLERS = ['parseAndPrintPELFile', 'parseAndWriteOutput', 'parsePelFromID', 'parsePelFromBmcID', 'parsePelFromPLID',
            'parsePelFromSRCID', 'listOption', 'printPELCount', 'extractAllPELsData', 'deletePELFromPELId',
            'deleteAllPELs']
SEVS = ['Informational', 'Recovered', 'Predictive', 'Unrecoverable', 'Critical', 'Diagnostic', 'Symptom']
FLAGS = {'skip_plugins': '-P', 'serviceable': '-s', 'non_serviceable': '-N', 'termination': '-t', 'hidden': '-H',
         'only': '-O', 'every_pel': '-E', 'hex': '-x', 'reverse': '-r'}
CONFIG_FIELDS = ['allow_plugins', 'serviceable', 'non_serviceable', 'critSysTerm', 'hidden', 'only', 'every_pel',
                 'hex', 'rev', 'severities', 'extension']
LOOKUPS = ['pelID', 'bmcID', 'plid', 'src', 'srcExcludeFile']


def model_checks(tier):
    return [dict(module='mc/MC_Cli', must_cover=['FileBlock', 'PathBlock', 'ModeBlock'])]


def cases(tier, seed, info):
    combos, r = tlc.generate('gen/Gen_CliModes')
    combos = sorted(combos, key=lambda c: (sorted(c['modes']), c['clean']))
    rng = random.Random(seed + 101)
    per = 1 if tier == 'quick' else 6
    if tier == 'quick':
        small = [c for c in combos if len(c['modes']) <= 2]
        combos = small + rng.sample(combos, 700)
    items = []
    for c in combos:
        for _ in range(per):
            items.append(dict(named=sorted(c['modes']), clean=c['clean'], seed=rng.randrange(1 << 30)))
    info['command_lines_from_tlc'] = len(r and combos)
    info['runs'] = len(items)
    return [dict(items=items[j:j + 50]) for j in range(0, len(items), 50)]


def _one(it, pt, root):
    rng = random.Random(it['seed'])
    env = dict(hasPath=rng.random() < .85, pathIsDir=rng.random() < .85, outGiven=rng.random() < .6,
               outIsDir=rng.random() < .6, exIsFile=rng.random() < .6, printed=rng.random() < .7)
    import shutil
    pels = os.path.join(root, 'pels')
    shutil.rmtree(pels, ignore_errors=True)
    os.makedirs(pels)
    names = rng.sample(['f0', 'a.pel', 'b.pel', 'c.txt', 'd', 'e.pel.txt', '.pel'], rng.randrange(1, 6)) + ['f0']
    for n in names:
        seams.write_file(os.path.join(pels, n), b'x')
    os.makedirs(os.path.join(pels, 'sub.pel'), exist_ok=True)       # only the top level is walked
    seams.write_file(os.path.join(pels, 'sub.pel', 'inner.pel'), b'x')
    out_ok = os.path.join(root, 'out')
    os.makedirs(out_ok, exist_ok=True)
    ex_ok = os.path.join(root, 'exclude.txt')
    seams.write_file(ex_ok, b'BD8D1001\n')
    infile = os.path.join(pels, 'f0')
    given = dict(id='0x5000%04X' % rng.randrange(1 << 16), bmcid=str(rng.randrange(1, 5000)),
                 plid='5000%04X' % rng.randrange(1 << 16), src='BD%06X' % rng.randrange(1 << 24),
                 srcex=ex_ok if env['exIsFile'] else os.path.join(root, 'no-such-exclude'),
                 delete='0x5000%04X' % rng.randrange(1 << 16))
    opts = {k: rng.random() < .3 for k in FLAGS}
    opts['severities'] = rng.sample(SEVS, rng.randrange(0, 4)) if rng.random() < .5 else []
    opts['extension'] = rng.choice(['.pel', '.txt', '']) if rng.random() < .4 else ''
    argv = []
    if env['hasPath']:
        argv += ['-p', pels if env['pathIsDir'] else os.path.join(root, 'no-such-dir')]
    modeargs = {'file': ['-f', infile], 'json': ['-j'], 'id': ['-i', given['id']], 'bmcid': ['--bmc-id', given['bmcid']],
                'plid': ['--plid', given['plid']], 'src': ['--src', given['src']],
                'srcex': ['--src-exclude', given['srcex']], 'list': ['-l'], 'count': ['-n'], 'all': ['-a'],
                'delete': ['-d', given['delete']], 'deleteall': ['-D']}
    parts = [modeargs[m] for m in it['named']]
    for k, on in opts.items():
        if k in FLAGS and on:
            parts.append([FLAGS[k]])
    if opts['severities']:
        parts.append(['-S'] + opts['severities'])
    if opts['extension']:
        parts.append(['-e', opts['extension']])
    if env['outGiven']:
        parts.append(['-o', out_ok if env['outIsDir'] else os.path.join(root, 'no-such-out')])
    if it['clean']:
        parts.append(['-c'])
    rng.shuffle(parts)
    for p in parts:
        argv += p

    calls, configs = [], []

    def recorder(name):
        def rec(*a, **kw):
            calls.append(name)
            cfg = [x for x in list(a) + list(kw.values()) if type(x).__name__ == 'Config']
            if cfg:
                configs.append(cfg[0])
            return env['printed'] if name == 'parseAndPrintPELFile' else None
        return rec
    saved = {h: getattr(pt, h) for h in HANDLERS}
    removed = []
    orig_remove = os.remove
    os.remove = lambda p, *a, **k: removed.append(os.path.abspath(p))
    for h in HANDLERS:
        setattr(pt, h, recorder(h))
    try:
        res = seams.run_cli(argv)
    finally:
        os.remove = orig_remove
        for h, f in saved.items():
            setattr(pt, h, f)
    nmatch = len([n for n in set(names) if not opts['extension'] or n.endswith(opts['extension']) and
                  (n.rfind('.') > 0 and n[n.rfind('.'):] == opts['extension'])])
    shape = res['uncaught'] is None and res['exit'] in (0, 1) and all(p == os.path.abspath(infile) for p in removed)
    rec = dict(shape_ok=bool(shape), named=it['named'], clean=it['clean'], env=env, calls=calls,
               nmatch=nmatch, status=res['exit'] if res['exit'] in (0, 1) else 9, removed=bool(removed),
               opts=dict(opts, extension=[ord(c) for c in opts['extension']]),
               given={k: [ord(c) for c in v] for k, v in given.items()}, argv=argv[:40],
               config=dict(), lookup=dict(field='none', value=[]), uncaught=(res['uncaught'] or '')[-300:])
    if configs:
        c = configs[0]
        try:
            rec['config'] = dict(allow_plugins=c.allow_plugins is True, serviceable=c.serviceable is True,
                                 non_serviceable=c.non_serviceable is True, critSysTerm=c.critSysTerm is True,
                                 hidden=c.hidden is True, only=c.only is True, every_pel=c.every_pel is True,
                                 hex=c.hex is True, rev=c.rev is True, severities=[int(x) for x in c.severities],
                                 extension=[ord(ch) for ch in (c.extension or '')])
            set_fields = [f for f in LOOKUPS if getattr(c, f) is not None]
            if len(set_fields) == 1:
                rec['lookup'] = dict(field=set_fields[0], value=[ord(ch) for ch in str(getattr(c, set_fields[0]))])
            elif set_fields:
                rec['lookup'] = dict(field='+'.join(set_fields), value=[])
        except Exception as e:      # a configuration object of another shape
            rec['shape_ok'] = False
            rec['uncaught'] = repr(e)[:200]
    return rec


def run_case(case):
    import shutil
    import pel.peltool.peltool as pt
    root = os.path.join(seams.scratch_dir('x01'), 'fs')
    shutil.rmtree(root, ignore_errors=True)
    os.makedirs(root)
    try:
        return [_one(it, pt, root) for it in case['items']]
    finally:
        shutil.rmtree(root, ignore_errors=True)


def nontrivial(r):
    if len(r['named']) >= 2 or r['status'] == 1:
        return (tuple(r['named']), r['clean'], tuple(sorted(r['env'].items())), str(sorted(r['opts'].items())))
    return None


def fingerprint(r, clauses):
    return 'X01:%s' % '+'.join(clauses)


def sample(r):
    return dict(named=r['named'], clean=r['clean'], env=r['env'], calls=r['calls'], status=r['status'],
                removed=r['removed'])


def corrupt(r):
    if r['calls']:
        r['calls'] = ['deleteAllPELs' if r['calls'][0] != 'deleteAllPELs' else 'listOption']
    else:
        r['status'] = 1 - r['status'] if r['status'] in (0, 1) else 0
    return r
