"""C11 - only delete options remove files, and only the files they name.

MC   : spec/mc/MC_PelDir (the os.walk loops of --delete / --delete-all with their break
       statements against PelDir's effect rules, every tree over a 5-entry universe)
Gen  : spec/gen/Gen_PelDir (-simulate) emits command sequences over abstract trees
Bind : each sequence is replayed through the real CLI (peltool.main in-process) on a
       concrete tree with a recursive snapshot (path, type, sha256) around every command;
       Trace_C11 judges every step with PelDir's effect rules.  Seeded random sequences
       over larger random trees go through the same judge (code -> spec direction).
"""
import hashlib
import json
import os
import random
import shutil

from .. import encode, genpel, seams, tlc

ID = 'C11'
LEVEL = 'model_checking'
TRACE = 'trace/Trace_C11'
PROCESS_EVERY = 5         # every fifth case runs the command line as a real process (seams.PROC_VARIANTS)
PROOFS = ['DeleteLoopProof']
RULE = ('case = one behaviour: a concrete directory tree (PEL files, junk, nested directories, names with and '
        'without entry ids) and a sequence of 4-8 CLI invocations (TLC-simulated from Gen_PelDir or seeded random); '
        'one record per invocation with tree snapshots before/after; non-trivial = the invocation is a delete / '
        'json / clean mode or runs on a tree holding nested directories; distinct = by (command, tree before)')
ASSUMPTIONS = [
    'commands run in-process through peltool.main(); trees contain regular files and directories only '
    '(no symlinks, no unreadable files)',
    'where one invocation names both a read-only mode and a delete option either effect is accepted',
    '--clean effects are only permitted here (C12 decides when they may happen)',
]
JUDGE_SHARDS = 16

IDS = {1: 0x50000A01, 2: 0x50000A02, 3: 0x50000A03, 4: 0x5000FFFF,
       5: 0x00001234,     # leading zeros: only names holding all 8 digits qualify
       6: 0x00000000}


def model_checks(tier):
    return [dict(module='mc/MC_PelDir', cfg='mc/MC_PelDir_code', workers=8,
                 must_cover=['StartDeleteOne', 'StartDeleteAll', 'ReadOnly', 'Step']),
            # the instance of the module whose theorem tlapm proves for every tree and listing order
            dict(module='mc/MC_DeleteLoopProof', cfg='mc/MC_DeleteLoopProof', must_cover=['Start', 'Step', 'Again'])]


def cases(tier, seed, info):
    n = 60 if tier == 'quick' else 6000
    gen, r = tlc.generate('gen/Gen_PelDir', simulate=max(20, n // 8), seed=seed + 1, depth=6)
    uniq = {}
    for g in gen:
        uniq.setdefault(json.dumps(g, sort_keys=True), g)
    pool = [uniq[k] for k in sorted(uniq)]
    rng = random.Random(seed + 11)
    rng.shuffle(pool)
    out = [dict(origin='tlc', seed=seed * 100003 + k, **g) for k, g in enumerate(pool[:n])]
    info['tlc_behaviours_emitted'] = len(gen)
    info['tlc_behaviours_used'] = len(out)
    # code -> spec direction: random sequences on random trees
    m = 40 if tier == 'quick' else 6000
    kinds = ['list', 'all', 'count', 'plid', 'src', 'srcex', 'id', 'bmcid', 'listhex', 'allrev', 'listext',
             'delete', 'delete', 'deleteall', 'deleteall_ext', 'delete_ext', 'json', 'jsonout', 'jsonclean', 'jsoncleanext', 'jsoncleanext', 'jsonext',
             'file', 'fileclean', 'filehex', 'emptypath_deleteall', 'emptypath_delete', 'emptypath_json',
             'dotdot_deleteall', 'dotdot_delete',
             'list+deleteall', 'count+delete', 'deletebadid', 'all+deleteall', 'plid+delete']
    tops = ['p1', 'p1b', 'p2', 'p3', 'j1', 'o1']
    for k in range(m):
        cmds = []
        for _ in range(rng.randint(5, 8)):
            kd = rng.choice(kinds)
            c = dict(k=kd)
            if kd in ('id', 'delete', 'delete_ext', 'count+delete', 'plid+delete', 'plid', 'emptypath_delete', 'dotdot_delete'):
                c['id'] = rng.choice([1, 1, 2, 3, 4, 5, 5, 6])
            if kd in ('file', 'fileclean', 'filehex'):
                c['f'] = rng.choice(tops)
            cmds.append(c)
        out.append(dict(origin='random', seed=seed * 7 + k + 1000003,
                        tree0=dict(top=rng.sample(tops, rng.randint(2, 6)),
                                   sub=rng.choice(['none', 'archive_with_pel1', 'dir_named_id1', 'both'])),
                        cmds=cmds, extra=rng.randint(0, 6)))
    info['random_behaviours'] = m
    # structured family: the id occurs ONLY below the top level (in a subdirectory's name or in names of files
    # inside it), or only in names that hold fewer than all 8 digits
    import itertools
    k = 0
    for sub in ('archive_with_pel1', 'dir_named_id1', 'both'):
        for r_ in (0, 1, 2, 4):
            for topset in list(itertools.combinations(['p2', 'p3', 'j1', 'o1'], r_))[:4]:
                k += 1
                out.append(dict(origin='structured', seed=seed * 3 + k + 9000017, tree0=dict(top=list(topset), sub=sub),
                                cmds=[dict(k='delete', id=1), dict(k='id', id=1), dict(k='delete', id=1),
                                      dict(k='deleteall'), dict(k='delete', id=1)], extra=0))
    info['structured_trees'] = k
    # every combination of the twelve mode options (+ --clean), emitted by TLC
    combos, _ = tlc.generate('gen/Gen_CliModes')
    rng.shuffle(combos)
    nc = 240 if tier == 'quick' else len(combos)
    for j in range(0, nc, 6):
        out.append(dict(origin='modes', seed=seed * 13 + j + 5000011,
                        tree0=dict(top=rng.sample(tops, rng.randint(3, 6)),
                                   sub=rng.choice(['archive_with_pel1', 'dir_named_id1', 'both'])),
                        cmds=[dict(k='multi', named=sorted(c['modes']), clean=c['clean'], id=rng.choice([1, 1, 2, 4, 5]),
                                   f=rng.choice(tops)) for c in combos[j:j + 6]], extra=rng.randint(0, 3)))
    info['mode_combinations_from_tlc'] = len(combos)
    info['mode_combinations_used'] = nc
    return out


# ---------------------------------------------------------------------------

def _pel(eid, hidden=False, rng=None):
    rng = rng or random.Random(eid)
    pel = genpel.gen_pel(rng, kinds=['PS', 'UD'], creator='O', sev=0x40, flags=0x6000 if hidden else 0x2000,
                         eid=encode.u32(eid))
    pel['ph']['plid'] = encode.u32(eid)
    pel['ph']['bmc'] = encode.u32(eid & 0xFFFF)
    for s in pel['secs']:
        if s['kind'] == 'SRC':
            s['callouts'] = None
            s['flags'] &= 0xFE
            s['ascii'] = encode.text('BD8D%04X' % (eid & 0xFFFF), 32, 0x20)
    return bytes(encode.encode(pel))


def build_tree(root, tree0, rng, extra=0):
    """returns eid map: relative path (under pels/) -> 4 eid bytes"""
    pels = os.path.join(root, 'pels')
    os.makedirs(pels)
    os.makedirs(os.path.join(root, 'out'))
    eids = {}

    def put(rel, data, eid=None):
        p = os.path.join(pels, rel)
        os.makedirs(os.path.dirname(p), exist_ok=True)
        seams.write_file(p, data)
        if eid is not None:
            eids[rel] = encode.u32(eid)

    names = {'p1': '2023030818402711_50000A01', 'p1b': 'copy_50000A01_of.pel', 'p2': '20240101_50000A02',
             'p3': 'noidname.pel', 'j1': 'junk_50000A03.bin', 'o1': 'README.txt'}
    for f in tree0['top']:
        if f == 'p1':
            put(names[f], _pel(IDS[1]), IDS[1])
        elif f == 'p1b':
            put(names[f], _pel(IDS[2]), IDS[2])
        elif f == 'p2':
            put(names[f], _pel(0x50000A22, hidden=True), 0x50000A22)
        elif f == 'p3':
            put(names[f], _pel(IDS[3]), IDS[3])
        elif f == 'j1':
            put(names[f], bytes(rng.randrange(256) for _ in range(rng.randrange(0, 200))))
        elif f == 'o1':
            put(names[f], b'not a PEL\n')
    sub = tree0['sub']
    if sub in ('archive_with_pel1', 'both'):
        put('archive/2023_50000A01', _pel(IDS[1]), IDS[1])
        put('archive/deeper/50000A02_x', _pel(IDS[2]), IDS[2])
    if sub in ('dir_named_id1', 'both'):
        put('dir_50000A01/inner_50000A01', _pel(IDS[1]), IDS[1])
        os.makedirs(os.path.join(pels, 'dir_50000A01', 'empty_50000A03'), exist_ok=True)
    for k in range(extra):
        eid = 0x50000B00 + k
        nm = rng.choice(['%08X', 'x%08X.pel', '%08X_%08X' % (IDS[1], eid) if False else 'log_%08X', '.%08X'])
        nm = nm % eid if '%' in nm else nm
        if rng.random() < .4:
            # names of every legal length, up to the longest one a directory entry can have (255): a result file's
            # name is longer than its PEL file's, so near the top the result cannot be created at all
            want = rng.choice([rng.randrange(20, 236), rng.randrange(236, 256), 255, 242, 241])
            nm = (nm + '_' + 'n' * 255)[:want]
        put(nm, _pel(eid, hidden=rng.random() < .3), eid)
    if rng.random() < .5:
        # ids with leading zeros, next to names that contain only the significant digits
        put('2023010112000000_50001234', _pel(0x50001234), 0x50001234)
        if rng.random() < .6:
            put('2023010112000001_00001234', _pel(0x00001234), 0x00001234)
    if rng.random() < .4:
        # directory entries that are neither regular files nor directories: a dangling symbolic link and a link
        # to a directory (their names carry no id); no mode may remove or follow them
        os.symlink('/nonexistent/verif-c11-target', os.path.join(pels, rng.choice(['a_dangling', 'zz_dangling.pel'])))
        if rng.random() < .5:
            os.symlink(os.path.join(root, 'out'), os.path.join(pels, 'link_to_out'))
    if rng.random() < .5:
        # the output directory is not empty: entries whose names sit right next to the names of result files
        # (a directory squatting on a result's name, a scratch file, a backup, an earlier result) - no mode may
        # touch them, --json may only (re)write <pel file>.<entry id>.json
        out = os.path.join(root, 'out')
        res1 = names['p1'] + '.%08X.json' % IDS[1]
        res2 = names['p1b'] + '.%08X.json' % IDS[2]
        for what in rng.sample(['dir', 'tmp', 'bak', 'old', 'other'], rng.randrange(1, 4)):
            if what == 'dir':
                os.makedirs(os.path.join(out, res1), exist_ok=True)
            elif what == 'tmp':
                seams.write_file(os.path.join(out, res2 + '.tmp'), b'scratch of something else\n')
            elif what == 'bak':
                seams.write_file(os.path.join(out, res2 + '~'), b'{"backup": true}\n')
            elif what == 'old':
                seams.write_file(os.path.join(out, names['p3'] + '.%08X.json' % IDS[3]), b'{"from": "an earlier run"}\n')
            else:
                seams.write_file(os.path.join(out, 'notes.txt'), b'keep me\n')
    with open(os.path.join(root, 'exclude.txt'), 'w') as f:
        f.write('BD8D0A02\n')
    return names, eids


def snapshot(root, eids):
    out = []
    for area, base in (('in', 'pels'), ('out', 'out')):
        top = os.path.join(root, base)
        for dirpath, dirnames, filenames in os.walk(top):
            dirnames.sort()
            rel = os.path.relpath(dirpath, top)
            depth = 0 if rel == '.' else rel.count(os.sep) + 1
            for d in dirnames:
                p = d if rel == '.' else os.path.join(rel, d)
                out.append(_entry(area, p, depth, d, 'd', '', eids))
            for fn in sorted(filenames):
                p = fn if rel == '.' else os.path.join(rel, fn)
                full = os.path.join(dirpath, fn)
                if os.path.islink(full):
                    typ, sha = 'l', os.readlink(full)
                else:
                    typ = 'f'
                    with open(full, 'rb') as f:
                        sha = hashlib.sha256(f.read()).hexdigest()[:24]
                out.append(_entry(area, p, depth, fn, typ, sha, eids))
    for fn in sorted(os.listdir(root)):
        full = os.path.join(root, fn)
        if os.path.isfile(full):
            with open(full, 'rb') as f:
                sha = hashlib.sha256(f.read()).hexdigest()[:24]
            out.append(_entry('aux', fn, 0, fn, 'f', sha, {}))
    return out


def _entry(area, path, depth, name, typ, sha, eids):
    stem, idbytes = [], []
    if name.endswith('.json'):
        core = name[:-5]
        k = core.rfind('.')
        if k >= 0:
            hx = core[k + 1:]
            try:
                if hx and all(c in '0123456789abcdefABCDEF' for c in hx) and int(hx, 16) <= 0xFFFFFFFF:
                    idbytes = encode.u32(int(hx, 16))
                    stem = [ord(c) for c in core[:k]]
            except ValueError:
                pass
    return dict(area=area, path=path, depth=depth, name=[ord(c) for c in name], type=typ, sha=sha,
                eid=eids.get(path, []) if area == 'in' else [], stem=stem, idbytes=idbytes)


def argv_for(c, root, names, rng):
    pels = os.path.join(root, 'pels')
    k = c['k']
    idv = IDS.get(c.get('id', 1))
    idstr = rng.choice(['%08X', '0x%08X', '%08x', '0X%08X']) % idv
    base = ['-p', pels]
    f = os.path.join(pels, names.get(c.get('f', 'p1'), 'p1'))
    table = {} if k == 'multi' else {
        'list': base + ['-l'], 'all': base + ['-a'], 'count': base + ['-n'],
        'plid': base + ['--plid', idstr], 'src': base + ['--src', 'BD8D'],
        'srcex': base + ['--src-exclude', os.path.join(root, 'exclude.txt')],
        'id': base + ['-i', idstr], 'bmcid': base + ['--bmc-id', str(IDS[1] & 0xFFFF)],
        'listhex': base + ['-l', '-x', '-E'], 'allrev': base + ['-a', '-r', '-E'],
        'listext': base + ['-l', '-e', '.pel', '-H'],
        'delete': base + ['-d', idstr], 'deleteall': base + ['-D'],
        # options that mean something to OTHER modes ride along (-e, -r, -x, -H): the delete options do what they do
        'deleteall_ext': base + rng.choice([['-D', '-e', '.pel'], ['-e', '.json', '--delete-all'], ['-D', '-r', '-x'], ['-H', '-D', '-e', '.bin']]),
        'delete_ext': base + rng.choice([['-d', idstr, '-e', '.bin'], ['-e', '.pel', '-r', '-d', idstr], ['-x', '-d', idstr]]),
        'json': base + ['-j'], 'jsonout': base + ['-j', '-o', os.path.join(root, 'out'), '-E'],
        'jsonclean': base + ['-j', '-o', os.path.join(root, 'out'), '-c'],
        # restricted to one extension: the other files of the directory are none of this run's business
        'jsoncleanext': base + ['-j', '-o', os.path.join(root, 'out'), '-c', '-e', rng.choice(['.pel', '.pel', '.bin', '.txt', ''])],
        'jsonext': base + ['-j', '-e', rng.choice(['.pel', '.bin'])],
        # no directory named at all (an empty string - an unset variable in a script): nothing is done anywhere, not
        # in the current directory either (the run stands in the tree's root, next to files that would qualify)
        'emptypath_deleteall': ['-p', '', '-D'], 'emptypath_delete': ['-p', '', '-d', idstr],
        'emptypath_json': ['-p', '', '-j', '-c'],
        # a path through a symbolic link and back up: <root>/lnk/.. is where the link POINTS to, one level up - not <root>
        'dotdot_deleteall': ['-p', os.path.join(root, 'lnk', '..', 'pels'), '-D'],
        'dotdot_delete': ['-p', os.path.join(root, 'lnk', '..', 'pels'), '-d', idstr],
        'file': ['-f', f], 'fileclean': ['-f', f, '-c'], 'filehex': ['-f', f, '-x'],
        'list+deleteall': base + ['-l', '-D'], 'all+deleteall': base + ['-D', '-a', '-E'],
        'count+delete': base + ['-n', '-d', idstr], 'plid+delete': base + ['--plid', idstr, '-d', idstr],
        'deletebadid': base + ['-d', '%07X' % (idv & 0xFFFFFFF)],
    }
    if k == 'multi':
        flags = {'file': ['-f', f], 'json': ['-j', '-o', os.path.join(root, 'out')], 'id': ['-i', idstr],
                 'bmcid': ['--bmc-id', str(IDS[1] & 0xFFFF)], 'plid': ['--plid', idstr], 'src': ['--src', 'BD8D'],
                 'srcex': ['--src-exclude', os.path.join(root, 'exclude.txt')], 'list': ['-l'], 'count': ['-n'],
                 'all': ['-a'], 'delete': ['-d', idstr], 'deleteall': ['-D']}
        named = list(c['named'])
        rng.shuffle(named)
        argv = list(base)
        for m in named:
            argv += flags[m]
        if c['clean']:
            argv.append('-c')
        return argv, '%08X' % idv, f
    return table[k], '%08X' % idv, f


def run_case(case):
    rng = random.Random(case['seed'])
    # the PATH of the directory is not the name of a file in it: an id in the path (a case directory named after a
    # log, say) selects nothing
    top = os.path.join(seams.scratch_dir('c11'), 't')
    shutil.rmtree(top, ignore_errors=True)
    root = os.path.join(top, rng.choice(['tree', 'tree', 'case_%08X' % IDS[rng.choice([1, 2, 4, 5])],
                                         '%08X' % IDS[rng.choice([1, 3])], 'logs [site 7]', 'pels[0]', 'a*b q?']))
    os.makedirs(root)
    names, eids = build_tree(root, case['tree0'], rng, case.get('extra', 0))
    # the run stands in the tree's root: files there (a log named after an id among them) are watched as well
    seams.write_file(os.path.join(root, '2023_%08X_in_cwd' % IDS[1]), _pel(IDS[1]))
    seams.write_file(os.path.join(root, 'cwd_notes.txt'), b'keep me too\n')
    os.makedirs(os.path.join(root, 'elsewhere', 'sub'), exist_ok=True)
    os.symlink(os.path.join(root, 'elsewhere', 'sub'), os.path.join(root, 'lnk'))
    os.chdir(root)
    recs = []
    before = snapshot(root, eids)
    for step, c in enumerate(case['cmds']):
        argv, idu, fpath = argv_for(c, root, names, rng)
        res = seams.run_cli(argv)
        after = snapshot(root, eids)
        shape = all(e['type'] in ('f', 'd', 'l') for e in before + after)
        recs.append(dict(shape_ok=shape, origin=case['origin'], step=step, cmd=c, named=c.get('named', []),
                         clean=bool(c.get('clean', False)),
                         argv=[a.replace(root, '<root>') for a in argv],
                         idcp=[ord(ch) for ch in idu],
                         fpath=os.path.relpath(fpath, os.path.join(root, 'pels')),
                         before=before, after=after, exit=res['exit'],
                         not_found=(res['out'] or '').strip() == 'PEL not found',
                         uncaught=bool(res['uncaught'])))
        before = after
    os.chdir(top)
    shutil.rmtree(root, ignore_errors=True)
    return recs


def group_key(r):
    return None


group_key = None


def nontrivial(r):
    k = r['cmd']['k']
    nested = any(e['depth'] > 0 for e in r['before'])
    if k in ('delete', 'deleteall', 'json', 'jsonout', 'jsonclean', 'fileclean', 'list+deleteall',
             'count+delete', 'all+deleteall', 'plid+delete') or nested:
        return (json.dumps(r['cmd'], sort_keys=True), tuple(sorted((e['area'], e['path']) for e in r['before'])))
    return None


def fingerprint(r, clauses):
    return 'C11:%s:%s' % ('+'.join(clauses), r['cmd']['k'])


def sample(r):
    return dict(argv=r['argv'], exit=r['exit'], before=[e['area'] + ':' + e['path'] for e in r['before']],
                after=[e['area'] + ':' + e['path'] for e in r['after']])


def corrupt(r):
    r['after'] = r['after'] + [dict(area='aux', path='planted', depth=0, name=[120], type='f', sha='0', eid=[], stem=[],
                                    idbytes=[])]
    return r
