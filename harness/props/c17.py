"""C17 - an I/O drawer dump is split into ILOG and trace regions that partition it.

MC   : spec/mc/MC_DrawerDump (regions partition the input, address order, every trace region starts
       at a recognised header, over all token strings of <= 4 tokens)
Bind : real parse_dump_data on inputs with every subset / order of the six buffer headers, adjacent
       headers, a header at offset 0, buffer names inside ILOG bytes without the 4 start bytes,
       start bytes without a name, repeated headers, empty input; the same bytes written as a
       hex-dump text file in both supported formats (short last lines) through parse_dump_file.
       Trace_Drawer: the sections found in the real output must be, in order, the regions
       DrawerDump!Regions computes (RegionCount / RegionKinds / RegionBounds), each decoded exactly
       as the stand-alone real decoder decodes those bytes (RegionsDecodedAlone), FileEqualsRaw,
       EmptyGivesNothing.
"""
import os
import random

from .. import drawer, seams

ID = 'C17'
LEVEL = 'model_checking'
TRACE = 'trace/Trace_Drawer'
RULE = ('case = one dump byte string (ILOG bytes and 0..6 trace buffers in any placement, with decoys) decoded by the '
        'real parse_dump_data and, as text in both hex formats, by parse_dump_file; non-trivial = the input holds at '
        'least one recognised header that is not at the very end; distinct = by bytes')
ASSUMPTIONS = [
    'the stand-alone real ILOG / trace decoders are the oracle for the content of each region (their own output is '
    'C14 / C15); the region bounds the harness used are themselves checked against DrawerDump!Regions',
    'where a header name occurs more than once the first occurrence is the recognised one',
]
NAMES = ['IICS', 'IICM', 'POWR', 'FANS', 'INFO', 'ERRL']
START = [2, 0x20, 1, 0x42]
DIVIDER = '-------------------------------------------------------------------------'


def model_checks(tier):
    return [dict(module='mc/MC_DrawerDump', must_cover=['Evaluate'], workers=8)]


def cases(tier, seed, info):
    n = 400 if tier == 'quick' else 12000
    out = [dict(seed=seed * 1553 + j, start=j, n=20) for j in range(0, n, 20)]
    info['dumps'] = n
    return out


def u32(n):
    return [(n >> 24) & 255, (n >> 16) & 255, (n >> 8) & 255, n & 255]


HASHES = []          # hash values of the string file in use (set per dump by run_case)


def buffer(rng, name):
    body = []
    for _ in range(rng.randrange(0, 3)):
        ln = rng.choice([0, 4, 8])
        h = int(rng.choice(HASHES)) if HASHES and rng.random() < .7 else rng.randrange(1 << 32)
        body += [0, 10, 0, rng.randrange(256), 0, ln, 0x46, 0x54] + u32(h & 0xFFFFFFFF) + u32(rng.randrange(9999)) \
            + [rng.randrange(256) for _ in range(ln)] + u32(16 + ln + 4)
    comp = [ord(c) for c in name] + [0x20] * 8
    return START + comp + [0, 0, 0, 0] + u32(32 + len(body)) + u32(rng.randrange(9)) + u32(0) + body


def build(rng, k):
    if k % 29 == 0:
        return []
    if k % 97 == 5:
        # a dump beyond 64 KiB: the four-digit address column of the BMC format wraps around
        big = [rng.randrange(256) for _ in range(8 * rng.randrange(2, 6))]
        big = [b if big[max(0, j - 3):j + 1] != START else 0x43 for j, b in enumerate(big)]
        for nm in rng.sample(NAMES, 4):
            big += buffer(rng, nm) + [0] * (16 * rng.randrange(1300, 1500))
        big += buffer(rng, rng.choice(NAMES)) + [rng.randrange(256) for _ in range(rng.randrange(0, 9))]
        return big
    parts = []
    ilog = []
    for _ in range(rng.randrange(0, 5)):
        ilog += [rng.randrange(256) for _ in range(8)]
    if k % 3 == 0:
        ilog += [ord(c) for c in rng.choice(NAMES)] + [0, 0, 0, 0]          # a name without the start bytes
    if k % 5 == 0:
        ilog += START + [0x41, 0x42, 0x43, 0x44]                             # start bytes without a name
    if k % 7 == 0:
        ilog = []                                                           # header at offset 0
    parts.append(ilog)
    names = rng.sample(NAMES, rng.randrange(0, 7))
    if k % 11 == 0 and names:
        names.append(names[0])                                              # the same header twice
    for nm in names:
        b = buffer(rng, nm)
        if rng.random() < .2:
            b = b[:rng.choice([8, 12, 31, 32])]                             # adjacent / truncated headers
        parts.append(b)
        if rng.random() < .2:
            parts.append([rng.randrange(256) for _ in range(rng.randrange(1, 9))])
    return [x for p in parts for x in p]


def render(data, fmt, lower):
    out = []
    hx = (lambda b: '%02x' % b) if lower else (lambda b: '%02X' % b)
    for off in range(0, len(data), 16):
        ch = data[off:off + 16]
        txt = ''.join(chr(b) if 0x20 <= b < 0x7f else '.' for b in ch).ljust(16)
        if fmt == 'bmc':
            raw = ' '.join(''.join(hx(b) for b in ch[j:j + 4]) for j in range(0, len(ch), 4)).ljust(35)
            out.append('%04X:  %s  <%s>' % (off % 65536, raw, txt))
        else:
            out.append(''.join(hx(b) + ' ' for b in ch).ljust(48) + txt)
    return out


def sections(lines):
    """output of parse_dump_data -> [(kind, content lines)]"""
    out, cur = [], []
    for ln in lines:
        if ln == DIVIDER:
            out.append(cur)
            cur = []
        else:
            cur.append(ln)
    if any(x != '' for x in cur):
        raise ValueError('text after the last divider')
    res = []
    for blk in out:
        while blk and blk[0] == '' and len(res) > 0:
            blk = blk[1:]
        if len(blk) < 3 or blk[1] != '' or blk[-1] != '':
            raise ValueError('section not of the form heading / blank / lines / blank')
        res.append((blk[0], blk[2:-1]))
    return res


def run_case(case):
    from io_drawer.dump import parse_dump_data, parse_dump_file
    from io_drawer.ilog import parse_ilog_data
    from io_drawer.trace import parse_trace_data
    rng = random.Random(case['seed'])
    d = seams.scratch_dir('c17')
    recs = []
    from . import c14, c15
    for k in range(case['start'], case['start'] + case['n']):
        # which tables the dump is decoded with: the shipped ones of either drawer type, or synthetic ones written
        # to scratch paths that come back with other content from dump to dump
        which = k % 4
        if which < 2:
            t = ['mex', 'nimitz'][which]
            hdr = os.path.join(drawer.io_dir(), t + '_pte.h')
            strf = os.path.join(drawer.io_dir(), t + 'StringFile')
            strings = drawer.read_string_file(strf)
        else:
            hdr = os.path.join(d, 'synthetic_pte_%d.h' % (k % 2))
            strf = os.path.join(d, 'synthetic_strings_%d' % (k % 2))
            strings = c15.synthetic_strings(rng)
            with open(hdr, 'w') as f:
                f.write(drawer.render_pte_header(rng, c14.synthetic(rng)))
            with open(strf, 'w') as f:
                f.write(drawer.render_string_file(rng, strings))
        HASHES[:] = [s['hash'] for s in strings][:400]
        data = build(rng, k)
        raw = bytes(data)
        lines = parse_dump_data(drawer.view(raw, k // 4), hdr, strf)
        rec = dict(family='C17', shape_ok=True, data=data, sections=[], alone=[], bounds=[], file_same=True,
                   empty_out=(lines == []))
        try:
            if data:
                secs = sections(lines)
                rec['sections'] = [dict(kind=kd, lines=[drawer.cp(x) for x in ls]) for kd, ls in secs]
                # regions as the harness reads the statement (checked against DrawerDump!Regions by the judge)
                offs = sorted({raw.find(bytes(START) + nm.encode()) for nm in NAMES} - {-1})
                bounds = [[0, offs[0] if offs else len(raw)]] + \
                    [[o, offs[j + 1] if j + 1 < len(offs) else len(raw)] for j, o in enumerate(offs)]
                rec['bounds'] = bounds
                alone = [parse_ilog_data(memoryview(raw[bounds[0][0]:bounds[0][1]]), hdr)]
                for a, b in bounds[1:]:
                    alone.append(parse_trace_data(memoryview(raw[a:b]), strf))
                rec['alone'] = [[drawer.cp(x) for x in ls] for ls in alone]
            # the same bytes as a dump file in both text formats
            for fmt in ('bmc', 'pre'):
                path = os.path.join(d, 'dump_%s.txt' % fmt)
                text_lines = render(data, fmt, rng.random() < .5)
                if rng.random() < .5:
                    # title / comment / blank lines around and between the data lines: exactly the lines that
                    # MC_HexDump!FileOK shows to contribute no byte under either format (IsComment)
                    deco = ['', '# x', 'Drawer', 'dump', 'Encl', '---', '0x']
                    k = rng.randrange(0, len(text_lines) + 1)
                    text_lines = [rng.choice(deco) for _ in range(rng.randrange(0, 3))] + text_lines[:k] + \
                        [rng.choice(deco) for _ in range(rng.randrange(0, 2))] + text_lines[k:] + \
                        [rng.choice(deco) for _ in range(rng.randrange(0, 2))]
                with open(path, 'w') as f:
                    f.write('\n'.join(text_lines) + ('\n' if text_lines else ''))
                if parse_dump_file(path, hdr, strf) != lines:
                    rec['file_same'] = False
                if which < 2 and k % 3 == 0 and fmt == ['bmc', 'pre'][(k // 3) % 2]:
                    # the same file through the real dump.py started as a real process in one of the ordinary
                    # environments (python -O, a POSIX locale, relative paths ...)
                    variant = seams.PROC_ROTATION[(k // 12) % len(seams.PROC_ROTATION)]
                    argv = [path, '-t', t]
                    if (k // 3) % 2:
                        # the drawer type's own header file given explicitly - under a name that belongs to the OTHER
                        # drawer type (a build directory, a renamed copy): -t says which drawer it is
                        import shutil as _sh
                        bd = os.path.join(d, 'build')
                        os.makedirs(bd, exist_ok=True)
                        alias = os.path.join(bd, ['nimitz', 'mex'][which] + '_pte.h')
                        _sh.copyfile(hdr, alias)
                        argv = rng.choice([[path, '-t', t, '-d', alias], ['-d', alias, '--drawer-type', t, path]])
                    res = seams.run_cli_proc(argv, variant, tool='dump')
                    if res['out'] != ''.join(x + '\n' for x in lines) or res['exit'] != 0:
                        rec['file_same'] = False
                        rec['process'] = '%s: exit %s, %s' % (variant, res['exit'], (res['err'] or '')[-200:])
                os.remove(path)
        except ValueError as e:
            rec['shape_ok'] = False
            rec['shape_error'] = repr(e)[:200]
        recs.append(rec)
    return recs


def nontrivial(r):
    if len(r['bounds']) >= 2 and r['bounds'][1][0] < len(r['data']) - 8:
        return bytes(r['data'])
    return None


def fingerprint(r, clauses):
    return 'C17:' + '+'.join(clauses)


def sample(r):
    return dict(data_bytes=len(r['data']), regions=r['bounds'], sections=[s['kind'] for s in r['sections']],
                file_same=r['file_same'])


def corrupt(r):
    if not r['data']:
        r['empty_out'] = False
        return r
    r['bounds'][0][1] += 1
    return r
