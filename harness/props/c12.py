"""C12 - --clean never deletes a PEL whose decoded output was not completely written.

MC   : spec/mc/MC_CleanWrite (every fault choice and crash point; Safe, OnlyRemoveRemoves)
Gen  : spec/gen/Gen_CleanWrite emits every fault schedule (mode x failing step)
Bind : each schedule is replayed against the real parseAndWriteOutput / main() with
       faults injected at the Python I/O seam (builtins.open, the output file object,
       sys.stdout, os.remove recorded); the recorded event sequence and the final
       on-disk state are judged by Trace_C12 with CleanWrite's effect operators.
"""
import builtins
import errno
import hashlib
import json
import io
import os
import random
import shutil
import sys

from .. import encode, genpel, seams, tlc

ID = 'C12'
LEVEL = 'model_checking'
TRACE = 'trace/Trace_C12'
RULE = ('case = one fault schedule of CleanWrite (mode x failing step x position of the failing write) x one PEL x '
        'entry point (parseAndWriteOutput / main), with and without --clean; non-trivial = a fault was injected or '
        'the input was removed; distinct = by (mode, entry, fault, position, clean, hex, PEL).  Plus: one behaviour '
        'of CleanWriteN (3 files, every step free to fail, the process free to die) enumerated by TLC and replayed '
        'through the real -j -c (thorough: all 7483; quick: 30 per stratum); crash points and RLIMIT_FSIZE runs '
        'in subprocesses')
ASSUMPTIONS = [
    'output faults are injected at the Python I/O seam (open / write / flush / close of the output object, '
    'sys.stdout), raising OSError(ENOSPC/EIO) or BrokenPipeError, a raw (unbuffered) file object gets a partial write '
    'first; genuine write failures are provoked with RLIMIT_FSIZE in a subprocess (no full file system offline)',
    'for --file the document counts as emitted only once stdout has been flushed successfully',
    'a partial output file may remain after a failure (allowed by the statement)',
]
MAX_PROCS = 8
EXHAUSTIVE = {'quick': False, 'thorough': True}       # quick samples the CleanWriteN behaviours


# CleanWriteN.tla: the -j -c loop over any set of files, any number of write calls, any failure schedule;
# THEOREM Safety (input removed => output complete) is proved with tlapm, the TLC instance checks 3 files x 2 chunks
PROOFS = ['CleanWriteN']


def model_checks(tier):
    return [dict(module='mc/MC_CleanWrite', cfg='mc/MC_CleanWrite_repaired', workers=2,
                 must_cover=['Decode', 'OpenOut', 'Write', 'Flush', 'Close', 'CloseAfterFailure', 'Remove',
                             'Crash']),
            dict(module='mc/MC_CleanWriteN', workers=4,
                 must_cover=['Pick', 'Decode', 'Open', 'Write', 'Close', 'CloseFail', 'Remove', 'Crash'])]


def cases(tier, seed, info):
    scheds, r = tlc.generate('gen/Gen_CleanWrite')
    info['schedules_from_tlc'] = len(scheds)
    rng = random.Random(seed + 12)
    npel = 3 if tier == 'quick' else 60
    out = []
    for p in range(npel):
        pel = genpel.gen_pel(rng, kinds=['PS', 'UD', 'EH'][: 1 + p % 3], creator='O', sev=0x40, flags=0x2000,
                             eid=encode.u32(0x50000100 + p))
        pel['secs'] = [s for s in pel['secs'] if s['kind'] != 'SRC' or s.get('callouts') is None or True]
        data = encode.encode(pel)
        hidden = dict(pel, uh=dict(pel['uh'], flags=encode.u16(0x6000)))
        for s in scheds:
            positions = ['first', 'mid', 'last'] if s['fault'] == 'write' else ['-']
            entries = ['func', 'main'] if s['mode'] == 'json' else ['main']
            for pos in positions:
                for entry in entries:
                    for clean in (True, False):
                        for hexm in ([False, True] if s['mode'] == 'file' else [False]):
                            out.append(dict(mode=s['mode'], fault=s['fault'], err=s['err'], pos=pos, entry=entry,
                                            clean=clean, hex=hexm, pel=p, data=data,
                                            hidden=encode.encode(hidden)))
        # file names of every legal length up to the longest (255), results written next to the inputs (no -o) or
        # into a directory of their own: near the top the result's name no longer fits
        for namelen in (60, 200, 241, 242, 250, 254, 255):
            for place in ('sep', 'same'):
                for entry in ('func', 'main'):
                    for clean in (True, False):
                        out.append(dict(mode='json', fault='none', err='', pos='-', entry=entry, clean=clean, hex=False,
                                        pel=p, data=data, hidden=encode.encode(hidden), namelen=namelen, place=place))
        # -f with a RELATIVE name (the run stands in the log's directory) next to -p naming another directory that holds
        # a file of the same name: the file shown is the file removed
        for clean in (True, False):
            for hexm in (False, True):
                out.append(dict(mode='file', fault='none', err='', pos='-', entry='main', clean=clean, hex=hexm, pel=p,
                                data=data, hidden=encode.encode(hidden), relname=True))
        # what an earlier, interrupted run left under the result's name: nothing of use, but newer than the log
        for leftover in ('empty', 'half', 'notjson', 'other'):
            for entry in ('func', 'main'):
                for clean in (True, False):
                    for fault in ('none', 'open', 'close'):
                        out.append(dict(mode='json', fault=fault, err='EIO', pos='-', entry=entry, clean=clean, hex=False,
                                        pel=p, data=data, hidden=encode.encode(hidden), leftover=leftover))
        for m in ('json', 'file'):
            for pt_ in CRASH_POINTS[m]:
                out.append(dict(kind='crash', mode=m, point=pt_, pel=p, data=data))
        for lim in ('zero', 'one', 'hundred', 'half', 'minus1', 'exact', 'none'):
            for opt in (False, True):           # the interpreter as usual, and started with -O (no assert statements)
                out.append(dict(kind='rlimit', limit=lim, pel=p, data=data, opt=opt))
        # the real process writing to a standard output that really fails: a full device, a pipe nobody reads
        for sink in ('devfull', 'closedpipe'):
            for hexm in (False, True):
                for unbuffered in (False, True):
                    out.append(dict(kind='sink', sink=sink, hex=hexm, unbuffered=unbuffered, pel=p, data=data,
                                    opt=(p + hexm + unbuffered) % 2 == 1))
    # behaviours of CleanWriteN (several files, every step free to fail, the process free to die) replayed
    # through the real -j -c
    # (TLC enumerates ALL of them for 3 files x 2 write calls: 2058 complete behaviours and every crashed prefix)
    allb, _ = tlc.generate('gen/Gen_CleanWriteN', 'gen/Gen_CleanWriteN_crash')
    allb = sorted(allb, key=lambda b: json.dumps(b, sort_keys=True))
    removed = lambda b: sum(1 for v in b['input'].values() if v == 'removed')
    if tier == 'quick':
        strata = {}
        for b in allb:
            strata.setdefault((b['crashed'], removed(b)), []).append(b)
        take = []
        for key in sorted(strata):
            rng.shuffle(strata[key])
            take += strata[key][:30]
    else:
        take = allb
    for k, b in enumerate(take):
        out.append(dict(kind='multi', beh=b, seed=seed * 7919 + k))
    info['cleanwriten_behaviours_from_tlc'] = len(allb)
    info['cleanwriten_behaviours_replayed'] = len(take)
    info['cleanwriten_behaviours_with_a_removal'] = len([b for b in take if removed(b)])
    info['cleanwriten_enumeration_exhaustive'] = tier != 'quick'
    info['crash_points'] = sum(len(v) for v in CRASH_POINTS.values())
    info['rlimit_fsize_runs_per_pel'] = 7
    return out


class _Log(list):
    pass


def _raise(kind, what):
    if kind == 'EPIPE':
        raise BrokenPipeError(errno.EPIPE, 'Broken pipe (injected at %s)' % what)
    if kind == 'ENOSPC':
        raise OSError(errno.ENOSPC, 'No space left on device (injected at %s)' % what)
    raise OSError(errno.EIO, 'Input/output error (injected at %s)' % what)


class FaultyFile:
    """Stands in for the object returned by open(output_path, 'w')."""

    def __init__(self, real, path, plan, log):
        self.real, self.path, self.plan, self.log = real, path, plan, log
        self.nwrites = 0
        self.closed = False

    def _fail(self, what):
        self.log.append(what + '_fail')
        _raise(self.plan.get('err', 'ENOSPC'), what)

    def write(self, s):
        k = self.nwrites
        self.nwrites += 1
        if self.plan.get('write') is not None and k >= self.plan['write']:
            self._fail('write')
        if k == 0:
            self.log.append('write_ok')
        return self.real.write(s)

    def writelines(self, lines):
        for line in lines:
            self.write(line)

    def flush(self):
        if self.plan.get('flush'):
            self._fail('flush')
        self.log.append('flush_ok')
        self.real.flush()

    def close(self):
        if self.closed:
            return
        self.closed = True
        if self.plan.get('close'):
            # the final flush fails: what was buffered is lost
            try:
                self.real.close()
            finally:
                with builtins.open(self.path, 'r+') as f:
                    f.truncate(max(0, os.path.getsize(self.path) // 2))
            self._fail('close')
        self.real.close()
        self.log.append('close_ok')

    def __enter__(self):
        return self

    def __exit__(self, *a):
        self.close()
        return False


class RawFaultyFile(FaultyFile):
    """Stands for a raw, unbuffered file (open(..., buffering=0)): a write that cannot be completed
    succeeds PARTIALLY and returns the short count (what the kernel does when the device fills up);
    only the next write fails."""

    def __init__(self, real, path, plan, log):
        super().__init__(real, path, plan, log)
        self.short_done = False

    def write(self, b):
        k = self.nwrites
        self.nwrites += 1
        if self.plan.get('write') is not None and k >= self.plan['write']:
            if not self.short_done:
                self.short_done = True
                n = len(b) // 2
                self.real.write(b[:n])
                self.log.append('write_short')
                return n
            self._fail('write')
        if k == 0:
            self.log.append('write_ok')
        return self.real.write(b)

    def fileno(self):
        return self.real.fileno()


def _rlimit_case(case):
    """a genuine write failure: the real -j -c path runs in a subprocess whose RLIMIT_FSIZE is below the size of
    the document (no injected fault at all); Safe is judged on the disk state"""
    import subprocess
    from ..framework import REPO
    base = seams.scratch_dir('c12rl')
    work = os.path.join(base, 'run')
    shutil.rmtree(work, ignore_errors=True)
    os.makedirs(os.path.join(work, 'in'))
    os.makedirs(os.path.join(work, 'out'))
    data = bytes(case['data'])
    in_path = os.path.join(work, 'in', '%08X_x' % (0x50000100 + case['pel']))
    seams.write_file(in_path, data)
    expected = _count_writes(data, False)
    limit = {'zero': 0, 'one': 1, 'hundred': 100, 'half': len(expected) // 2, 'minus1': len(expected) - 1,
             'exact': len(expected), 'none': -1}[case['limit']]
    code = ('import resource, sys, os\n'
            'sys.path.insert(0, %r)\n'
            'import pel.peltool.peltool as pt\n'
            'lim = %d\n'
            'if lim >= 0: resource.setrlimit(resource.RLIMIT_FSIZE, (lim, lim))\n'
            'sys.argv = ["peltool.py", "-p", %r, "-j", "-o", %r, "-c"]\n'
            'pt.main()\n') % (os.path.join(REPO, 'modules'), limit, os.path.join(work, 'in'), os.path.join(work, 'out'))
    p = subprocess.run(['/venv/bin/python'] + (['-O'] if case.get('opt') else []) + ['-c', code],
                       stdout=subprocess.PIPE, stderr=subprocess.PIPE, timeout=60,
                       env=dict(os.environ, PYTHONDONTWRITEBYTECODE='1', PYTHONWARNINGS='ignore'))
    present = os.path.exists(in_path)
    unchanged = present and open(in_path, 'rb').read() == data
    files = sorted(os.listdir(os.path.join(work, 'out')))
    complete = len(files) == 1 and open(os.path.join(work, 'out', files[0])).read() == expected
    shutil.rmtree(work, ignore_errors=True)
    return [dict(kind='crash', shape_ok=True, mode='json', entry='main', fault='rlimit', err=case['limit'], pos='-',
                 clean=True, hex=False, pel=case['pel'], events=[], input_present_after=present,
                 input_unchanged=bool(unchanged), out_complete=bool(complete), uncaught='')]


class FaultyStdout(io.TextIOBase):
    """sys.stdout as a block-buffered pipe: data is delivered only by flush()."""

    def __init__(self, plan, log):
        self.plan, self.log = plan, log
        self.buf = []
        self.delivered = []
        self.nwrites = 0

    def writable(self):
        return True

    def write(self, s):
        k = self.nwrites
        self.nwrites += 1
        if self.plan.get('write') is not None and k >= self.plan['write']:
            self.log.append('write_fail')
            _raise(self.plan.get('err', 'EPIPE'), 'stdout write')
        if k == 0:
            self.log.append('write_ok')
        self.buf.append(s)
        return len(s)

    def flush(self):
        if not self.buf and not self.plan.get('flush'):
            return
        if self.plan.get('flush'):
            self.log.append('flush_fail')
            _raise(self.plan.get('err', 'EIO'), 'stdout flush')
        self.delivered.extend(self.buf)
        self.buf = []
        self.log.append('flush_ok')


def _count_writes(data_bytes, hexmode):
    """number of write() calls a fault-free run makes (to place 'mid' / 'last')"""
    import pel.peltool.peltool as pt
    from pel.datastream import DataStream
    from pel.peltool.config import Config
    cfg = Config()
    _, js = pt.parsePEL(DataStream(bytes(data_bytes), 'big', False), cfg, False)
    return js


CRASH_POINTS = {'json': ['before_open', 'after_open', 'after_write1', 'after_writes', 'before_close', 'after_close',
                         'before_remove', 'after_remove', 'never'],
                'file': ['before_print', 'after_print', 'after_flush', 'before_remove', 'after_remove', 'never']}


def _crash_case(case):
    """the process is killed (os._exit) at one point of the protocol; Safe must hold on disk"""
    import subprocess
    from ..framework import REPO, VERIF
    base = seams.scratch_dir('c12crash')
    work = os.path.join(base, 'run')
    shutil.rmtree(work, ignore_errors=True)
    os.makedirs(os.path.join(work, 'in'))
    os.makedirs(os.path.join(work, 'out'))
    data = bytes(case['data'])
    in_path = os.path.join(work, 'in', '%08X_x' % (0x50000100 + case['pel']))
    seams.write_file(in_path, data)
    cap = os.path.join(work, 'stdout.txt')
    expected = _count_writes(data, False)
    p = subprocess.run(['/venv/bin/python', os.path.join(VERIF, 'harness', 'c12_crash.py'), REPO, case['mode'], in_path,
                        os.path.join(work, 'out'), case['point'], cap], stdout=subprocess.PIPE, stderr=subprocess.PIPE,
                       timeout=60, env=dict(os.environ, PYTHONDONTWRITEBYTECODE='1', PYTHONWARNINGS='ignore'))
    present = os.path.exists(in_path)
    unchanged = present and open(in_path, 'rb').read() == data
    if case['mode'] == 'json':
        files = sorted(os.listdir(os.path.join(work, 'out')))
        complete = len(files) == 1 and open(os.path.join(work, 'out', files[0])).read() == expected
    else:
        complete = os.path.exists(cap) and open(cap).read() == expected + '\n'
    shutil.rmtree(work, ignore_errors=True)
    return [dict(kind='crash', shape_ok=p.returncode in (0, 137), mode=case['mode'], entry='main', fault='crash',
                 err=case['point'], pos='-', clean=True, hex=False, pel=case['pel'], events=[],
                 input_present_after=present, input_unchanged=bool(unchanged), out_complete=bool(complete),
                 uncaught=p.stderr.decode('utf-8', 'replace')[-200:] if p.returncode not in (0, 137) else '')]


class Killed(BaseException):
    """the process dies here: not an Exception, so no handler of the tool contains it"""


def _multi_case(case):
    """replay one behaviour of CleanWriteN through the real `peltool -p in -j -o out -c`"""
    import pel.peltool.peltool as pt
    rng = random.Random(case['seed'])
    beh = case['beh']
    base = seams.scratch_dir('c12m')
    work = os.path.join(base, 'run')
    shutil.rmtree(work, ignore_errors=True)
    in_dir, out_dir = os.path.join(work, 'in'), os.path.join(work, 'out')
    os.makedirs(in_dir)
    os.makedirs(out_dir)
    # per spec file: what happens to it
    plan = {}
    order = []
    for st in beh['steps']:
        f = st['f']
        if st['a'] == 'pick':
            order.append(f)
            plan[f] = dict(decode=True, open=True, write=None, close=True, remove=True, crash=None, writes=0)
        elif st['a'] == 'decode':
            plan[f]['decode'] = st['ok']
        elif st['a'] == 'open':
            plan[f]['open'] = st['ok']
        elif st['a'] == 'write':
            if st['ok']:
                plan[f]['writes'] += 1
            else:
                plan[f]['write'] = plan[f]['writes']
        elif st['a'] == 'close':
            plan[f]['close'] = st['ok']
        elif st['a'] == 'remove':
            plan[f]['remove'] = st['ok']
        elif st['a'] == 'crash':
            # where the behaviour stood when the process died: between two files ('pick') or inside one
            plan.setdefault('_', {})['crash'] = ('next', None) if st['at'] == 'pick' else (st['at'], f)
    crash_at = plan.pop('_', {}).get('crash')
    if crash_at and crash_at[0] == 'write' and plan[crash_at[1]]['writes'] >= 2:
        crash_at = ('close', crash_at[1])        # every write call was made: the next thing that happens is the close
    spec_files = sorted(beh['input'])
    # real files: names in the order the tool will meet them
    pels, texts = {}, {}
    names = ['%08X_%s' % (0x50000200 + k, rng.choice(['a', 'm', 'z'])) for k in range(len(spec_files))]
    for k, nm in enumerate(names):
        pel = genpel.gen_pel(rng, kinds=['PS', 'UD'][: 1 + k % 2], creator='O', sev=0x40, flags=0x2000,
                             eid=encode.u32(0x50000200 + k))
        pels[nm] = bytes(encode.encode(pel))
        texts[nm] = _count_writes(pels[nm], False)
    for nm in names:
        seams.write_file(os.path.join(in_dir, nm), pels[nm])
    walk = next(os.walk(in_dir))[2]
    unpicked = [f for f in spec_files if f not in order]
    assign = dict(zip(walk, order + unpicked))          # real name -> spec file
    for nm, f in assign.items():
        if f in plan and not plan[f]['decode']:
            seams.write_file(os.path.join(in_dir, nm), pels[nm][: len(pels[nm]) - 9])      # undecodable
    real_open, real_remove, real_unlink, real_io_open = builtins.open, os.remove, os.unlink, io.open
    log = _Log()
    nchunks = 2

    def spec_of(path, outp=False):
        b = os.path.basename(os.fspath(path))
        for nm in assign:
            if b == nm or (outp and b.startswith(nm + '.')):
                return nm, assign[nm]
        return None, None

    class PlannedFile(FaultyFile):
        def __init__(self, real, path, f, nm):
            p = plan.get(f, {})
            nw = len(texts[nm])
            w = p.get('write')
            fp = {'err': 'ENOSPC'}
            if w is not None:
                fp['write'] = 0 if w == 0 else max(1, (w * nw) // nchunks)
            if p.get('close') is False:
                fp['close'] = True
            super().__init__(real, path, fp, log)
            self.f = f
            self.kill_write = None
            if crash_at and crash_at[1] == f and crash_at[0] == 'write':
                self.kill_write = 0 if p.get('writes', 0) == 0 else max(1, (p['writes'] * nw) // nchunks)

        def write(self, s):
            if self.kill_write is not None and self.nwrites >= self.kill_write:
                raise Killed('during the writes of %s' % self.f)
            return super().write(s)

        def close(self):
            if not self.closed and crash_at and crash_at[1] == self.f and crash_at[0] in ('close', 'closefail') \
                    and sys.exc_info()[0] is not Killed:
                self.closed = True
                self.real.close()
                raise Killed('at the close of %s' % self.f)
            return super().close()

    seen_inputs = []

    fdmap = {}
    real_os_open, real_fdopen = os.open, os.fdopen

    def fake_os_open(path, flags, *a, **kw):
        if isinstance(path, (str, os.PathLike)) and os.path.dirname(os.path.abspath(os.fspath(path))) == out_dir \
                and flags & (os.O_WRONLY | os.O_RDWR):
            nm, f = spec_of(path, True)
            if crash_at == ('open', f):
                raise Killed('before opening the output of %s' % f)
            if f in plan and not plan[f]['open']:
                _raise('ENOSPC', 'open')
            fd = real_os_open(path, flags, *a, **kw)
            fdmap[fd] = (os.fspath(path), f, nm)
            return fd
        return real_os_open(path, flags, *a, **kw)

    def fake_open(file, mode_='r', *a, **kw):
        if isinstance(file, int) and file in fdmap:
            path, f, nm = fdmap.pop(file)
            return PlannedFile(real_open(file, mode_, *a, **kw), path, f, nm)
        if isinstance(file, (str, os.PathLike)):
            d = os.path.dirname(os.path.abspath(os.fspath(file)))
            if d == in_dir and 'b' in mode_ and 'w' not in mode_:
                nm, f = spec_of(file)
                seen_inputs.append(f)
                if crash_at and (crash_at == ('decode', f) or
                                 (crash_at[0] == 'next' and f not in order)):
                    raise Killed('before decoding %s' % f)
            if d == out_dir and ('w' in mode_ or 'x' in mode_ or 'a' in mode_):
                nm, f = spec_of(file, True)
                if crash_at == ('open', f):
                    raise Killed('before opening the output of %s' % f)
                if f in plan and not plan[f]['open']:
                    _raise('ENOSPC', 'open')
                real = real_open(file, mode_, *a, **kw)
                return PlannedFile(real, os.fspath(file), f, nm)
        return real_open(file, mode_, *a, **kw)

    def fake_remove(path, *a, **kw):
        nm, f = spec_of(path)
        if f is not None and os.path.dirname(os.path.abspath(os.fspath(path))) == in_dir:
            if crash_at == ('remove', f):
                raise Killed('before removing %s' % f)
            if f in plan and not plan[f]['remove']:
                raise PermissionError(errno.EACCES, 'Permission denied (injected at remove)')
        return real_remove(path, *a, **kw)

    builtins.open, os.remove, os.unlink, io.open = fake_open, fake_remove, fake_remove, fake_open
    os.open, os.fdopen = fake_os_open, fake_open
    killed, uncaught = False, ''
    old = (sys.argv, sys.stdout, sys.stderr)
    sys.argv = ['peltool.py', '-p', in_dir, '-j', '-o', out_dir, '-c']
    sys.stdout, sys.stderr = io.StringIO(), io.StringIO()
    try:
        try:
            pt.main()
        except SystemExit:
            pass
        except Killed:
            killed = True
        except BaseException as e:
            uncaught = repr(e)[:200]
    finally:
        builtins.open, os.remove, os.unlink, io.open = real_open, real_remove, real_unlink, real_io_open
        os.open, os.fdopen = real_os_open, real_fdopen
        sys.argv, sys.stdout, sys.stderr = old
    files = []
    outs = os.listdir(out_dir)
    for nm, f in sorted(assign.items(), key=lambda x: x[1]):
        mine = [o for o in outs if o.startswith(nm + '.')]
        if not mine:
            ro = 'absent'
        else:
            with open(os.path.join(out_dir, mine[0])) as fh:
                ro = 'complete' if len(mine) == 1 and fh.read() == texts[nm] else 'incomplete'
        files.append(dict(f=f, spec_input=beh['input'][f], spec_out=beh['out'][f],
                          real_input='present' if os.path.exists(os.path.join(in_dir, nm)) else 'removed', real_out=ro))
    shutil.rmtree(work, ignore_errors=True)
    return [dict(kind='multi', shape_ok=not uncaught and killed == bool(beh['crashed'] and crash_at and
                                                                       (crash_at[0] != 'next' or unpicked)),
                 mode='json', entry='main', fault='multi', err='crash' if beh['crashed'] else 'faults', pos='-',
                 clean=True, hex=False, pel=0, events=[], files=files, steps=len(beh['steps']),
                 input_present_after=all(x['real_input'] == 'present' for x in files), input_unchanged=True,
                 out_complete=all(x['real_out'] == 'complete' for x in files), uncaught=uncaught)]


def _sink_case(case):
    """`peltool -f F [-x] -c` as a real process whose standard output cannot take the document"""
    import subprocess
    from ..framework import REPO
    base = seams.scratch_dir('c12sink')
    work = os.path.join(base, 'run')
    shutil.rmtree(work, ignore_errors=True)
    os.makedirs(work)
    data = bytes(case['data'])
    in_path = os.path.join(work, '%08X_x' % (0x50000100 + case['pel']))
    seams.write_file(in_path, data)
    code = ('import sys\nsys.path.insert(0, %r)\nimport pel.peltool.peltool as pt\n'
            'sys.argv = ["peltool.py", "-f", %r, "-c"%s]\npt.main()\n'
            % (os.path.join(REPO, 'modules'), in_path, ', "-x"' if case['hex'] else ''))
    env = dict(os.environ, PYTHONDONTWRITEBYTECODE='1', PYTHONWARNINGS='ignore')
    env.pop('PYTHONUNBUFFERED', None)
    if case['unbuffered']:
        env['PYTHONUNBUFFERED'] = '1'
    py = ['/venv/bin/python'] + (['-O'] if case.get('opt') else [])
    if case['sink'] == 'devfull':
        with open('/dev/full', 'w') as sink:
            p = subprocess.run(py + ['-c', code], stdout=sink, stderr=subprocess.PIPE, timeout=60, env=env)
        rc = p.returncode
    else:
        r, w = os.pipe()
        os.close(r)                                   # nobody will ever read
        try:
            p = subprocess.run(py + ['-c', code], stdout=w, stderr=subprocess.PIPE, timeout=60, env=env)
        finally:
            os.close(w)
        rc = p.returncode
    present = os.path.exists(in_path)
    unchanged = present and open(in_path, 'rb').read() == data
    shutil.rmtree(work, ignore_errors=True)
    return [dict(kind='crash', shape_ok=True, mode='file', entry='main', fault='sink', err=case['sink'], pos='-',
                 clean=True, hex=case['hex'], pel=case['pel'], events=[], input_present_after=present,
                 input_unchanged=bool(unchanged), out_complete=False, uncaught='', exit=rc)]


def rng_order(a, b, k):
    return a + b if k % 2 else b + a


def run_case(case):
    if case.get('kind') == 'sink':
        return _sink_case(case)
    if case.get('kind') == 'multi':
        return _multi_case(case)
    if case.get('kind') == 'crash':
        return _crash_case(case)
    if case.get('kind') == 'rlimit':
        return _rlimit_case(case)
    import pel.peltool.peltool as pt
    from pel.peltool.config import Config
    base = seams.scratch_dir('c12')
    work = os.path.join(base, 'run')
    shutil.rmtree(work, ignore_errors=True)
    os.makedirs(os.path.join(work, 'in'))
    os.makedirs(os.path.join(work, 'out'))
    mode, fault = case['mode'], case['fault']
    data = bytes(case['data'])
    expected_json = _count_writes(data, case['hex'])
    if fault == 'decode':
        content = data[: len(data) - 7]
    elif fault == 'filtered':
        content = bytes(case['hidden'])
    elif fault == 'badheader':
        content = b'XX' + data[2:]
    else:
        content = data
    name = '%08X_%d' % (0x50000100 + case['pel'], case['pel'])
    if case.get('namelen'):
        name = (name + '_' + 'n' * 255)[:case['namelen']]
    in_path = os.path.join(work, 'in', name)
    seams.write_file(in_path, content)
    before = hashlib.sha256(content).hexdigest()
    log = _Log()
    plan = {'err': case.get('err', 'EIO')}
    if mode == 'json':
        nw = len(expected_json)          # writelines(str) writes character by character
    else:
        nw = 2                           # print(): text, newline
    if fault == 'write':
        plan['write'] = {'first': 0, 'mid': max(0, nw // 2), 'last': max(0, nw - 1)}[case['pos']]
        if case['hex'] and mode == 'file':
            plan['write'] = {'first': 0, 'mid': 7, 'last': 2 * (2 + (len(data) + 15) // 16) - 1}[case['pos']]
    if fault in ('flush', 'close'):
        plan[fault] = True
    out_dir = os.path.join(work, 'in' if case.get('place') == 'same' else 'out')

    if case.get('leftover'):
        lo = {'empty': '', 'half': expected_json[: len(expected_json) // 2], 'notjson': '\x00\x01 leftover',
              'other': '{"Private Header": {"Entry Id": "0x00000000"}}'}[case['leftover']]
        with open(os.path.join(out_dir, '%s.%08X.json' % (name, 0x50000100 + case['pel'])), 'w') as f:
            f.write(lo)
    real_open, real_remove, real_unlink, real_io_open = builtins.open, os.remove, os.unlink, io.open
    opened = []

    fdmap = {}
    real_os_open, real_fdopen = os.open, os.fdopen

    def fake_open(file, mode_='r', *a, **kw):
        if isinstance(file, int) and file in fdmap:          # open(fd, 'w') on a descriptor from os.open
            path = fdmap.pop(file)
            real = real_open(file, mode_, *a, **kw)
            log.append('open_ok')
            opened.append(path)
            raw = (a and a[0] == 0) or kw.get('buffering') == 0
            return (RawFaultyFile if raw else FaultyFile)(real, path, plan, log)
        if isinstance(file, (str, os.PathLike)) and os.path.dirname(os.path.abspath(os.fspath(file))) == out_dir \
                and ('w' in mode_ or 'x' in mode_ or 'a' in mode_):
            file = os.fspath(file)
            if fault == 'open':
                log.append('open_fail')
                _raise(case.get('err', 'ENOSPC'), 'open')
            try:
                real = real_open(file, mode_, *a, **kw)
            except OSError:                 # the file system itself refuses (a name that is too long)
                log.append('open_fail')
                raise
            log.append('open_ok')
            opened.append(file)
            raw = (a and a[0] == 0) or kw.get('buffering') == 0
            return (RawFaultyFile if raw else FaultyFile)(real, file, plan, log)
        return real_open(file, mode_, *a, **kw)

    def fake_os_open(path, flags, *a, **kw):
        # the same output opened through the low-level call (os.open + os.fdopen)
        if isinstance(path, (str, os.PathLike)) and os.path.dirname(os.path.abspath(os.fspath(path))) == out_dir \
                and flags & (os.O_WRONLY | os.O_RDWR):
            if fault == 'open':
                log.append('open_fail')
                _raise(case.get('err', 'ENOSPC'), 'open')
            try:
                fd = real_os_open(path, flags, *a, **kw)
            except OSError:
                log.append('open_fail')
                raise
            fdmap[fd] = os.fspath(path)
            return fd
        return real_os_open(path, flags, *a, **kw)

    def fake_fdopen(fd, *a, **kw):
        return fake_open(fd, *a, **kw)

    def fake_remove(path, *a, **kw):
        if os.path.abspath(os.fspath(path)) == in_path:
            log.append('remove')
        return real_remove(path, *a, **kw)

    def fake_unlink(path, *a, **kw):           # pathlib.Path.unlink and os.unlink end up here
        if os.path.abspath(os.fspath(path)) == in_path:
            log.append('remove')
        return real_unlink(path, *a, **kw)

    fake_out = FaultyStdout(plan if mode == 'file' else {}, log if mode == 'file' else _Log())
    uncaught = None
    builtins.open, os.remove, os.unlink, io.open = fake_open, fake_remove, fake_unlink, fake_open
    os.open, os.fdopen = fake_os_open, fake_fdopen
    try:
        if case['entry'] == 'func':
            cfg = Config()
            old = sys.stdout, sys.stderr
            sys.stdout, sys.stderr = io.StringIO(), io.StringIO()
            try:
                try:
                    pt.parseAndWriteOutput(in_path, out_dir, cfg, case['clean'])
                except Exception as e:     # an error that escapes is still a run to be judged
                    uncaught = repr(e)
            finally:
                sys.stdout, sys.stderr = old
        else:
            if mode == 'json':
                argv = ['-p', os.path.join(work, 'in'), '-j'] + (['-o', out_dir] if case.get('place') != 'same' else [])
            elif case.get('relname'):
                other = os.path.join(work, 'other')
                os.makedirs(other, exist_ok=True)
                twin = bytearray(data)
                twin[44:48] = b'\x5F\x00\x0B\x0B'                      # another log (another entry id) under the same name
                seams.write_file(os.path.join(other, name), bytes(twin))
                os.chdir(os.path.join(work, 'in'))
                argv = rng_order(['-p', other], ['-f', name] + (['-x'] if case['hex'] else []), case['pel'])
            else:
                argv = ['-f', in_path] + (['-x'] if case['hex'] else [])
            if case['clean']:
                argv.append('-c')
            res = seams.run_cli(argv, stdout=fake_out if mode == 'file' else None)
            uncaught = res['uncaught']
            if mode == 'file':
                # interpreter exit: whatever is still buffered is flushed now
                try:
                    fake_out.flush()
                except OSError:
                    pass
    finally:
        builtins.open, os.remove, os.unlink, io.open = real_open, real_remove, real_unlink, real_io_open
        os.open, os.fdopen = real_os_open, real_fdopen
    present = os.path.exists(in_path)
    unchanged = present and hashlib.sha256(open(in_path, 'rb').read()).hexdigest() == before
    if mode == 'json':
        files = sorted(f for f in os.listdir(out_dir) if not (case.get('place') == 'same' and f == name))
        complete = False
        if len(files) == 1:
            with open(os.path.join(out_dir, files[0])) as f:
                complete = f.read() == expected_json
    else:
        text = ''.join(fake_out.delivered)
        if case['hex']:
            from pel.hexdump import hexdump
            exp = '\n'.join(['-------------- PEL Begin  ----------------'] + hexdump(memoryview(data))
                            + ['-------------- PEL End    ----------------']) + '\n'
            complete = text == exp
        else:
            complete = text == expected_json + '\n'
    os.chdir(base)
    shutil.rmtree(work, ignore_errors=True)
    ok_shape = all(isinstance(e, str) for e in log)
    return [dict(kind='run', shape_ok=ok_shape, mode=mode, entry=case['entry'], fault=fault, err=case.get('err', ''), pos=case['pos'],
                 clean=case['clean'], hex=case['hex'], pel=case['pel'], events=list(log),
                 input_present_after=present, input_unchanged=bool(unchanged), out_complete=bool(complete),
                 uncaught=uncaught or '')]


def nontrivial(r):
    if r['kind'] == 'multi':
        st = tuple((f['spec_input'], f['spec_out']) for f in r['files'])
        return ('multi', r['err'], r['steps'], st) if any(x != ('present', 'absent') for x in st) else None
    if r['fault'] == 'none' and r['input_present_after']:
        return None
    return (r['mode'], r['entry'], r['fault'], r['err'], r['pos'], r['clean'], r['hex'], r['pel'])


def fingerprint(r, clauses):
    return 'C12:%s:%s:%s:fault=%s/%s:clean=%s:hex=%s' % ('+'.join(clauses), r['mode'], r['entry'], r['fault'],
                                                         r['err'], r['clean'], r['hex'])


def sample(r):
    if r['kind'] == 'multi':
        return dict(kind='multi: a TLC-enumerated behaviour of CleanWriteN replayed through -j -c', steps=r['steps'],
                    ended=r['err'], files=r['files'])
    return {k: r[k] for k in ('mode', 'entry', 'fault', 'err', 'pos', 'clean', 'hex', 'events',
                              'input_present_after', 'out_complete')}


def corrupt(r):
    if r['kind'] == 'multi':
        f = r['files'][0]
        f['real_input'] = 'removed' if f['real_input'] == 'present' else 'present'
        return r
    r['events'] = ['remove'] + r['events']
    return r
