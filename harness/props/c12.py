"""C12 - --clean never deletes a PEL whose decoded output was not completely written.

MC   : spec/mc/MC_CleanWrite (every fault choice and crash point; Safe, OnlyRemoveRemoves)
Gen  : spec/gen/Gen_CleanWrite emits every fault schedule (mode x failing step)
Bind : each schedule is replayed against the real parseAndWriteOutput / main() with
       faults injected at the Python I/O seam (builtins.open, the output file object,
       sys.stdout, os.remove recorded); the recorded event sequence and the final
       on-disk state are judged by Trace_C12 with CleanWrite's effect operators.
"""
import builtins
import errno
import hashlib
import io
import os
import random
import shutil
import sys

from .. import encode, genpel, seams, tlc

ID = 'C12'
LEVEL = 'model_checking'
TRACE = 'trace/Trace_C12'
RULE = ('case = one fault schedule of CleanWrite (mode x failing step x position of the failing write) x one PEL x '
        'entry point (parseAndWriteOutput / main), with and without --clean; non-trivial = a fault was injected or '
        'the input was removed; distinct = by (mode, entry, fault, position, clean, hex, PEL)')
ASSUMPTIONS = [
    'output faults are injected at the Python I/O seam (open / write / flush / close of the output object, '
    'sys.stdout), raising OSError(ENOSPC/EIO) or BrokenPipeError, a raw (unbuffered) file object gets a partial write '
    'first; genuine write failures are provoked with RLIMIT_FSIZE in a subprocess (no full file system offline)',
    'for --file the document counts as emitted only once stdout has been flushed successfully',
    'a partial output file may remain after a failure (allowed by the statement)',
]
MAX_PROCS = 8
EXHAUSTIVE = {'quick': True, 'thorough': True}


def model_checks(tier):
    return [dict(module='mc/MC_CleanWrite', cfg='mc/MC_CleanWrite_repaired', workers=2,
                 must_cover=['Decode', 'OpenOut', 'Write', 'Flush', 'Close', 'CloseAfterFailure', 'Remove',
                             'Crash'])]


def cases(tier, seed, info):
    scheds, r = tlc.generate('gen/Gen_CleanWrite')
    info['schedules_from_tlc'] = len(scheds)
    rng = random.Random(seed + 12)
    npel = 3 if tier == 'quick' else 60
    out = []
    for p in range(npel):
        pel = genpel.gen_pel(rng, kinds=['PS', 'UD', 'EH'][: 1 + p % 3], creator='O', sev=0x40, flags=0x2000,
                             eid=encode.u32(0x50000100 + p))
        pel['secs'] = [s for s in pel['secs'] if s['kind'] != 'SRC' or s.get('callouts') is None or True]
        data = encode.encode(pel)
        hidden = dict(pel, uh=dict(pel['uh'], flags=encode.u16(0x6000)))
        for s in scheds:
            positions = ['first', 'mid', 'last'] if s['fault'] == 'write' else ['-']
            entries = ['func', 'main'] if s['mode'] == 'json' else ['main']
            for pos in positions:
                for entry in entries:
                    for clean in (True, False):
                        for hexm in ([False, True] if s['mode'] == 'file' else [False]):
                            out.append(dict(mode=s['mode'], fault=s['fault'], err=s['err'], pos=pos, entry=entry,
                                            clean=clean, hex=hexm, pel=p, data=data,
                                            hidden=encode.encode(hidden)))
        for m in ('json', 'file'):
            for pt_ in CRASH_POINTS[m]:
                out.append(dict(kind='crash', mode=m, point=pt_, pel=p, data=data))
        for lim in ('zero', 'one', 'hundred', 'half', 'minus1', 'exact', 'none'):
            out.append(dict(kind='rlimit', limit=lim, pel=p, data=data))
    info['crash_points'] = sum(len(v) for v in CRASH_POINTS.values())
    info['rlimit_fsize_runs_per_pel'] = 7
    return out


class _Log(list):
    pass


def _raise(kind, what):
    if kind == 'EPIPE':
        raise BrokenPipeError(errno.EPIPE, 'Broken pipe (injected at %s)' % what)
    if kind == 'ENOSPC':
        raise OSError(errno.ENOSPC, 'No space left on device (injected at %s)' % what)
    raise OSError(errno.EIO, 'Input/output error (injected at %s)' % what)


class FaultyFile:
    """Stands in for the object returned by open(output_path, 'w')."""

    def __init__(self, real, path, plan, log):
        self.real, self.path, self.plan, self.log = real, path, plan, log
        self.nwrites = 0
        self.closed = False

    def _fail(self, what):
        self.log.append(what + '_fail')
        _raise(self.plan.get('err', 'ENOSPC'), what)

    def write(self, s):
        k = self.nwrites
        self.nwrites += 1
        if self.plan.get('write') is not None and k >= self.plan['write']:
            self._fail('write')
        if k == 0:
            self.log.append('write_ok')
        return self.real.write(s)

    def writelines(self, lines):
        for line in lines:
            self.write(line)

    def flush(self):
        if self.plan.get('flush'):
            self._fail('flush')
        self.log.append('flush_ok')
        self.real.flush()

    def close(self):
        if self.closed:
            return
        self.closed = True
        if self.plan.get('close'):
            # the final flush fails: what was buffered is lost
            try:
                self.real.close()
            finally:
                with builtins.open(self.path, 'r+') as f:
                    f.truncate(max(0, os.path.getsize(self.path) // 2))
            self._fail('close')
        self.real.close()
        self.log.append('close_ok')

    def __enter__(self):
        return self

    def __exit__(self, *a):
        self.close()
        return False


class RawFaultyFile(FaultyFile):
    """Stands for a raw, unbuffered file (open(..., buffering=0)): a write that cannot be completed
    succeeds PARTIALLY and returns the short count (what the kernel does when the device fills up);
    only the next write fails."""

    def __init__(self, real, path, plan, log):
        super().__init__(real, path, plan, log)
        self.short_done = False

    def write(self, b):
        k = self.nwrites
        self.nwrites += 1
        if self.plan.get('write') is not None and k >= self.plan['write']:
            if not self.short_done:
                self.short_done = True
                n = len(b) // 2
                self.real.write(b[:n])
                self.log.append('write_short')
                return n
            self._fail('write')
        if k == 0:
            self.log.append('write_ok')
        return self.real.write(b)

    def fileno(self):
        return self.real.fileno()


def _rlimit_case(case):
    """a genuine write failure: the real -j -c path runs in a subprocess whose RLIMIT_FSIZE is below the size of
    the document (no injected fault at all); Safe is judged on the disk state"""
    import subprocess
    from ..framework import REPO
    base = seams.scratch_dir('c12rl')
    work = os.path.join(base, 'run')
    shutil.rmtree(work, ignore_errors=True)
    os.makedirs(os.path.join(work, 'in'))
    os.makedirs(os.path.join(work, 'out'))
    data = bytes(case['data'])
    in_path = os.path.join(work, 'in', '%08X_x' % (0x50000100 + case['pel']))
    seams.write_file(in_path, data)
    expected = _count_writes(data, False)
    limit = {'zero': 0, 'one': 1, 'hundred': 100, 'half': len(expected) // 2, 'minus1': len(expected) - 1,
             'exact': len(expected), 'none': -1}[case['limit']]
    code = ('import resource, sys, os\n'
            'sys.path.insert(0, %r)\n'
            'import pel.peltool.peltool as pt\n'
            'lim = %d\n'
            'if lim >= 0: resource.setrlimit(resource.RLIMIT_FSIZE, (lim, lim))\n'
            'sys.argv = ["peltool.py", "-p", %r, "-j", "-o", %r, "-c"]\n'
            'pt.main()\n') % (os.path.join(REPO, 'modules'), limit, os.path.join(work, 'in'), os.path.join(work, 'out'))
    p = subprocess.run(['/venv/bin/python', '-c', code], stdout=subprocess.PIPE, stderr=subprocess.PIPE, timeout=60,
                       env=dict(os.environ, PYTHONDONTWRITEBYTECODE='1', PYTHONWARNINGS='ignore'))
    present = os.path.exists(in_path)
    unchanged = present and open(in_path, 'rb').read() == data
    files = sorted(os.listdir(os.path.join(work, 'out')))
    complete = len(files) == 1 and open(os.path.join(work, 'out', files[0])).read() == expected
    shutil.rmtree(work, ignore_errors=True)
    return [dict(kind='crash', shape_ok=True, mode='json', entry='main', fault='rlimit', err=case['limit'], pos='-',
                 clean=True, hex=False, pel=case['pel'], events=[], input_present_after=present,
                 input_unchanged=bool(unchanged), out_complete=bool(complete), uncaught='')]


class FaultyStdout(io.TextIOBase):
    """sys.stdout as a block-buffered pipe: data is delivered only by flush()."""

    def __init__(self, plan, log):
        self.plan, self.log = plan, log
        self.buf = []
        self.delivered = []
        self.nwrites = 0

    def writable(self):
        return True

    def write(self, s):
        k = self.nwrites
        self.nwrites += 1
        if self.plan.get('write') is not None and k >= self.plan['write']:
            self.log.append('write_fail')
            _raise(self.plan.get('err', 'EPIPE'), 'stdout write')
        if k == 0:
            self.log.append('write_ok')
        self.buf.append(s)
        return len(s)

    def flush(self):
        if not self.buf and not self.plan.get('flush'):
            return
        if self.plan.get('flush'):
            self.log.append('flush_fail')
            _raise(self.plan.get('err', 'EIO'), 'stdout flush')
        self.delivered.extend(self.buf)
        self.buf = []
        self.log.append('flush_ok')


def _count_writes(data_bytes, hexmode):
    """number of write() calls a fault-free run makes (to place 'mid' / 'last')"""
    import pel.peltool.peltool as pt
    from pel.datastream import DataStream
    from pel.peltool.config import Config
    cfg = Config()
    _, js = pt.parsePEL(DataStream(bytes(data_bytes), 'big', False), cfg, False)
    return js


CRASH_POINTS = {'json': ['before_open', 'after_open', 'after_write1', 'after_writes', 'before_close', 'after_close',
                         'before_remove', 'after_remove', 'never'],
                'file': ['before_print', 'after_print', 'after_flush', 'before_remove', 'after_remove', 'never']}


def _crash_case(case):
    """the process is killed (os._exit) at one point of the protocol; Safe must hold on disk"""
    import subprocess
    from ..framework import REPO, VERIF
    base = seams.scratch_dir('c12crash')
    work = os.path.join(base, 'run')
    shutil.rmtree(work, ignore_errors=True)
    os.makedirs(os.path.join(work, 'in'))
    os.makedirs(os.path.join(work, 'out'))
    data = bytes(case['data'])
    in_path = os.path.join(work, 'in', '%08X_x' % (0x50000100 + case['pel']))
    seams.write_file(in_path, data)
    cap = os.path.join(work, 'stdout.txt')
    expected = _count_writes(data, False)
    p = subprocess.run(['/venv/bin/python', os.path.join(VERIF, 'harness', 'c12_crash.py'), REPO, case['mode'], in_path,
                        os.path.join(work, 'out'), case['point'], cap], stdout=subprocess.PIPE, stderr=subprocess.PIPE,
                       timeout=60, env=dict(os.environ, PYTHONDONTWRITEBYTECODE='1', PYTHONWARNINGS='ignore'))
    present = os.path.exists(in_path)
    unchanged = present and open(in_path, 'rb').read() == data
    if case['mode'] == 'json':
        files = sorted(os.listdir(os.path.join(work, 'out')))
        complete = len(files) == 1 and open(os.path.join(work, 'out', files[0])).read() == expected
    else:
        complete = os.path.exists(cap) and open(cap).read() == expected + '\n'
    shutil.rmtree(work, ignore_errors=True)
    return [dict(kind='crash', shape_ok=p.returncode in (0, 137), mode=case['mode'], entry='main', fault='crash',
                 err=case['point'], pos='-', clean=True, hex=False, pel=case['pel'], events=[],
                 input_present_after=present, input_unchanged=bool(unchanged), out_complete=bool(complete),
                 uncaught=p.stderr.decode('utf-8', 'replace')[-200:] if p.returncode not in (0, 137) else '')]


def run_case(case):
    if case.get('kind') == 'crash':
        return _crash_case(case)
    if case.get('kind') == 'rlimit':
        return _rlimit_case(case)
    import pel.peltool.peltool as pt
    from pel.peltool.config import Config
    base = seams.scratch_dir('c12')
    work = os.path.join(base, 'run')
    shutil.rmtree(work, ignore_errors=True)
    os.makedirs(os.path.join(work, 'in'))
    os.makedirs(os.path.join(work, 'out'))
    mode, fault = case['mode'], case['fault']
    data = bytes(case['data'])
    expected_json = _count_writes(data, case['hex'])
    if fault == 'decode':
        content = data[: len(data) - 7]
    elif fault == 'filtered':
        content = bytes(case['hidden'])
    elif fault == 'badheader':
        content = b'XX' + data[2:]
    else:
        content = data
    name = '%08X_%d' % (0x50000100 + case['pel'], case['pel'])
    in_path = os.path.join(work, 'in', name)
    seams.write_file(in_path, content)
    before = hashlib.sha256(content).hexdigest()
    log = _Log()
    plan = {'err': case.get('err', 'EIO')}
    if mode == 'json':
        nw = len(expected_json)          # writelines(str) writes character by character
    else:
        nw = 2                           # print(): text, newline
    if fault == 'write':
        plan['write'] = {'first': 0, 'mid': max(0, nw // 2), 'last': max(0, nw - 1)}[case['pos']]
        if case['hex'] and mode == 'file':
            plan['write'] = {'first': 0, 'mid': 7, 'last': 2 * (2 + (len(data) + 15) // 16) - 1}[case['pos']]
    if fault in ('flush', 'close'):
        plan[fault] = True
    out_dir = os.path.join(work, 'out')

    real_open, real_remove, real_unlink, real_io_open = builtins.open, os.remove, os.unlink, io.open
    opened = []

    def fake_open(file, mode_='r', *a, **kw):
        if isinstance(file, (str, os.PathLike)) and os.path.dirname(os.path.abspath(os.fspath(file))) == out_dir \
                and ('w' in mode_ or 'x' in mode_ or 'a' in mode_):
            file = os.fspath(file)
            if fault == 'open':
                log.append('open_fail')
                _raise(case.get('err', 'ENOSPC'), 'open')
            real = real_open(file, mode_, *a, **kw)
            log.append('open_ok')
            opened.append(file)
            raw = (a and a[0] == 0) or kw.get('buffering') == 0
            return (RawFaultyFile if raw else FaultyFile)(real, file, plan, log)
        return real_open(file, mode_, *a, **kw)

    def fake_remove(path, *a, **kw):
        if os.path.abspath(os.fspath(path)) == in_path:
            log.append('remove')
        return real_remove(path, *a, **kw)

    def fake_unlink(path, *a, **kw):           # pathlib.Path.unlink and os.unlink end up here
        if os.path.abspath(os.fspath(path)) == in_path:
            log.append('remove')
        return real_unlink(path, *a, **kw)

    fake_out = FaultyStdout(plan if mode == 'file' else {}, log if mode == 'file' else _Log())
    uncaught = None
    builtins.open, os.remove, os.unlink, io.open = fake_open, fake_remove, fake_unlink, fake_open
    try:
        if case['entry'] == 'func':
            cfg = Config()
            old = sys.stdout, sys.stderr
            sys.stdout, sys.stderr = io.StringIO(), io.StringIO()
            try:
                try:
                    pt.parseAndWriteOutput(in_path, out_dir, cfg, case['clean'])
                except Exception as e:     # an error that escapes is still a run to be judged
                    uncaught = repr(e)
            finally:
                sys.stdout, sys.stderr = old
        else:
            if mode == 'json':
                argv = ['-p', os.path.join(work, 'in'), '-j', '-o', out_dir]
            else:
                argv = ['-f', in_path] + (['-x'] if case['hex'] else [])
            if case['clean']:
                argv.append('-c')
            res = seams.run_cli(argv, stdout=fake_out if mode == 'file' else None)
            uncaught = res['uncaught']
            if mode == 'file':
                # interpreter exit: whatever is still buffered is flushed now
                try:
                    fake_out.flush()
                except OSError:
                    pass
    finally:
        builtins.open, os.remove, os.unlink, io.open = real_open, real_remove, real_unlink, real_io_open
    present = os.path.exists(in_path)
    unchanged = present and hashlib.sha256(open(in_path, 'rb').read()).hexdigest() == before
    if mode == 'json':
        files = sorted(os.listdir(out_dir))
        complete = False
        if len(files) == 1:
            with open(os.path.join(out_dir, files[0])) as f:
                complete = f.read() == expected_json
    else:
        text = ''.join(fake_out.delivered)
        if case['hex']:
            from pel.hexdump import hexdump
            exp = '\n'.join(['-------------- PEL Begin  ----------------'] + hexdump(memoryview(data))
                            + ['-------------- PEL End    ----------------']) + '\n'
            complete = text == exp
        else:
            complete = text == expected_json + '\n'
    shutil.rmtree(work, ignore_errors=True)
    ok_shape = all(isinstance(e, str) for e in log)
    return [dict(kind='run', shape_ok=ok_shape, mode=mode, entry=case['entry'], fault=fault, err=case.get('err', ''), pos=case['pos'],
                 clean=case['clean'], hex=case['hex'], pel=case['pel'], events=list(log),
                 input_present_after=present, input_unchanged=bool(unchanged), out_complete=bool(complete),
                 uncaught=uncaught or '')]


def nontrivial(r):
    if r['fault'] == 'none' and r['input_present_after']:
        return None
    return (r['mode'], r['entry'], r['fault'], r['err'], r['pos'], r['clean'], r['hex'], r['pel'])


def fingerprint(r, clauses):
    return 'C12:%s:%s:%s:fault=%s/%s:clean=%s:hex=%s' % ('+'.join(clauses), r['mode'], r['entry'], r['fault'],
                                                         r['err'], r['clean'], r['hex'])


def sample(r):
    return {k: r[k] for k in ('mode', 'entry', 'fault', 'err', 'pos', 'clean', 'hex', 'events',
                              'input_present_after', 'out_complete')}


def corrupt(r):
    r['events'] = ['remove'] + r['events']
    return r
