"""C13 - hex dumps are lossless: parsing a dump returns the original bytes.

MC   : spec/mc/MC_HexDump (round trip, line count, width, offsets for all small data/layouts;
       literal line formats pinned)
Bind : the real hexdump() and parse() are run on byte strings of every length, every
       printable boundary, all (quick: a sample of) 256x256 layouts, the three line formats
       incl. short last lines, comment / blank lines; `peltool -x` on PEL files.
       Trace_C13 recomputes every dump / parse with HexDump.tla and compares.
"""
import os
import random

from .. import encode, genpel, seams

ID = 'C13'
LEVEL = 'model_checking'
TRACE = 'trace/Trace_C13'
RULE = ('case = one call of the real hexdump (data, bytes-per-line, bytes-per-chunk), one call of the real parse '
        '(text lines, line format), one dump file (data lines plus title / comment / blank lines) read by the real '
        'dump-file reader, or one `peltool -x` run; non-trivial = data non-empty and not a multiple of the '
        'line length, or a non-default layout / drawer format; distinct = by (kind, data, layout / format)')
ASSUMPTIONS = [
    'only \\n line endings and offsets below 2^31 are generated',
    'comment lines are lines the template cannot partially match (a partially matching line legitimately '
    'contributes bytes)',
]
EXHAUSTIVE = {'quick': False, 'thorough': False}
BOUND = [0x00, 0x1F, 0x20, 0x21, 0x2F, 0x30, 0x39, 0x3A, 0x40, 0x41, 0x46, 0x47, 0x60, 0x61, 0x66, 0x67, 0x7E,
         0x7F, 0x80, 0xFF]


def model_checks(tier):
    return [dict(module='mc/MC_HexDump', must_cover=['Evaluate'])]


TEXTY = [ord(c) for c in '0123456789abcdefABCDEF  20 24cafe']


def _data(rng, n):
    r = rng.random()
    if r < .2:
        # bytes whose ASCII rendering looks like hex dump text itself (digits, hex letters, blanks)
        return [rng.choice(TEXTY) for _ in range(n)]
    if r < .45:
        return [rng.choice(BOUND) for _ in range(n)]
    if r < .55:
        return [(k * 7 + n) & 0xFF for k in range(n)]
    return [rng.randrange(256) for _ in range(n)]


def cases(tier, seed, info):
    rng = random.Random(seed + 13)
    items = []
    # default layout, every length 0..80 and a spread
    lens = list(range(0, 81)) + [rng.randrange(81, 600) for _ in range(20 if tier == 'quick' else 300)] \
        + ([1000, 4095, 4096, 4097] if tier == 'thorough' else [255, 256, 257])
    for n in lens:
        d = _data(rng, n)
        items.append(dict(kind='dump', data=d, bpl=16, bpc=4))
        items.append(dict(kind='parse', fmt='default', data=d, how='hexdump'))
        for fmt in ('bmc', 'pre'):
            items.append(dict(kind='parse', fmt=fmt, data=d, how=rng.choice(['upper', 'lower']),
                              noise=rng.random() < .4))
    # the same renderings read as a dump FILE by the real reader (which has to find out the format itself), with
    # title / comment / blank lines before, between and after the data lines
    for n in lens[::2] + [1, 4, 15, 16, 17, 68]:
        for fmt in ('bmc', 'pre'):
            items.append(dict(kind='file', fmt=fmt, data=_data(rng, n), how=rng.choice(['upper', 'lower']),
                              seed=rng.randrange(1 << 30)))
    # offsets beyond 0xFFFF (the 4-digit address column of the BMC format wraps; the default format has 8 digits)
    big = _data(rng, 65536 + 40)
    items.append(dict(kind='dump', data=big, bpl=16, bpc=4))
    items.append(dict(kind='parse', fmt='default', data=big, how='hexdump'))
    items.append(dict(kind='parse', fmt='bmc', data=big, how='upper'))
    items.append(dict(kind='parse', fmt='bmc', data=_data(rng, 65536 + 16 * rng.randrange(1, 40) + rng.randrange(16)), how='lower'))
    items.append(dict(kind='file', fmt='bmc', data=_data(rng, 65536 + rng.randrange(1, 300)), how='upper', seed=rng.randrange(1 << 30)))
    items.append(dict(kind='parse', fmt='pre', data=_data(rng, 65536 + rng.randrange(1, 300)), how='upper'))
    # all byte values in one dump
    items.append(dict(kind='dump', data=list(range(256)), bpl=16, bpc=4))
    items.append(dict(kind='parse', fmt='default', data=list(range(256)), how='hexdump'))
    # layouts
    if tier == 'quick':
        layouts = [(a, b) for a in (1, 2, 3, 5, 8, 16, 17, 255, 256) for b in (1, 2, 3, 4, 7, 16, 256)]
        layouts += [(rng.randint(1, 256), rng.randint(1, 256)) for _ in range(340)]
    else:
        layouts = [(a, b) for a in range(1, 257) for b in range(1, 257)]
    for a, b in layouts:
        n = rng.choice([0, 1, a - 1, a, a + 1, 2 * a + 1, rng.randrange(1, 40)])
        items.append(dict(kind='dump', data=_data(rng, max(0, min(n, 300))), bpl=a, bpc=b))
    info['layouts'] = len(layouts)
    # free-form text through parse (whatever it is, the result must be what the spec's scanner gives)
    for _ in range(100 if tier == 'quick' else 3000):
        lines = []
        for _ in range(rng.randrange(0, 6)):
            ln = rng.randrange(0, 75)
            lines.append(''.join(rng.choice('0123456789abcdefABCDEFxg :<>|.\t') for _ in range(ln))
                         + rng.choice(['', '\n', '\n\n']))
        items.append(dict(kind='parse', fmt=rng.choice(['default', 'bmc', 'pre']), text=lines, how='text'))
    out = [dict(kind='batch', items=items[j:j + 60]) for j in range(0, len(items), 60)]
    m = 16 if tier == 'quick' else 400
    for j in range(0, m, 8):
        out.append(dict(kind='hexmode', seed=seed * 31 + j, n=8))
    info['items'] = len(items)
    info['hexmode_runs'] = m
    return out


def _cp(lines):
    return [[ord(c) for c in l] for l in lines]


def _render(data, fmt, lower):
    out = []
    hx = (lambda b: '%02x' % b) if lower else (lambda b: '%02X' % b)
    for off in range(0, len(data), 16):
        ch = data[off:off + 16]
        txt = ''.join(chr(b) if 0x20 <= b < 0x7f else '.' for b in ch).ljust(16)
        if fmt == 'bmc':
            raw = ' '.join(''.join(hx(b) for b in ch[k:k + 4]) for k in range(0, len(ch), 4)).ljust(35)
            out.append('%04X:  %s  <%s>' % (off % 65536, raw, txt))
        else:
            raw = ''.join(hx(b) + ' ' for b in ch).ljust(48)
            out.append(raw + txt)
    return out


TITLES = ['', '# dump taken today', 'Drawer dump', 'Enclosure U78D4.ND0.WZS000A', 'dump captured by service',
          'Collected 2024-01-01', 'IO drawer dump', 'Memory dump of ESM A', '--- end ---', 'Begin', 'File: x.txt',
          'address  data', 'A', 'f', '0x', '; note', '\t', '   ', 'END OF DUMP', 'checksum ok',
          # lines that BEGIN like data without being data: one hex digit and a blank, a sign, a prefix
          'A dump of the drawer taken from the web interface', ' A', '+A', '-2', '+1F', 'B see above', 'c 1', ' 5',
          '1 of 3', 'a b', '0 ', 'E\tx', '0x1F', '1_0', 'F:']


def _decorate(lines, rng):
    out = []
    where = rng.choice(['none', 'before', 'after', 'between', 'all', 'before', 'all'])
    lines = [l + '\n' for l in lines]
    if where in ('before', 'all'):
        out += [rng.choice(TITLES) + '\n' for _ in range(rng.randrange(1, 4))]
    for k, l in enumerate(lines):
        out.append(l)
        if where in ('between', 'all') and rng.random() < .3:
            out.append(rng.choice(TITLES) + '\n')
    if where in ('after', 'all'):
        out += [rng.choice(TITLES) + '\n' for _ in range(rng.randrange(1, 3))]
    if out and rng.random() < .3:
        out[-1] = out[-1].rstrip('\n')
    return out


def _file_item(it):
    import io_drawer.dump as dd
    rng = random.Random(it['seed'])
    lines = _decorate(_render(it['data'], it['fmt'], it['how'] == 'lower'), rng)
    path = os.path.join(seams.scratch_dir('c13'), 'dump.txt')
    with open(path, 'w') as f:
        f.write(''.join(lines))
    got = []
    orig = dd.parse_dump_data
    from .. import drawer
    hdr = os.path.join(drawer.io_dir(), 'mex_pte.h')
    strf = os.path.join(drawer.io_dir(), 'mexStringFile')

    def spy(data, header_file, string_file):
        got.append(bytes(data))
        return orig(data, header_file, string_file)
    dd.parse_dump_data = spy
    try:
        shown = dd.parse_dump_file(path, hdr, strf)
    finally:
        dd.parse_dump_data = orig
        os.remove(path)
    if got or not shown:
        result = list(got[0]) if got else []
    else:
        # the reader did not go through the module-level parse_dump_data (an internal detail): the bytes it
        # recovered are observed through what it shows - the same as the decoder shows for the data itself
        result = list(it['data']) if shown == orig(memoryview(bytes(it['data'])), hdr, strf) else []
    return dict(kind='file', shape_ok=len(got) <= 1, fmt=it['fmt'], lines=_cp(lines), data=it['data'], result=result)


def _item(it):
    import pel.hexdump as hd
    import io_drawer.dump as dd
    if it['kind'] == 'file':
        return _file_item(it)
    if it['kind'] == 'dump':
        lines = hd.hexdump(memoryview(bytes(it['data'])), it['bpl'], it['bpc'])
        ok = isinstance(lines, list) and all(isinstance(x, str) for x in lines)
        return dict(kind='dump', shape_ok=ok, data=it['data'], bpl=it['bpl'], bpc=it['bpc'],
                    lines=_cp(lines) if ok else [])
    fmts = {'default': hd.DEFAULT_LINE_FORMAT, 'bmc': dd.HEX_DUMP_LINE_FORMATS[0],
            'pre': dd.HEX_DUMP_LINE_FORMATS[1]}
    fmt = fmts[it['fmt']]
    rendered, known, data = 'no', False, []
    if it['how'] == 'hexdump':
        data = it['data']
        lines = hd.hexdump(memoryview(bytes(data)))
        known, rendered = True, 'upper'
    elif it['how'] in ('upper', 'lower'):
        data = it['data']
        lines = _render(data, it['fmt'], it['how'] == 'lower')
        known, rendered = True, it['how']
        if it.get('noise'):
            lines = ['# dump taken today', ''] + [l + '\n' for l in lines] + ['', '--- end ---\n']
            rendered = 'no'
    else:
        lines = it['text']
    res = hd.parse(list(lines), fmt) if it['fmt'] != 'default' or it['how'] != 'hexdump' else hd.parse(list(lines))
    ok = isinstance(res, (bytes, bytearray))
    return dict(kind='parse', shape_ok=ok, fmt=it['fmt'], fmtcp=[ord(c) for c in fmt], lines=_cp(lines),
                result=list(res) if ok else [], known=known, data=data, rendered=rendered)


def _hexmode(case):
    rng = random.Random(case['seed'])
    d = seams.scratch_dir('c13')
    recs = []
    for k in range(case['n']):
        pel = genpel.gen_pel(rng, kinds=['PS', 'UD'][: rng.randrange(0, 3)], creator='O', sev=0x40, flags=0x2000)
        for s in pel['secs']:
            if s['kind'] == 'SRC':
                s['callouts'] = None
                s['flags'] &= 0xFE
        if not any(s['kind'] == 'SRC' for s in pel['secs']):
            pel['secs'].insert(0, genpel.gen_src(rng, 'PS', ncallouts=-1, kind='BD'))
        eid = 0x50002000 + k
        pel['ph']['eid'] = encode.u32(eid)
        pel['ph']['plid'] = encode.u32(eid)
        pel['ph']['bmc'] = encode.u32(700 + k)
        if k % 3 == 1:
            # a long log: what is shown is the whole file, however little of it a mode needs to read
            pel['secs'].append(dict(genpel.hdr(rng, 'UD'), kind='UD', comp=[0x77, 0x78], sub=9, ver=1,
                                    payload=genpel.rbytes(rng, rng.choice([4000, 4096, 5000, 9000, 20000]))))
        data = list(encode.encode(pel))
        if rng.random() < .4:
            data += genpel.rbytes(rng, rng.randrange(1, 40))      # bytes behind the last section belong to the file
        dd = os.path.join(d, 'hexdir')
        import shutil
        shutil.rmtree(dd, ignore_errors=True)
        os.makedirs(dd)
        path = os.path.join(dd, 'x%d_%08X.pel' % (k, eid))
        seams.write_file(path, data)
        ex = os.path.join(d, 'exclude.txt')
        with open(ex, 'w') as f:
            f.write('NOTTHERE\n')
        ref = ''.join(chr(c) for c in [s for s in pel['secs'] if s['kind'] == 'SRC'][0]['ascii'][:8])
        # every mode that can show a PEL in hex
        modes = [['-f', path, '-x'], ['-p', dd, '-a', '-x'], ['-p', dd, '-l', '-x'], ['-p', dd, '-i', '%08X' % eid, '-x'],
                 ['-p', dd, '--bmc-id', str(700 + k), '-x'], ['-p', dd, '--plid', '0x%08X' % eid, '-x'],
                 ['-p', dd, '--src', ref[:4], '-x'], ['-p', dd, '--src-exclude', ex, '-x'], ['-p', dd, '-x', '-r', '-a']]
        for argv in ([modes[0]] + rng.sample(modes[1:], 3)):
            res = seams.run_cli(argv)
            lines = (res['out'] or '').split('\n')
            if lines and lines[-1] == '':
                lines = lines[:-1]
            recs.append(dict(kind='hexmode', shape_ok=res['exit'] == 0 and not res['uncaught'], data=data,
                             lines=_cp(lines), argv=[a for a in argv if a.startswith('-')]))
        shutil.rmtree(dd, ignore_errors=True)
    return recs


def run_case(case):
    if case['kind'] == 'hexmode':
        return _hexmode(case)
    return [_item(it) for it in case['items']]


def nontrivial(r):
    if r['kind'] == 'dump':
        if r['data'] and (len(r['data']) % r['bpl'] or (r['bpl'], r['bpc']) != (16, 4)):
            return ('d', bytes(r['data']), r['bpl'], r['bpc'])
        return None
    if r['kind'] == 'parse':
        return ('p', r['fmt'], str(r['lines'])[:400]) if r['result'] else None
    if r['kind'] == 'file':
        return ('f', r['fmt'], str(r['lines'])[:600]) if r['result'] and len(r['lines']) > (len(r['data']) + 15) // 16 else None
    return ('x', bytes(r['data']))


def fingerprint(r, clauses):
    return 'C13:%s:%s:%s' % (r['kind'], '+'.join(clauses), r.get('fmt', ''))


def sample(r):
    if r['kind'] == 'dump':
        return dict(kind='dump', data=r['data'][:24], bpl=r['bpl'], bpc=r['bpc'],
                    first_line=''.join(chr(c) for c in r['lines'][0]) if r['lines'] else None)
    if r['kind'] == 'parse':
        return dict(kind='parse', fmt=r['fmt'], first_line=''.join(chr(c) for c in r['lines'][0]) if r['lines'] else None,
                    result=r['result'][:24])
    if r['kind'] == 'file':
        return dict(kind='file', fmt=r['fmt'], lines=[''.join(chr(c) for c in l) for l in r['lines'][:4]],
                    recovered=len(r['result']), data=len(r['data']))
    return dict(kind='hexmode', file_len=len(r['data']), lines=len(r['lines']))


def corrupt(r):
    if r['kind'] == 'dump':
        if not r['lines']:
            return None
        r['lines'] = r['lines'][:-1]
    elif r['kind'] == 'parse':
        if not r['known']:
            return None
        r['result'] = r['result'] + [0]
    elif r['kind'] == 'file':
        # (a title that happens to spell a data byte makes the file ambiguous: nothing is demanded then)
        if not r['data'] or any(''.join(map(chr, l[:2])).lower() in ('be', 'ad') for l in r['lines']):
            return None
        r['result'] = r['result'][:-1]
    else:
        r['data'] = r['data'] + [0]
    return r
