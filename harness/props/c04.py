"""C04 - user data is rendered from its content or preserved byte-for-byte as a hex dump.

MC   : spec/mc/MC_DecodeHistory (implementation-shaped routing through the parser caches vs the
       rule, ErrorNoted), spec/mc/MC_HexDump (the dump is lossless)
Gen  : spec/gen/Gen_UDRoute emits the whole route space (kind x creator class x component class x
       sub-type x plugins x parser behaviour)
Bind : each route is realised as a section of a real PEL (fixture parser modules supply the
       behaviours), with payload families (JSON documents, text, binary of every length class,
       maximum-size payloads), decoded by the real parsePEL; Trace_UD judges Route-specific
       clauses: Lossless (HexDump!Parse of the entry's Data = payload), ErrorNote, JsonSame,
       TextLines, PluginOutput, BaseKeys.
"""
import json
import random

from .. import encode, genpel, tlc, udrun

ID = 'C04'
LEVEL = 'model_checking'
TRACE = 'trace/Trace_UD'
PROCESS_EVERY = 4         # every fourth case decodes through the real tool as a real process (seams.PROC_VARIANTS)
RULE = ('case = one route of the user-data route space (emitted exhaustively by TLC) x one payload family member, '
        'realised as a section of a PEL and decoded by the real parsePEL; non-trivial = every record (a payload of '
        '>= 1 byte is always present); distinct = by (route, payload)')
ASSUMPTIONS = [
    'invalid built-in JSON and non-UTF-8 text are outside the statement and not generated (C05 covers their rejection)',
    'JSON documents do not use the keys every entry already has, nor top-level Error; text payloads start and end '
    'with a non-blank character',
    'parser behaviours are supplied by fixture modules appended to the udparsers package path',
]
EXHAUSTIVE = {'quick': False, 'thorough': False}
JUDGE_XMX = '6g'


def model_checks(tier):
    return [dict(module='mc/MC_DecodeHistory', cfg='mc/MC_DecodeHistory_repaired', must_cover=['Decode'], workers=8),
            dict(module='mc/MC_UserData', must_cover=['Evaluate'], workers=4)]


def cases(tier, seed, info):
    routes, _ = tlc.generate('gen/Gen_UDRoute')
    info['routes_from_tlc'] = len(routes)
    per = 8 if tier == 'quick' else 400
    items = []
    for r in routes:
        builtin = r['creator'] == 'bmc' and r['comp'] == 'builtin' and r['kind'] != 'OTHER'
        for k in range(per * (4 if builtin else 1)):
            items.append(dict(route=r, k=k))
    # maximum-size payloads
    for kind, n in (('UD', 65527), ('ED', 65523), ('OTHER', 65527)) if tier == 'quick' else \
            [('UD', 65527), ('ED', 65523), ('OTHER', 65527)] * 8 + [('UD', 65526), ('UD', 4096), ('OTHER', 65520)]:
        items.append(dict(route=dict(kind=kind, creator='plain', comp='unserved', sub=85, plugins=True, beh='absent'),
                          k=0, size=n))
    out = [dict(seed=seed * 6151 + j, items=items[j:j + 40]) for j in range(0, len(items), 40)]
    info['sections'] = len(items)
    return out


LENS = [1, 2, 3, 4, 5, 15, 16, 17, 31, 32, 33, 47, 48, 49, 64, 100, 255, 256, 257, 300]
BOUND = [0x00, 0x1F, 0x20, 0x7E, 0x7F, 0x80, 0xFF, 0x41, 0x0A]


def payload_for(rng, cls, k):
    """returns (payload bytes, expect_canon or None-by-route)"""
    if cls == 'json':
        while True:
            doc = genpel.gen_json_value(rng, 1) if k % 3 == 0 else \
                {genpel.rtext(rng, rng.randrange(1, 9), genpel.ALNUM + ' :"{\\'): genpel.gen_json_value(rng, 1)
                 for _ in range(rng.randrange(1, 5))}
            if isinstance(doc, dict) and k % 5 == 2:
                # members named like the entry's own header fields: the JSON value still has to appear as it is
                for name in rng.sample(udrun.BASE, rng.randrange(1, 3)):
                    doc[name] = rng.choice(['sensor-monitor', '2.1', 7, None, [1, 2], {'a': 1}])
            if not (isinstance(doc, dict) and 'Error' in doc):
                break
        raw = json.dumps(doc).encode('utf-8')
        raw += b'\x00' * ((-len(raw)) % 4 if k % 2 else 0)
        canon = json.dumps(doc if isinstance(doc, dict) else {'Data': doc}, sort_keys=True)
        return list(raw), canon
    if cls == 'text':
        n = LENS[k % len(LENS)]
        body = ''.join(rng.choice(genpel.PRINTABLE + ['\n', '\n', '\t', '\x01', '\x7f', '\r']) for _ in range(n))
        raw = ('A' + body + 'z').encode('utf-8')
        raw += b'\x00' * ((-len(raw)) % 4 if k % 2 else 0)
        return list(raw), ''
    n = LENS[k % len(LENS)] if k % 4 else rng.randrange(1, 300)
    fam = k % 8
    if fam == 0:
        return [rng.choice(BOUND) for _ in range(n)], ''
    if fam == 1:
        # data padded with NULs to a multiple of 4 (what firmware writes), incl. whole words of zeros
        body = genpel.rbytes(rng, n)
        return body + [0] * ((-len(body)) % 4 + rng.choice([0, 4, 8])), ''
    if fam == 2:
        # the payload ends (or starts) with a small big-endian number: looks like a length / pad count
        body = genpel.rbytes(rng, n)
        word = encode.u32(rng.choice([0, 1, 2, 3, 4, 8, max(0, n - 5), n, n + 4]))
        return (body + word) if rng.random() < .7 else (word + body), ''
    if fam == 3:
        return [rng.choice([0x00, 0xFF])] * n, ''
    if fam == 4:
        # a run of identical 16-byte lines (dump lines that look alike) with a short tail
        line = genpel.rbytes(rng, 16)
        return line * rng.choice([2, 3, 17]) + line[: rng.randrange(0, 16)], ''
    return genpel.rbytes(rng, n), ''


def build(rng, it):
    r, k = it['route'], it['k']
    sel = {'bmc': 'O', 'fixture': 'X', 'plain': rng.choice(['B', 'Q', 'H', 'a'])}[r['creator']]
    if r['creator'] == 'plain' and r['kind'] == 'ED' and rng.random() < .35:
        # the creator of an extended user data section is a byte of the section itself: any of the 256 values
        sel = rng.choice(['\xdf', '\xb5', '\x80', '\xff', '\xe9', '\x00', '\x7f'])
    if r['comp'] == 'builtin':
        comp = [0x20, 0x00]
    elif r['comp'] == 'served':
        comp = udrun.FIXTURE_COMPS.get(r['beh'], [0x11, 0x11])
        if r['beh'] == 'importfails':
            comp = list(rng.choice(udrun.BROKEN_COMPS))
    else:
        comp = genpel.rbytes(rng, 2)
        while comp in ([0x20, 0x00], [0xE5, 0x00], [0x2C, 0x00]) or comp in udrun.served_comps():
            comp = genpel.rbytes(rng, 2)
    kind = r['kind']
    sec = dict(kind=kind, ver=rng.randrange(256), sub=r['sub'], comp=comp)
    pel_creator = sel if kind == 'UD' else rng.choice(['O', 'B', 'X'])
    view = dict(sec, creator=ord(sel))
    from ..props import c04 as _self  # noqa
    cls = 'bin'
    if kind in ('UD', 'ED') and sel == 'O' and comp == [0x20, 0x00]:
        cls = {1: 'json', 3: 'text'}.get(r['sub'], 'bin')
    if 'size' in it:
        payload, canon = genpel.rbytes(rng, it['size']), ''
    else:
        payload, canon = payload_for(rng, cls, k)
    if kind == 'UD':
        sec.update(id=encode.text('UD'), payload=payload)
    elif kind == 'ED':
        sec.update(id=encode.text('ED'), creator=ord(sel), res=genpel.rbytes(rng, 3), payload=payload)
    else:
        sec.update(id=encode.text(rng.choice(genpel.HEXDUMP_IDS + ['XX', 'ID', 'Ud'])), payload=payload)
    if kind != 'OTHER' and r['comp'] == 'served' and r['plugins']:
        name = 'x%02x%02x' % tuple(comp)
        if r['beh'] == 'ok':
            canon = json.dumps({'Fixture Parser': name, 'Fixture Subtype': sec['sub'], 'Fixture Version': sec['ver'],
                                'Fixture Payload': bytes(payload).hex()}, sort_keys=True)
        elif r['beh'] == 'nondict':
            canon = json.dumps({'Data': [name, sec['sub'], sec['ver'], bytes(payload).hex()]}, sort_keys=True)
    pel = genpel.gen_pel(rng, kinds=[], creator=pel_creator)
    others = [genpel.gen_mt(rng)] if k % 2 else []
    after = [genpel.gen_other(rng, 'EI')] if k % 3 == 0 else []
    # neighbours that are shown under the SAME name as the section in focus (another user-data section, another
    # unknown one), next to it or with something in between, in front of it, behind it, or both: what is shown for
    # a section does not depend on its neighbours.  (No parser is consulted for them: only where plug-ins are off.)
    def same():
        if kind == 'OTHER':
            return genpel.gen_other(rng, rng.choice(['XX', 'ZQ', 'Ud']))
        n_ = genpel.gen_ud(rng, route='noparser', creator=pel_creator) if kind == 'UD' else genpel.gen_ed(rng, creator=sel)
        n_['comp'] = [0x12, 0x34]
        return n_
    if kind == 'OTHER' or not r['plugins']:
        lay = rng.randrange(6)
        if lay == 1:
            others = [same()] + others
        elif lay == 2:
            after = after + [genpel.gen_mt(rng), same()]
        elif lay == 3:
            others, after = [same(), genpel.gen_mt(rng)], [genpel.gen_mt(rng), same()]
        elif lay == 4:
            others, after = [same(), same(), genpel.gen_mt(rng)], after
    pel['secs'] = others + [sec] + after
    return pel, len(others), canon


def run_case(case):
    rng = random.Random(case['seed'])
    recs = []
    for it in case['items']:
        pel, focus, canon = build(rng, it)
        r = it['route']
        beh = r['beh'] if r['comp'] == 'served' else 'absent'
        collide = ()
        if canon and pel['secs'][focus].get('sub') == 1 and pel['secs'][focus].get('comp') == [0x20, 0x00]:
            try:
                collide = tuple(sorted(set(json.loads(canon)) & set(udrun.BASE)))
            except ValueError:
                collide = ()
        recs.append(udrun.observe(pel, focus, r['plugins'], beh, 'C04', expect_canon=canon, collide=collide,
                                  via_cli=len(recs) % 3 == 1))        # every third section through the real command line
        recs[-1]['route'] = r
    return recs


def nontrivial(r):
    return (json.dumps(r['route'], sort_keys=True), bytes(r['sec']['payload'][:64]), len(r['sec']['payload']))


def fingerprint(r, clauses):
    rt = r['route']
    return 'C04:%s:%s:%s:%s:sub=%s:plugins=%s:%s' % ('+'.join(clauses), rt['kind'], rt['creator'], rt['comp'],
                                                     rt['sub'], rt['plugins'], rt['beh'])


def sample(r):
    return dict(route=r['route'], payload_len=len(r['sec']['payload']), has_error=r['entry']['has_error'],
                data_lines=len(r['entry']['data']), canon=r['entry']['canon'][:120])


def corrupt(r):
    if not r['entry']['present']:
        return None
    r['entry']['has_error'] = not r['entry']['has_error']
    return r
