"""C09 - unreadable files in a PEL directory never disturb the output for the others.

MC   : spec/mc/MC_Listing (listing loop with its exception barrier: JunkInvariant, ExitZero,
       MatchesRule over every directory of <= 3 files x {pel, header-damaged, body-damaged})
Bind : for generated directories D and junk sets J (every junk kind: empty, bad PH / UH id,
       truncated in / after the headers / after the SRC, truncated last section, PCE-size
       corruption, random bytes, nested directories holding valid PELs; names sorting before /
       between / after the PELs) every directory mode (-l, -a, -n, --plid, --src, -j, -l -x,
       -a -x) is run on D and on D + the junk that mode cannot decode (established by running
       the mode on the junk file alone).  Trace_Dir judges ExitZero, OneJsonDocument,
       OthersUnchanged (stdout identical), JsonFilesUnchanged / NoFileForJunk.
"""
import json
import os
import random
import shutil

from .. import dirrun, encode, project, seams

ID = 'C09'
LEVEL = 'model_checking'
TRACE = 'trace/Trace_Dir'
PROCESS_EVERY = 5         # every fifth case runs the command line as a real process (seams.PROC_VARIANTS)
RULE = ('case = one (directory, junk set, mode): the mode is run on the directory with and without the junk files it '
        'cannot decode; non-trivial = the junk set holds at least one regular file and the directory at least one PEL '
        'the mode shows; distinct = by (mode, junk kinds and positions, directory)')
ASSUMPTIONS = [
    'files unreadable at the OS level (permissions, dangling links) are outside the statement',
    'a corrupted file the mode can in fact decode is not junk for that mode (established by a stand-alone run)',
    'for -j standard output is expected to be empty (no document is printed in that mode)',
]
MODES = {'list': ['-l'], 'all': ['-a'], 'count': ['-n'], 'plid': ['--plid', '0x50000001'], 'src': ['--src', 'BD8D'],
         'json': ['-j'], 'hexlist': ['-l', '-x'], 'hexall': ['-a', '-x'], 'listE': ['-l', '-E'], 'allrev': ['-a', '-r'],
         'srcex': ['--src-exclude', '<exclude>'], 'bmcid': ['--bmc-id', '<bmc>'],
         'jsonhere': ['-j'],        # without -o: the results are written next to the inputs
         'countE': ['-n', '-E'], 'allE': ['-a', '-E', '-x']}     # -E selects every PEL - every PEL that IS one


def model_checks(tier):
    return [dict(module='mc/MC_Listing', cfg='mc/MC_Listing_code3', must_cover=['Step'])]


def cases(tier, seed, info):
    n = 64 if tier == 'quick' else 4000
    info['directory_junk_pairs'] = n
    return [dict(seed=seed * 4001 + k, k=k) for k in range(n)]


def _run(d, out_dir, mode):
    argv = ['-p', d] + MODES[mode]
    if mode == 'srcex':
        ex = os.path.join(os.path.dirname(d), 'exclude.txt')
        with open(ex, 'w') as f:
            f.write('BC8A1001\n')
        argv = ['-p', d, '--src-exclude', ex]
    if mode == 'bmcid':
        argv = ['-p', d, '--bmc-id', '4242']
    if mode == 'json':
        shutil.rmtree(out_dir, ignore_errors=True)
        os.makedirs(out_dir)
        argv += ['-o', out_dir]
    before = {}
    if mode == 'jsonhere':
        for fn in os.listdir(d):
            fp = os.path.join(d, fn)
            if os.path.isfile(fp):
                with open(fp, 'rb') as f:
                    before[fn] = f.read()
    res = seams.run_cli(argv)
    out = res['out'] or ''
    if mode in ('hexlist', 'hexall', 'allE'):
        wf = dirrun.hex_blocks(out) is not None
    elif mode in ('json', 'jsonhere'):
        wf = out.strip() == ''
    elif mode == 'bmcid':
        wf = dirrun.json_ok(out) or out.strip() == 'PEL not found'
    else:
        wf = dirrun.json_ok(out)
    files = {}
    if mode == 'json':
        for fn in sorted(os.listdir(out_dir)):
            with open(os.path.join(out_dir, fn), 'rb') as f:
                files[fn] = dirrun.sha(f.read().decode('utf-8', 'replace'))
    if mode == 'jsonhere':
        # the results: every file the run created or rewrote
        for fn in sorted(os.listdir(d)):
            fp = os.path.join(d, fn)
            if os.path.isfile(fp):
                with open(fp, 'rb') as f:
                    now = f.read()
                if before.get(fn) != now:
                    files[fn] = dirrun.sha(now.decode('utf-8', 'replace'))
    return dict(exit=res['exit'] if not res['uncaught'] else 99, out=dirrun.sha(out), wellformed=wf,
                stderr_empty=(res['err'] or '').strip() == '', files=files, text=out)


def _shows_something(r, mode):
    if r['exit'] != 0:
        return False            # a failing run shows nothing decodable; the failure itself is judged (ExitZero)
    t = r['text'].strip()
    if mode in ('count', 'countE'):
        try:
            return json.loads(t)['Number of PELs found'] != 0
        except Exception:
            return True
    if mode in ('json', 'jsonhere'):
        return bool(r['files'])
    if mode in ('hexlist', 'hexall', 'allE'):
        return t != ''
    if mode == 'bmcid':
        return t != 'PEL not found'
    try:
        return bool(json.loads(t))
    except Exception:
        return True


def run_case(case):
    rng = random.Random(case['seed'])
    if case['seed'] % 2:
        seams.install_registry()        # every second directory is shown with a message registry installed
    else:
        import pel.peltool.src as _src
        _src.registry.pels = []
    base = seams.scratch_dir('c09')
    d, dj, alone, outd = (os.path.join(base, x) for x in ('d', 'dj', 'alone', 'out'))
    n = rng.choice([1, 2, 3, 5, 8])
    pels, files = [], []
    for k in range(n):
        eid = 0x50000100 + k * 16 + rng.randrange(16)
        pel = dirrun.mk_pel(rng, eid, plid=0x50000001 if k % 2 == 0 else eid, ref=rng.choice(dirrun.REFS),
                            bmc=4242 if k == 0 else 5000 + k,
                            sev=rng.choice([0x40, 0x20, 0x00, 0x51]), flags=rng.choice([0x2000, 0x2000, 0x6000, 0x8000]),
                            creator=rng.choice(['O', 'O', 'B', 'H']))
        nm = '%s_%08X' % (rng.choice(['2023', 'm', 'B']), eid)
        files.append((nm, bytes(encode.encode(pel))))
        pels.append(pel)
    # junk
    junk = []
    kinds = rng.sample(dirrun.JUNK_KINDS, rng.randint(2, 5))
    for j, kind in enumerate(kinds):
        src = rng.choice(pels)
        data = dirrun.pce_size_junk(rng) if kind == 'pceSize' else \
            dirrun.callout_junk(rng, kind) if kind in ('pceSizeMore', 'calloutFlip') else dirrun.make_junk(rng, kind, src)
        nm = rng.choice(['0_first', '2023_middle', 'zz_last', 'M_mid', '~tail']) + '_%s_%d' % (kind, j)
        junk.append((nm, data, kind))
    if rng.random() < .5:
        # what an interrupted earlier `-j` leaves next to the inputs: a file under the very name of a log's result
        # (empty, cut off, or not text at all), written after the log
        k = rng.randrange(n)
        eid_k = encode.b2i(pels[k]['ph']['eid'])
        junk.append(('%s.%08X.json' % (files[k][0], eid_k),
                     rng.choice([b'', b'{\n    "Private Header": {\n        "Section Ver', b'\xff\xfe\x00junk', b'[]\n']),
                     'staleResult'))
    nested = []
    if rng.random() < .6:
        # one, two or three subdirectories (empty ones among them): what they hold - logs of their own, junk, a file
        # that carries the NAME of a top-level log with another log in it - is none of the directory modes' business
        for j, sub in enumerate(rng.sample(['archive', '0dir', 'zdir', 'Mid'], rng.choice([1, 2, 2, 3]))):
            kind = rng.choice(['empty', 'logs', 'namesake', 'logs']) if j else 'logs'
            if kind == 'empty':
                nested.append((sub + '/.keep_dir', ('mkdir', None)))
                continue
            nested.append((sub + '/inner_5F0000A%d' % (j + 1), bytes(encode.encode(dirrun.mk_pel(rng, 0x5F0000A1 + j, plid=0x50000001)))))
            nested.append((sub + '/deeper/x', b'\x00' * 10))
            if kind == 'namesake':
                nested.append((sub + '/' + files[0][0], bytes(encode.encode(dirrun.mk_pel(rng, 0x5F0000B1 + j, plid=0x50000001)))))
    recs = []
    for mode in MODES:
        dirrun.write_dir(d, files)
        b = _run(d, outd, mode)
        dirrun.write_dir(alone, [])
        e0 = _run(alone, outd, mode)
        use, jrec = [], []
        for nm, data, kind in junk:
            dirrun.write_dir(alone, [(nm, data)])
            a = _run(alone, outd, mode)
            dec = _shows_something(a, mode)
            if not dec:
                # a directory holding only this junk file: same output as the empty directory, exit 0
                recs.append(dict(family='C09', shape_ok=True, mode='json' if mode in ('json', 'jsonhere') else mode,
                                 junk=[dict(kind=kind, decodable_alone=False, used=True)], njunk=1, nested=False,
                                 base=dict(exit=e0['exit'], out=e0['out'], wellformed=e0['wellformed'], files=[]),
                                 **{'with': dict(exit=a['exit'], out=a['out'], wellformed=a['wellformed'], files=[],
                                                 extra_files=sorted(a['files']), stderr_empty=a['stderr_empty'])},
                                 shows=True, sample_out=a['text'][:200]))
            if not dec:
                use.append((nm, data))
            # whether a damaged file is still something a mode can show is established by running the mode on it alone -
            # except where the format itself says it is no PEL (one of the two mandatory headers is missing or cut)
            # (--bmc-id goes by the Private Header alone and prints nothing for such a file: not judged here)
            jrec.append(dict(kind=kind, decodable_alone=dec and mode != 'bmcid' and kind in ('badPHid', 'badUHid', 'truncInHeaders', 'empty'),
                             used=not dec))
        dirrun.write_dir(dj, files + use + nested)
        w = _run(dj, outd, mode)
        names = set(nm for nm, _ in files)
        wf = {k: v for k, v in w['files'].items() if any(k.startswith(nm + '.') for nm in names)}
        extra = sorted(k for k in w['files'] if k not in wf)
        recs.append(dict(family='C09', shape_ok=True, mode='json' if mode in ('json', 'jsonhere') else mode, junk=jrec,
                         njunk=len(use), nested=bool(nested),
                         base=dict(exit=b['exit'], out=b['out'], wellformed=b['wellformed'], files=sorted(b['files'].items())),
                         **{'with': dict(exit=w['exit'], out=w['out'], wellformed=w['wellformed'],
                                         files=sorted(wf.items()), extra_files=extra, stderr_empty=w['stderr_empty'])},
                         shows=_shows_something(b, mode), sample_out=w['text'][:200]))
    for p in (d, dj, alone, outd):
        shutil.rmtree(p, ignore_errors=True)
    return recs


def nontrivial(r):
    if r['njunk'] >= 1 and r['shows']:
        return (r['mode'], str(r['junk']), r['base']['out'])
    return None


def fingerprint(r, clauses):
    return 'C09:%s:%s' % (r['mode'], '+'.join(clauses))


def sample(r):
    return dict(mode=r['mode'], junk=[j['kind'] for j in r['junk'] if j['used']], nested_dirs=r['nested'],
                exit=r['with']['exit'], stdout_unchanged=r['with']['out'] == r['base']['out'])


def corrupt(r):
    r['with']['out'] = 'corrupted'
    return r
