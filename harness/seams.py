"""Seams through which the harness observes the real code without source hooks."""
import io
import os
import sys
import traceback


def scratch_dir(name=None):
    base = os.environ.get('VERIF_SCRATCH')
    if not base:
        raise RuntimeError('VERIF_SCRATCH not set')
    d = os.path.join(base, 'w%d' % os.getpid())
    if name:
        d = os.path.join(d, name)
    os.makedirs(d, exist_ok=True)
    return d


# ---------------------------------------------------------------------------
# the tool as a real process, in one of several ordinary environments
# ---------------------------------------------------------------------------
PROC_VARIANTS = ['plain', 'posix', 'opt', 'module', 'elsewhere', 'relative', 'tofile', 'nohome', 'tty_less']
# the order in which cases are dealt the environments: -O (no assert statements) is the one the statements name,
# and the one most deployments differ in - it gets every third turn
PROC_ROTATION = ['plain', 'opt', 'posix', 'module', 'opt', 'elsewhere', 'relative', 'opt', 'tofile', 'nohome', 'opt',
                 'tty_less']
_proc_variant = None
PROC_COUNTS = {}


def set_proc_variant(v):
    """None: run_cli works in-process; a name of PROC_VARIANTS: run_cli starts the real tool as a process"""
    global _proc_variant
    _proc_variant = v


def run_cli_proc(argv, variant='plain', timeout=120, tool='peltool'):
    """`peltool.py argv` as a real process.  Same result shape as run_cli (uncaught = the traceback, if any).
    plain: python <repo>/modules/pel/peltool/peltool.py, UTF-8 locale, stdout a pipe
    posix: LANG=C LC_ALL=C without Python's locale coercion / UTF-8 mode (stdout is ASCII)
    opt: python -O        module: python -m pel.peltool.peltool from an empty directory
    elsewhere: another current directory (with a blank in its path)        relative: started in the directory that holds the first path argument,
    that argument (and others below it) given as relative paths
    tofile: stdout and stderr are regular files      nohome: HOME and TMPDIR name nothing, no LANG at all
    tty_less: stdin closed"""
    import subprocess
    import tempfile
    repo = os.environ.get('VERIF_REPO', '/repo')
    script = os.path.join(repo, 'modules', *{'peltool': ('pel', 'peltool', 'peltool.py'), 'dump': ('io_drawer', 'dump.py')}[tool])
    module = {'peltool': 'pel.peltool.peltool', 'dump': 'io_drawer.dump'}[tool]
    env = {k: v for k, v in os.environ.items() if k not in ('PYTHONUTF8', 'PYTHONIOENCODING', 'PYTHONOPTIMIZE',
                                                            'LC_ALL', 'LANG', 'LC_CTYPE', 'PYTHONCOERCECLOCALE')}
    env['PYTHONPATH'] = os.path.join(repo, 'modules')
    env['PYTHONDONTWRITEBYTECODE'] = '1'
    env['LANG'] = 'C.UTF-8'
    cmd = [sys.executable, script]
    argv = [os.fspath(a) for a in argv]
    cwd = scratch_dir('proc')
    if variant == 'posix':
        env.update(LANG='C', LC_ALL='C', PYTHONCOERCECLOCALE='0', PYTHONUTF8='0')
    elif variant == 'opt':
        cmd = [sys.executable, '-O', script]
    elif variant == 'module':
        cmd = [sys.executable, '-m', module]
    elif variant == 'elsewhere':
        # (not / itself: the tool under test may be a changed copy that removes or writes files where it stands)
        cwd = os.path.join(scratch_dir('proc'), 'else where', 'deep')
        os.makedirs(cwd, exist_ok=True)
    elif variant == 'relative':
        paths = [a for a in argv if os.path.isabs(a) and os.path.exists(a)]
        if paths:
            cwd = os.path.dirname(paths[0].rstrip('/')) or '/'
            argv = [os.path.relpath(a, cwd) if os.path.isabs(a) and (a + '/').startswith(cwd.rstrip('/') + '/') else a
                    for a in argv]
    elif variant == 'nohome':
        env.pop('LANG', None)
        env.update(HOME='/nonexistent/verif-home', TMPDIR='/nonexistent/verif-tmp')
    PROC_COUNTS[variant] = PROC_COUNTS.get(variant, 0) + 1
    kw = dict(cwd=cwd, env=env, timeout=timeout, stdin=subprocess.DEVNULL)
    if variant == 'tty_less':
        kw['stdin'] = None
        kw['close_fds'] = True
    try:
        if variant == 'tofile':
            with tempfile.TemporaryFile() as fo, tempfile.TemporaryFile() as fe:
                p = subprocess.run(cmd + argv, stdout=fo, stderr=fe, **kw)
                fo.seek(0)
                fe.seek(0)
                out, err = fo.read(), fe.read()
        else:
            if variant == 'tty_less':
                kw['preexec_fn'] = lambda: os.close(0)
            p = subprocess.run(cmd + argv, stdout=subprocess.PIPE, stderr=subprocess.PIPE, **kw)
            out, err = p.stdout, p.stderr
        code = p.returncode
    except subprocess.TimeoutExpired:
        return dict(exit=99, out='', err='', uncaught='no result after %ds (process, %s)' % (timeout, variant), proc=variant)
    out, err = out.decode('utf-8', 'replace'), err.decode('utf-8', 'replace')
    return dict(exit=code, out=out, err=err, uncaught=err if 'Traceback (most recent call last)' in err else None,
                proc=variant)


def run_cli(argv, stdout=None, stderr=None):
    """peltool.main() in-process.  Returns dict(exit, out, err, uncaught)."""
    if _proc_variant and stdout is None and stderr is None:
        return run_cli_proc(argv, _proc_variant)
    import pel.peltool.peltool as pt
    old = (sys.argv, sys.stdout, sys.stderr)
    # standard output as it is in a UTF-8 terminal or pipe: text that cannot be encoded makes print() fail
    out = stdout if stdout is not None else _Utf8Out()
    err = stderr if stderr is not None else io.StringIO()
    sys.argv = ['peltool.py'] + list(argv)
    sys.stdout, sys.stderr = out, err
    code, uncaught = None, None
    try:
        try:
            pt.main()
            code = 0
        except SystemExit as e:
            if e.code is None:
                code = 0
            elif isinstance(e.code, int):
                code = e.code
            else:
                err.write(str(e.code) + '\n')
                code = 1
        except BaseException:
            uncaught = traceback.format_exc()
            code = 1
    finally:
        sys.argv, sys.stdout, sys.stderr = old
    return dict(exit=code,
                out=out.getvalue() if isinstance(out, (io.StringIO, _Utf8Out)) else None,
                err=err.getvalue() if isinstance(err, io.StringIO) else None,
                uncaught=uncaught)


class _Utf8Out(io.TextIOWrapper):
    def __init__(self):
        super().__init__(io.BytesIO(), encoding='utf-8', errors='strict', newline='\n', write_through=True)

    def getvalue(self):
        self.flush()
        return self.buffer.getvalue().decode('utf-8')


def write_file(path, data):
    with open(path, 'wb') as f:
        f.write(bytes(data))


# ---------------------------------------------------------------------------
# plugin seams
# ---------------------------------------------------------------------------
PLUGIN_PKGS = ('udparsers', 'srcparsers', 'calloutparsers')
_import_log = []
_orig_import_module = None


def install_fixture_plugins():
    """udparsers / srcparsers / calloutparsers are regular packages bound to the repo:
    fixture modules are found only after appending to the package __path__."""
    import importlib
    here = os.path.join(os.path.dirname(os.path.abspath(__file__)), 'fixtures')
    if here not in sys.path:
        sys.path.append(here)
    for pkg in PLUGIN_PKGS:
        m = importlib.import_module(pkg)
        p = os.path.join(here, 'plugins', pkg)
        if p not in list(m.__path__):
            m.__path__.append(p)
    importlib.invalidate_caches()


def install_import_recorder():
    """records every importlib.import_module(name) made while decoding"""
    global _orig_import_module
    import importlib
    if _orig_import_module is None:
        _orig_import_module = importlib.import_module

        def recording(name, package=None):
            _import_log.append(name)
            return _orig_import_module(name, package)
        importlib.import_module = recording
    return _import_log


def plugin_modules_loaded():
    return sorted(k for k in sys.modules if k.split('.')[0] in PLUGIN_PKGS and '.' in k)


def clear_plugin_caches(unload=False):
    import pel.peltool.parse_user_data as pud
    import pel.peltool.src as srcmod
    pud.userDataParsers.clear()
    srcmod.srcParsers.clear()
    srcmod.calloutParsers.clear()
    try:
        import srcparsers.osrc.osrc as osrc
        osrc.osrcParsers.clear()
    except Exception:
        pass
    if unload:
        for k in plugin_modules_loaded():
            if k != 'srcparsers.osrc.osrc' or True:
                del sys.modules[k]


# ---------------------------------------------------------------------------
# a message registry and component names as environment (the sandbox has none installed)
# ---------------------------------------------------------------------------
REGISTRY = [
    dict(SRC=dict(ReasonCode='0x2030', Type='BD', Words6To9={'6': dict(Description='rail number', AdditionalDataPropSource='RAIL'),
                                                            '8': dict(AdditionalDataPropSource='NODESC')}),
         Documentation=dict(Message='Power fault on rail %1, status word %2', MessageArgSources=['SRCWord6', 'SRCWord7'])),
    dict(SRC=dict(ReasonCode='0x00AC', Type='11'),
         Documentation=dict(Message='Fan %1 failed', MessageArgSources=['SRCWord9'])),
    dict(SRC=dict(ReasonCode='0x8A01', Type='BC'), Documentation=dict(Message='No arguments in this message')),
    dict(SRC=dict(ReasonCode='0x2031'),
         Documentation=dict(Message='%1 then %2 then %3', MessageArgSources=['SRCWord3', 'SRCWord5', 'SRCWord3'])),
]


def install_registry():
    import pel.peltool.src as srcmod
    import pel.peltool.comp_id as comp_id
    import copy
    srcmod.registry.pels = copy.deepcopy(REGISTRY)
    comp_id.componentIDs.clear()
    comp_id.componentIDs.update({'O': {'1000': 'bmc common function', '2700': 'bmc power', '3500': 'bmc fan'},
                                 'B': {'0100': 'hb trace'}})
    comp_id.attemptedToParseCompIDs = True


COMP_TABLES = {'O': {'1000': 'bmc common function', '2000': 'bmc error logging', '3000': 'bmc state', 'ABCD': 'bmc letters'},
               'B': {'0100': 'hb trace', '0200': 'hb errl', '2000': 'hb twenty'},
               'M': {'2C00': 'drawer firmware'}}


def install_comp_tables(dirpath, tables=None):
    """component names as the tool finds them itself: <creator>_component_ids.json files under its configuration
    root, read by its own loader on first use (the loader state is reset)"""
    import json
    import pel.peltool.comp_id as comp_id
    tables = COMP_TABLES if tables is None else tables
    os.makedirs(dirpath, exist_ok=True)
    for fn in os.listdir(dirpath):
        os.remove(os.path.join(dirpath, fn))
    for cr, t in tables.items():
        with open(os.path.join(dirpath, cr + '_component_ids.json'), 'w') as f:
            json.dump(t, f)
    with open(os.path.join(dirpath, 'message_registry.json'), 'w') as f:     # a neighbour file that is not a table
        json.dump({'PELs': []}, f)
    comp_id.pelConfigRootPath = dirpath
    comp_id.componentIDs.clear()
    comp_id.attemptedToParseCompIDs = False
    return [dict(creator=ord(cr), comp=[ord(c) for c in k], name=[ord(c) for c in v])
            for cr, t in sorted(tables.items()) for k, v in sorted(t.items())]


def no_comp_tables():
    import pel.peltool.comp_id as comp_id
    comp_id.componentIDs.clear()
    comp_id.attemptedToParseCompIDs = True
