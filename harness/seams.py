"""Seams through which the harness observes the real code without source hooks."""
import io
import os
import sys
import traceback


def scratch_dir(name=None):
    base = os.environ.get('VERIF_SCRATCH')
    if not base:
        raise RuntimeError('VERIF_SCRATCH not set')
    d = os.path.join(base, 'w%d' % os.getpid())
    if name:
        d = os.path.join(d, name)
    os.makedirs(d, exist_ok=True)
    return d


def run_cli(argv, stdout=None, stderr=None):
    """peltool.main() in-process.  Returns dict(exit, out, err, uncaught)."""
    import pel.peltool.peltool as pt
    old = (sys.argv, sys.stdout, sys.stderr)
    out = stdout if stdout is not None else io.StringIO()
    err = stderr if stderr is not None else io.StringIO()
    sys.argv = ['peltool.py'] + list(argv)
    sys.stdout, sys.stderr = out, err
    code, uncaught = None, None
    try:
        try:
            pt.main()
            code = 0
        except SystemExit as e:
            if e.code is None:
                code = 0
            elif isinstance(e.code, int):
                code = e.code
            else:
                err.write(str(e.code) + '\n')
                code = 1
        except BaseException:
            uncaught = traceback.format_exc()
            code = 1
    finally:
        sys.argv, sys.stdout, sys.stderr = old
    return dict(exit=code,
                out=out.getvalue() if isinstance(out, io.StringIO) else None,
                err=err.getvalue() if isinstance(err, io.StringIO) else None,
                uncaught=uncaught)


def write_file(path, data):
    with open(path, 'wb') as f:
        f.write(bytes(data))
