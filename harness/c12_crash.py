"""Crash-point replay for C12: run the real `-j -c` / `-f -c` path in THIS (sub)process and kill the
process (os._exit, no clean-up, buffers lost) at one chosen point of the output protocol.
argv: repo mode(json|file) input_path out_dir crash_point stdout_capture_path
crash points: before_open after_open after_write1 after_writes before_close after_close before_remove after_remove
              (file mode: before_print after_print after_flush before_remove after_remove)
The parent inspects the disk afterwards: input present?  output complete?"""
import builtins
import os
import sys


def main():
    repo, mode, in_path, out_dir, point, cap = sys.argv[1:7]
    sys.path.insert(0, os.path.join(repo, 'modules'))
    import pel.peltool.peltool as pt

    def crash_if(p):
        if p == point:
            os._exit(137)

    real_open, real_remove = builtins.open, os.remove

    class F:
        def __init__(self, real):
            self.real, self.n = real, 0

        def write(self, s):
            r = self.real.write(s)
            self.n += 1
            if self.n == 1:
                crash_if('after_write1')
            return r

        def writelines(self, lines):
            for x in lines:
                self.write(x)
            crash_if('after_writes')

        def flush(self):
            self.real.flush()

        def close(self):
            crash_if('before_close')
            self.real.close()
            crash_if('after_close')

        def __enter__(self):
            return self

        def __exit__(self, *a):
            self.close()
            return False

    def fake_open(file, mode_='r', *a, **kw):
        if isinstance(file, str) and os.path.dirname(os.path.abspath(file)) == os.path.abspath(out_dir) and 'w' in mode_:
            crash_if('before_open')
            f = F(real_open(file, mode_, *a, **kw))
            crash_if('after_open')
            return f
        return real_open(file, mode_, *a, **kw)

    def fake_remove(path, *a, **kw):
        if os.path.abspath(path) == os.path.abspath(in_path):
            crash_if('before_remove')
            r = real_remove(path, *a, **kw)
            crash_if('after_remove')
            return r
        return real_remove(path, *a, **kw)

    builtins.open, os.remove = fake_open, fake_remove
    if mode == 'json':
        sys.argv = ['peltool.py', '-p', os.path.dirname(in_path), '-j', '-o', out_dir, '-c']
    else:
        # stdout is a block-buffered file: what is not flushed when the process dies is lost
        cap_f = real_open(cap, 'w', buffering=1 << 16)

        class Out:
            def write(self, s):
                crash_if('before_print')
                r = cap_f.write(s)
                return r

            def flush(self):
                crash_if('after_print')
                cap_f.flush()
                crash_if('after_flush')
        sys.stdout = Out()
        sys.argv = ['peltool.py', '-f', in_path, '-c']
    try:
        pt.main()
    except SystemExit:
        pass
    if mode == 'file':
        try:
            cap_f.flush()
        except Exception:
            pass
    os._exit(0)


if __name__ == '__main__':
    main()
