"""Runs ONE stand-alone I/O drawer decoder in a fresh interpreter (the oracle of C18's plug-in routing: a process that
has decoded nothing else).  stdin: JSON {"repo", "sub", "ver", "hex"} -> stdout: JSON {"lines": [...]}"""
import json
import sys


def main():
    job = json.load(sys.stdin)
    sys.path.insert(0, job['repo'] + '/modules')
    from io_drawer.drawer_type import DRAWER_TYPES
    from io_drawer.hlog import parse_hlog_data
    from io_drawer.ilog import parse_ilog_data
    from io_drawer.trace import parse_trace_data
    mv = memoryview(bytes.fromhex(job['hex']))
    dt = [d for d in DRAWER_TYPES if d.user_data_version == job['ver']][0]
    if job['sub'] == 72:
        lines = parse_hlog_data(mv, dt.get_header_file_path())
    elif job['sub'] == 73:
        lines = parse_ilog_data(mv, dt.get_header_file_path())
    else:
        lines = parse_trace_data(mv, dt.get_trace_string_file_path())
    print(json.dumps(dict(lines=lines)))


if __name__ == '__main__':
    main()
