"""Fixture user-data parser (verification harness).  Behaviour: ok"""
import json
import verif_fixture

NAME = 'y2000'


def parseUDToJson(subType, version, data):
    raw = bytes(data)
    verif_fixture.CALLS.append(('ud', NAME, subType, version, raw))
    beh = 'ok'
    if beh == 'prog':
        beh = {0: 'ok', 1: 'nondict', 2: 'none', 3: 'raise', 4: 'importerror', 5: 'raise_empty'}.get(raw[0] % 8 if raw else 0, 'ok')
    if beh == 'ok':
        return json.dumps({'Fixture Parser': NAME, 'Fixture Subtype': subType, 'Fixture Version': version,
                           'Fixture Payload': raw.hex()})
    if beh == 'nondict':
        return json.dumps([NAME, subType, version, raw.hex()])
    if beh == 'none':
        return None
    if beh == 'raise':
        raise verif_fixture.failure(NAME, raw)
    if beh == 'raise_empty':
        raise ValueError          # an exception whose message is empty
    if beh == 'importerror':
        import verif_fixture_missing_dependency   # noqa: F401  (does not exist)
    raise RuntimeError('unknown behaviour')
