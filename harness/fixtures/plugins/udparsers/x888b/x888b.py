"""Fixture parser module that exists but fails while being loaded (verification harness)."""
def parseUDToJson(subType, version, data)   # SyntaxError while loading: no colon
