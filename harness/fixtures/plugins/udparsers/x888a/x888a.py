"""Fixture parser module that exists but fails while being loaded (verification harness)."""
FIXTURE_TABLE = open('/nonexistent/verif-fixture-data-table.json').read()   # FileNotFoundError while loading
