"""Fixture parser module that exists but fails while being loaded (verification harness)."""
FIXTURE_TABLE = undefined_name_at_module_level   # NameError while loading
