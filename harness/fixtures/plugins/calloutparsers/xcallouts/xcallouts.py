"""Fixture maintenance-procedure descriptions (verification harness)."""
import json
import verif_fixture


def getMaintProcDesc(procedure):
    verif_fixture.CALLS.append(('callout', 'xcallouts', procedure))
    if procedure == 'FIX0001':
        return json.dumps(['Fixture procedure one.'])
    if procedure == 'FIXBOOM':
        raise ValueError('fixture callout parser refuses')
    if procedure.startswith('FIXB'):          # FIXB000 .. FIXB023: every kind of failure text
        raise verif_fixture.failure('xcallouts', procedure)
    if procedure == 'FIXEMPT':
        raise ValueError
    if procedure == 'FIXIMPT':
        import verif_fixture_missing_dependency   # noqa: F401
    if procedure == 'FIXJUNK':
        return '{not json'
    return ''
