"""Fixture parser module that exists but fails while being loaded (verification harness)."""
raise RuntimeError('fixture: this SRC parser module cannot be loaded')
