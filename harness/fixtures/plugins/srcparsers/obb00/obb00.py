"""Fixture SRC parser (verification harness).  Behaviour: raise"""
import json
import verif_fixture

NAME = 'obb00'


def parseSRCToJson(refcode, word2, word3, word4, word5, word6, word7, word8, word9):
    words = [word2, word3, word4, word5, word6, word7, word8, word9]
    verif_fixture.CALLS.append(('src', NAME, refcode, words))
    beh = 'raise'
    if beh == 'prog':
        beh = {'0': 'ok', '1': 'null', '2': 'empty', '3': 'raise', '4': 'importerror', '5': 'raise_empty', '6': 'pynone'}.get(word2[-1], 'ok')
    if beh == 'ok':
        return json.dumps({'Fixture SRC Parser': NAME, 'Fixture Refcode': refcode, 'Fixture Words': words})
    if beh == 'null':
        return json.dumps(None)
    if beh == 'empty':
        return ''
    if beh == 'pynone':
        return None               # a parser that returns nothing at all
    if beh == 'raise':
        raise verif_fixture.failure(NAME, ''.join(words))
    if beh == 'raise_empty':
        raise ValueError
    if beh == 'importerror':
        import verif_fixture_missing_dependency   # noqa: F401
    raise RuntimeError('unknown behaviour')
