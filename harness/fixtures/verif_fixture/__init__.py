"""Shared state of the fixture parser modules: a log of every call they receive."""
CALLS = []


def reset():
    del CALLS[:]


# What a failing parser raises: the exception type and - above all - its TEXT vary with the data of the call
# (a handler that formats, splits, slices or re-parses the text must cope with every one of them).
class FixtureError(Exception):
    def __str__(self):
        return 'custom __str__ with {braces} and %s'


FAILURES = [
    lambda n: ValueError('fixture parser %s refuses this section' % n),
    lambda n: ValueError('{id}'),
    lambda n: ValueError('{}'),
    lambda n: ValueError('unexpected entry {'),
    lambda n: ValueError("unexpected entry {'id': 7, 'x': [1, 2]}"),
    lambda n: ValueError('closing } only'),
    lambda n: ValueError('{0} {1} {version} {compID}'),
    lambda n: ValueError('%s and %d and 100% and %(name)s'),
    lambda n: ValueError('line one\nline two\n'),
    lambda n: ValueError('\n'),
    lambda n: ValueError('non-ASCII é中\U0001F600'),
    lambda n: ValueError('"quoted": {"a": 1}, \\ backslash'),
    lambda n: ValueError('x' * 3000),
    lambda n: KeyError('missing key'),
    lambda n: KeyError(),
    lambda n: IndexError('list index out of range'),
    lambda n: AssertionError(),
    lambda n: ZeroDivisionError('division by zero'),
    lambda n: UnicodeDecodeError('utf-8', b'\xff\xfe', 0, 1, 'invalid start byte'),
    lambda n: FixtureError(),
    lambda n: ValueError(7, {'a': 1}),
    lambda n: OSError(28, 'No space left on device'),
    lambda n: RecursionError('maximum recursion depth exceeded'),
    lambda n: TypeError("unsupported operand type(s) for +: 'int' and 'str'"),
]


def failure(name, data=b''):
    data = bytes(data) if not isinstance(data, str) else data.encode('utf-8', 'replace')
    return FAILURES[(sum(data) + len(data)) % len(FAILURES)](name)
