"""Shared state of the fixture parser modules: a log of every call they receive."""
CALLS = []


def reset():
    del CALLS[:]
