"""Encoder of the abstract PEL syntax (mirror of spec/PelFormat.tla!Encode).

The abstract syntax is JSON-able: every multi-byte quantity is a list of byte
values (TLC integers are 32 bit; see DESIGN.md 3.4).  The encoder itself is
judged by TLC (clause EncoderAgrees: bytes = PelFormat!Encode(abs)), so a bug
here cannot hide or fake a defect.
"""


def u16(n):
    return [(n >> 8) & 0xFF, n & 0xFF]


def u32(n):
    return [(n >> 24) & 0xFF, (n >> 16) & 0xFF, (n >> 8) & 0xFF, n & 0xFF]


def b2i(bs):
    n = 0
    for b in bs:
        n = (n << 8) | b
    return n


def text(s, width=None, pad=0):
    bs = [ord(c) for c in s]
    if width is not None:
        assert len(bs) <= width, (s, width)
        bs = bs + [pad] * (width - len(bs))
    return bs


def fru_bytes(f):
    out = []
    if f.get('pn') is not None:
        out += f['pn']
    if f.get('ccin') is not None:
        out += f['ccin']
    if f.get('sn') is not None:
        out += f['sn']
    size = 4 + len(out)
    return [0x49, 0x44, size, f['flags']] + out


def pce_bytes(p):
    body = p['mtm'] + p['sn'] + p['name']
    size = 4 + len(body)
    return [0x50, 0x45, size, p['flags']] + body


def mru_bytes(m):
    body = list(m['res'])
    for it in m['items']:
        body += it['prio'] + it['id']
    size = 4 + len(body)
    return [0x4D, 0x52, size, (m['flags_hi'] & 0xF0) | (len(m['items']) & 0x0F)] + body


def callout_bytes(c):
    body = list(c['loc'])
    for tag in c.get('order') or ['ID', 'PE', 'MR']:
        if tag == 'ID':
            body += fru_bytes(c['fru'])
        elif tag == 'PE' and c.get('pce') is not None:
            body += pce_bytes(c['pce'])
        elif tag == 'MR' and c.get('mru') is not None:
            body += mru_bytes(c['mru'])
    size = 4 + len(body)
    return [size, c['flags'], c['prio'], len(c['loc'])] + body


def callouts_bytes(cs):
    body = []
    for c in cs['list']:
        body += callout_bytes(c)
    total = 4 + len(body)
    assert total % 4 == 0, 'callout subsection must be word aligned'
    return [cs['id'], cs['flags']] + u16(total // 4) + body


def body_bytes(sec):
    k = sec['kind']
    if k == 'SRC':
        co = callouts_bytes(sec['callouts']) if sec.get('callouts') is not None else []
        words = []
        for w in sec['words']:
            words += w
        size = 72 + len(co)
        return ([sec['srcver'], sec['flags'], sec['res1'], sec['wc']] + sec['res2'] + u16(size)
                + words + sec['ascii'] + co)
    if k == 'EH':
        return (sec['mtm'] + sec['sn'] + sec['fw'] + sec['subfw'] + sec['res'] + sec['reftime']
                + sec['res3'] + [len(sec['symptom'])] + sec['symptom'])
    if k == 'MT':
        return sec['mtm'] + sec['sn']
    if k == 'LP':
        out = sec['partid'] + [len(sec['name']), len(sec['targets'])] + sec['loglog'] + sec['name']
        for t in sec['targets']:
            out += t
        if len(sec['targets']) % 2:
            out += sec.get('pad', [0, 0])
        return out
    if k == 'ED':
        return [sec['creator']] + sec['res'] + sec['payload']
    if k in ('UD', 'OTHER'):
        return list(sec['payload'])
    raise ValueError(k)


def section_bytes(sec):
    body = body_bytes(sec)
    ln = 8 + len(body)
    assert ln <= 0xFFFF
    return sec['id'] + u16(ln) + [sec['ver'], sec['sub']] + sec['comp'] + body


def ph_bytes(ph, nsecs):
    count = ph.get('count')
    if count is None:
        count = 2 + nsecs
    body = (ph['create'] + ph['commit'] + [ph['creator']] + ph['res'] + [count] + ph['bmc']
            + ph['cssver'] + ph['plid'] + ph['eid'])
    return [0x50, 0x48] + u16(48) + [ph['ver'], ph['sub']] + ph['comp'] + body


def uh_bytes(uh):
    body = ([uh['subsys'], uh['scope'], uh['sev'], uh['etype']] + uh['res'] + [uh['pdomain'], uh['pvector']]
            + uh['flags'] + uh['states'])
    return [0x55, 0x48] + u16(24) + [uh['ver'], uh['sub']] + uh['comp'] + body


def encode(pel):
    out = ph_bytes(pel['ph'], len(pel['secs'])) + uh_bytes(pel['uh'])
    for s in pel['secs']:
        out += section_bytes(s)
    return out


def layout(pel):
    """Offsets at which each section starts (PH, UH, then the optional ones), plus end."""
    offs = [0, 48, 72]
    for s in pel['secs']:
        offs.append(offs[-1] + len(section_bytes(s)))
    return offs


# ---------------------------------------------------------------------------
# convenience builders used by the drivers (values supplied by the caller's RNG)
# ---------------------------------------------------------------------------

def bcd(n):
    return ((n // 10) << 4) | (n % 10)


def bcd_time(year, mon, day, hh, mm, ss, cc=0):
    return [bcd(year // 100), bcd(year % 100), bcd(mon), bcd(day), bcd(hh), bcd(mm), bcd(ss), bcd(cc)]


def mk_ph(creator=ord('O'), eid=0x50000001, plid=0x50000001, bmc=1, create=None, commit=None,
          comp=0x2000, ver=1, sub=0, cssver=None):
    return dict(ver=ver, sub=sub, comp=u16(comp),
                create=create or bcd_time(2023, 3, 8, 18, 40, 27, 11),
                commit=commit or bcd_time(2024, 12, 31, 23, 59, 58, 99),
                creator=creator, res=[0, 0], bmc=u32(bmc),
                cssver=cssver or [0, 0, 0, 0, 0, 0, 0, 0], plid=u32(plid), eid=u32(eid))


def mk_uh(sev=0x40, flags=0x2000, subsys=0x8D, scope=0x03, etype=0x00, comp=0x2000, states=0,
          ver=1, sub=0):
    return dict(ver=ver, sub=sub, comp=u16(comp), subsys=subsys, scope=scope, sev=sev, etype=etype,
                res=[0, 0, 0, 0], pdomain=0, pvector=0, flags=u16(flags), states=u32(states))


def mk_src(refcode='BD8D1002', words=None, flags=0, wc=9, callouts=None, sid='PS', comp=0x1000,
           ver=1, sub=1, srcver=2):
    words = words or [u32(0x00000055 | (i << 28)) for i in range(8)]
    if callouts is not None:
        flags |= 0x01
    return dict(kind='SRC', id=text(sid), ver=ver, sub=sub, comp=u16(comp), srcver=srcver,
                flags=flags, res1=0, wc=wc, res2=[0, 0], words=words,
                ascii=text(refcode, 32, 0x20), callouts=callouts)


def mk_ud(payload, comp=0x9999, sub=0x55, ver=1, sid='UD'):
    return dict(kind='UD' if sid == 'UD' else 'OTHER', id=text(sid), ver=ver, sub=sub, comp=u16(comp),
                payload=list(payload))


def mk_pel(ph=None, uh=None, secs=None):
    return dict(ph=ph or mk_ph(), uh=uh or mk_uh(), secs=secs if secs is not None else [mk_src()])
