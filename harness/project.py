"""Projection: real output of the tool -> the record shapes of spec/PelDisplay.tla.

Kept mechanical: string -> code points, hex / decimal string -> bytes, list -> list.
Anything that does not have the expected JSON type raises ShapeError; the driver then
marks the record shape_ok = false and the judge rejects it with clause "Shape".
This module never consults pel_values.py.
"""
import hashlib
import json


class ShapeError(Exception):
    pass


def cp(s):
    if not isinstance(s, str):
        raise ShapeError('expected string, got %r' % (s,))
    return [ord(c) for c in s]


def _int(x):
    if isinstance(x, bool) or not isinstance(x, int):
        raise ShapeError('expected int, got %r' % (x,))
    if not -1 < x < 2 ** 31:
        raise ShapeError('int out of range %r' % (x,))
    return x


def numbytes(s, n, base=16):
    """'0x1234' / '1234' / decimal string -> n big-endian bytes (numeric comparison)"""
    if isinstance(s, int) and not isinstance(s, bool):
        v = s
    else:
        if not isinstance(s, str):
            raise ShapeError('expected numeric string, got %r' % (s,))
        t = s.strip()
        try:
            v = int(t, base)
        except ValueError:
            raise ShapeError('not a base-%d number: %r' % (base, s))
    if v < 0 or v >= 256 ** n:
        raise ShapeError('number %r does not fit %d bytes' % (s, n))
    return list(v.to_bytes(n, 'big'))


def smallnum(s, base=16):
    b = numbytes(s, 4, base)
    return int.from_bytes(bytes(b), 'big') if b[0] < 0x80 else _raise('number too large %r' % (s,))


def _raise(msg):
    raise ShapeError(msg)


def _str(x):
    if not isinstance(x, str):
        raise ShapeError('expected string, got %r' % (x,))
    return x


def get(e, k):
    if not isinstance(e, dict) or k not in e:
        raise ShapeError('missing key %r' % (k,))
    return e[k]


def opt_text(e, k):
    return cp(e[k]) if k in e else [-1]


def opt_bytes(e, k):
    """a shown text as the bytes it stands for (its UTF-8 encoding: for ASCII the code points themselves)"""
    if k not in e:
        return [-1]
    if not isinstance(e[k], str):
        raise ShapeError('expected string, got %r' % (e[k],))
    return list(e[k].encode('utf-8', 'surrogatepass'))


def opt_flag(e, k):
    if k not in e:
        return 'absent'
    v = _str(e[k])
    if v not in ('True', 'False'):
        raise ShapeError('%s: %r is neither True nor False' % (k, v))
    return v


def ph(e):
    return dict(ver=_int(get(e, 'Section Version')), sub=_int(get(e, 'Sub-section type')),
                createdby=cp(get(e, 'Created by')), created=cp(get(e, 'Created at')),
                committed=cp(get(e, 'Committed at')), creator=_str(get(e, 'Creator Subsystem')),
                cssver=numbytes(get(e, 'CSSVER'), 8), plid=numbytes(get(e, 'Platform Log Id'), 4),
                eid=numbytes(get(e, 'Entry Id'), 4), bmc=numbytes(get(e, 'BMC Event Log Id'), 4, 10))


def uh(e):
    fl = get(e, 'Action Flags')
    if not isinstance(fl, list):
        raise ShapeError('Action Flags is not a list')
    return dict(ver=_int(get(e, 'Section Version')), sub=_int(get(e, 'Sub-section type')),
                committedby=cp(get(e, 'Log Committed by')), subsystem=_str(get(e, 'Subsystem')),
                scope=_str(get(e, 'Event Scope')), severity=_str(get(e, 'Event Severity')),
                etype=_str(get(e, 'Event Type')), flags=[_str(x) for x in fl],
                host=_str(get(e, 'Host Transmission')), hmc=_str(get(e, 'HMC Transmission')))


def eh(e):
    return dict(ver=_int(get(e, 'Section Version')), sub=_int(get(e, 'Sub-section type')),
                createdby=cp(get(e, 'Created by')), mtm=cp(get(e, 'Reporting Machine Type')),
                sn=cp(get(e, 'Reporting Serial Number')), fw=cp(get(e, 'FW Released Ver')),
                subfw=cp(get(e, 'FW SubSys Version')), reftime=cp(get(e, 'Common Ref Time')),
                symlen=smallnum(get(e, 'Symptom Id Len'), 10), symptom=cp(get(e, 'Symptom Id')))


def mt(e):
    return dict(ver=_int(get(e, 'Section Version')), sub=_int(get(e, 'Sub-section type')),
                createdby=cp(get(e, 'Created by')), mtm=cp(get(e, 'Machine Type Model')),
                sn=cp(get(e, 'Serial Number')))


def lp(e):
    targets = []
    for k, v in e.items():
        if k.startswith('Target LP') and k != 'Target LP Count':
            vals = v if isinstance(v, list) else [v]
            for x in vals:
                targets.append(numbytes(x, 2))
    return dict(ver=_int(get(e, 'Section Version')), sub=_int(get(e, 'Sub-section type')),
                createdby=cp(get(e, 'Created by')), partid=numbytes(get(e, 'Primary Partition ID'), 2),
                namelen=smallnum(get(e, 'Length of LP Name')), count=smallnum(get(e, 'Target LP Count')),
                loglog=numbytes(get(e, 'Logical Partition Log ID'), 4),
                name=cp(get(e, 'Primary Partition Name')), targets=targets)


def callout(c):
    if not isinstance(c, dict):
        raise ShapeError('callout is not an object')
    return dict(frutype=_str(get(c, 'FRU Type')), prio=_str(get(c, 'Priority')),
                loc=opt_bytes(c, 'Location Code'), pn=opt_text(c, 'Part Number'), proc=opt_text(c, 'Procedure'),
                ccin=opt_text(c, 'CCIN'), sn=opt_text(c, 'Serial Number'), pcemtms=opt_text(c, 'PCE MTMS'),
                pcename=opt_text(c, 'PCE Name'), mruid=opt_text(c, 'MRU Id'))


def src(e):
    words = []
    for k, v in e.items():
        if k.startswith('Hex Word '):
            n = int(k[len('Hex Word '):])
            words.append([n] + numbytes(v, 4))
    callouts = []
    if 'Callout Section' in e:
        cs = e['Callout Section']
        lst = get(cs, 'Callouts')
        if not isinstance(lst, list):
            raise ShapeError('Callouts is not a list')
        callouts = [dict(count=_int(get(cs, 'Callout Count')), list=[callout(c) for c in lst])]
    return dict(ver=_int(get(e, 'Section Version')), sub=_int(get(e, 'Sub-section type')),
                createdby=cp(get(e, 'Created by')), srcver=smallnum(get(e, 'SRC Version')),
                format=smallnum(get(e, 'SRC Format')), virt=opt_flag(e, 'Virtual Progress SRC'),
                i5=opt_flag(e, 'I5/OS Service Event Bit'), hyp=opt_flag(e, 'Hypervisor Dump Initiated'),
                ccin=numbytes(e['Backplane CCIN'], 2) if 'Backplane CCIN' in e else [-1],
                term=opt_flag(e, 'Terminate FW Error'), deconf=opt_flag(e, 'Deconfigured'),
                guarded=opt_flag(e, 'Guarded'), wc=smallnum(get(e, 'Valid Word Count')),
                refcode=cp(get(e, 'Reference Code')), words=words, callouts=callouts)


def message(e):
    """registry message of an SRC entry: [] or code points"""
    if 'Error Details' not in e:
        return [-1]
    return cp(get(e['Error Details'], 'Message'))


PROJECTORS = {'SRC': src, 'EH': eh, 'MT': mt, 'LP': lp}


def digest(obj):
    return hashlib.sha1(json.dumps(obj, sort_keys=False).encode()).hexdigest()[:20]


def to_wire(pel):
    """abstract PEL of genpel/encode -> the JSON shape PelFormat.tla expects (None -> [], optional
    records wrapped in 0/1-element lists, count filled in)"""
    def fru(f):
        return dict(flags=f['flags'], pn=f['pn'] or [], ccin=f['ccin'] or [], sn=f['sn'] or [])

    def co(c):
        return dict(flags=c['flags'], prio=c['prio'], loc=c['loc'], fru=fru(c['fru']),
                    pce=[c['pce']] if c.get('pce') is not None else [],
                    mru=[c['mru']] if c.get('mru') is not None else [],
                    order=list(c.get('order') or ['ID', 'PE', 'MR']))

    def sec(s):
        s = dict(s)
        if s['kind'] == 'SRC':
            cs = s.get('callouts')
            s['callouts'] = [dict(id=cs['id'], flags=cs['flags'], list=[co(c) for c in cs['list']])] \
                if cs is not None else []
        if s['kind'] == 'LP' and 'pad' not in s:
            s['pad'] = [0, 0]
        return s
    ph_ = dict(pel['ph'])
    if ph_.get('count') is None:
        ph_['count'] = 2 + len(pel['secs'])
    return dict(ph=ph_, uh=pel['uh'], secs=[sec(s) for s in pel['secs']])
