"""Decode one abstract PEL with the real parsePEL and record everything the PEL judges need."""
import io
import json
import sys

from . import encode, project
from .traced import make_traced_stream_class

_TS = None


def _ts():
    global _TS
    if _TS is None:
        _TS = make_traced_stream_class()
    return _TS


def decode(data, plugins=False, every=True, allow_proc=False, hexcfg=False):
    """returns dict(outcome, doc (OrderedDict or None), final_index, boundaries, events, stderr, stdout)
    allow_proc: when the case at hand runs the tool as a real process (seams.set_proc_variant) and no parser
    plug-in is wanted, decode through `peltool -f` in that process instead (no cursor events then)"""
    from . import seams
    if allow_proc and not plugins and every and seams._proc_variant:
        return dict(decode_cli(data, plugins), cursor_seen=False)
    import pel.peltool.peltool as pt
    from pel.peltool.config import Config
    cfg = Config()
    cfg.every_pel = every
    cfg.allow_plugins = plugins
    if hexcfg:
        cfg.hex = True            # (-x rides along, as it does when -j is given with it: the decode is the decode)
    st = _ts()(bytes(data))
    bounds = []
    orig = pt.sectionFun

    def spy(stream, *a, **kw):
        start = stream.index - 8
        r = orig(stream, *a, **kw)
        bounds.append([start, stream.index])
        return r
    old = sys.stdout, sys.stderr
    sys.stdout, sys.stderr = io.StringIO(), io.StringIO()
    pt.sectionFun = spy
    outcome, doc, detail, text = 'error', None, '', ''
    try:
        try:
            eid, js = pt.parsePEL(st, cfg, False)
            text = js if isinstance(js, str) else ''
            if js:
                doc = json.loads(js)
                outcome = 'doc'
            else:
                outcome = 'empty'
        except Exception as e:
            detail = '%s: %s' % (type(e).__name__, e)
    finally:
        pt.sectionFun = orig
        so, se = sys.stdout.getvalue(), sys.stderr.getvalue()
        sys.stdout, sys.stderr = old
    return dict(outcome=outcome, doc=doc, detail=detail[:300], final_index=st.index, boundaries=bounds,
                events=st.ev, stdout=so, stderr=se, text=text)


def full_digest(res):
    """the result of one decode as a string: the document AND the exact text it was handed out as (alignment
    blanks included: two texts that parse to equal documents are still two results)"""
    import hashlib
    if res['doc'] is not None:
        return project.digest(res['doc']) + '/' + hashlib.sha1(res.get('text', '').encode('utf-8', 'surrogatepass')).hexdigest()[:12]
    return res['outcome'] + ':' + res['detail'].split(':')[0]


def decode_cli(data, plugins=False):
    """the same decode through the real command line (`peltool -f <file> -E [-P]`, in-process): what the OPTIONS
    do is part of what is observed.  Same result shape as decode(), without cursor events."""
    import os
    from . import seams
    path = os.path.join(seams.scratch_dir('pelrun'), 'one.pel')
    seams.write_file(path, bytes(data))
    saved = seams._proc_variant
    if plugins:
        seams.set_proc_variant(None)         # the fixture parser packages exist in THIS process only
    try:
        res = seams.run_cli(['-f', path, '-E'] + ([] if plugins else ['-P']))
    finally:
        seams.set_proc_variant(saved)
    os.remove(path)
    outcome, doc, detail = 'error', None, ''
    if res['uncaught']:
        detail = res['uncaught'].strip().splitlines()[-1]
    else:
        text = res['out'] or ''
        if text.strip():
            try:
                doc = json.loads(text)
                outcome = 'doc'
            except ValueError as e:
                detail = 'stdout is not JSON: %s' % e
        else:
            outcome = 'empty' if res['exit'] == 0 and not (res['err'] or '').strip() else 'error'
            detail = (res['err'] or '').strip().splitlines()[-1] if (res['err'] or '').strip() else ''
    return dict(outcome=outcome, doc=doc, detail=detail[:300], final_index=-1, boundaries=[], events=[],
                stdout=res['out'] or '', stderr=res['err'] or '')


KIND_PROJ = {'SRC': project.src, 'EH': project.eh, 'MT': project.mt, 'LP': project.lp}


def observe(pel, family, plugins=False, standalone=True, env=None, extra=None, res=None):
    """pel: abstract PEL (genpel/encode shape).  Returns one record for Trace_Pel."""
    wire = project.to_wire(pel)
    data = encode.encode(pel)
    inproc_only = bool(env and (env.get('names') or env.get('registry')))     # tables installed in THIS process
    if res is None:
        res = decode(data, plugins, allow_proc=not inproc_only)
    else:                                   # a decode made elsewhere (fresh interpreter): JSON keeps the key order
        res = dict(res, events=[], stderr='')
    rec = dict(family=family, shape_ok=True, abs=wire, bytes=data, outcome=res['outcome'],
               detail=res['detail'], final_index=res['final_index'], boundaries=res['boundaries'],
               keys=[], shown=dict(ph={}, uh={}, secs=[]), digests=[], alone=[],
               env=env or dict(names=[], registry=[]), stdout_len=len(res['stdout']) if res.get('cursor_seen', True) else 0,
               cursor_seen=bool(res.get('cursor_seen', True)))
    if extra:
        rec.update(extra)
    doc = res['doc']
    if doc is None:
        return rec
    try:
        keys = list(doc.keys())
        rec['keys'] = keys
        entries = [doc[k] for k in keys]
        rec['digests'] = [project.digest(e) for e in entries[2:]]
        if len(entries) >= 2:
            rec['shown']['ph'] = project.ph(entries[0])
            rec['shown']['uh'] = project.uh(entries[1])
        shown = []
        for s, e in zip(pel['secs'], entries[2:]):
            pj = KIND_PROJ.get(s['kind'])
            shown.append(pj(e) if pj and family in ('C02', 'C03') else {})
        rec['shown']['secs'] = shown
        if family == 'C03':
            rec['messages'] = [project.message(e) if s['kind'] == 'SRC' else [-1]
                               for s, e in zip(pel['secs'], entries[2:])]
    except (project.ShapeError, ValueError, TypeError, KeyError, AttributeError) as e:
        rec['shape_ok'] = False
        rec['shape_error'] = repr(e)[:300]
        return rec
    if standalone:
        alone = []
        for s in pel['secs']:
            mini = dict(ph=dict(pel['ph'], count=3), uh=pel['uh'], secs=[s])
            r1 = decode(encode.encode(mini), plugins, allow_proc=not inproc_only)
            if r1['doc'] is not None and len(r1['doc']) == 3:
                alone.append(project.digest(list(r1['doc'].values())[2]))
            else:
                alone.append('undecodable-alone:' + r1['detail'][:60])
        rec['alone'] = alone
    return rec
