"""TracedStream: a DataStream subclass that logs every cursor movement (seam, no source hook).
Methods call super(), so the real (possibly edited) range checks still run."""


def make_traced_stream_class():
    from pel.datastream import DataStream

    class TracedStream(DataStream):
        def __init__(self, data):
            object.__setattr__(self, 'ev', [])
            object.__setattr__(self, 'depth', 0)
            object.__setattr__(self, '_i', 0)
            super().__init__(data, byte_order='big', is_signed=False)

        @property
        def index(self):
            return self._i

        @index.setter
        def index(self, v):
            old = self._i
            object.__setattr__(self, '_i', v)
            if self.depth == 0 and v != old:
                self.ev.extend((2, _clip(v - old), old, v, _clip(v - old), 0))

        def _call(self, op, fn, n):
            before = self._i
            self.depth += 1
            try:
                try:
                    r = fn(n)
                finally:
                    self.depth -= 1
            except BaseException:
                if self.depth == 0:
                    self.ev.extend((op, _clip(n), before, self._i, 0, 1))
                raise
            if self.depth == 0:
                got = len(r) if op == 0 else self._i - before
                self.ev.extend((op, _clip(n), before, self._i, got, 0))
            return r

        def get_mem(self, n):
            return self._call(0, super().get_mem, n)

        def inc_index(self, n):
            return self._call(1, super().inc_index, n)

    return TracedStream


def _clip(n):
    if not isinstance(n, int):
        return -99999
    return max(-100000, min(100000, n))
