"""Run TLC in its three roles (MC / Gen / Judge) and parse what it prints.

Every verdict reported by ./check is TLC's: this module only starts TLC, shards
record files, and reads back the lines TLC printed (`<<"REJECT", id, {clauses}>>`,
`<<"JUDGED", n, rejected, diameter>>`, state counts, coverage).  A TLC run that
fails for any reason other than a property violation (SANY error, evaluation
error, timeout) raises MachineryError, which ./check maps to exit status 2.
"""
import json
import os
import re
import shutil
import subprocess
import tempfile
import time
from concurrent.futures import ThreadPoolExecutor

VERIF = os.path.dirname(os.path.dirname(os.path.abspath(__file__)))
SPEC = os.path.join(VERIF, 'spec')
JAR = '/opt/veriftools/tla/tla2tools.jar'
DEPS = '/opt/veriftools/tla/CommunityModules-deps.jar'


class MachineryError(Exception):
    pass


class TlcResult:
    def __init__(self):
        self.exit = None
        self.out = ''
        self.generated = 0
        self.distinct = 0
        self.depth = 0
        self.violated = None      # name of violated invariant / property, if any
        self.error = None         # other TLC error text
        self.coverage = {}        # action name -> (count, distinct)
        self.wall = 0.0
        self.printed = []         # lines produced by PrintT (raw)


_STATES_RE = re.compile(r'(\d+) states generated, (\d+) distinct states found')
_DEPTH_RE = re.compile(r'The depth of the complete state graph search is (\d+)')
_COV_RE = re.compile(r'^<(\w+) line \d+, col \d+ to line \d+, col \d+ of module (\w+)>: (\d+):(\d+)')
_INV_RE = re.compile(r'Error: Invariant (\S+) is violated')
_PROP_RE = re.compile(r'Error: (Action property|Temporal properties|Property) ?(\S*)')
_POST_RE = re.compile(r'Error: Postcondition (\S+) ')


def _printed_tuples(text):
    """Values printed by PrintT(<<"TAG", ...>>).  TLC wraps long values over several
    lines (and then writes `<< "TAG",`), so match brackets over the whole output and
    re-join each value on one line in the compact form `<<"TAG", 1, {"A", "B"}>>`."""
    out = []
    for m in re.finditer(r'(?m)^<< ?"', text):
        k = m.start()
        depth, j, instr = 0, k, False
        while j < len(text):
            c = text[j]
            if instr:
                if c == '\\':
                    j += 1
                elif c == '"':
                    instr = False
            elif c == '"':
                instr = True
            elif text.startswith('<<', j):
                depth += 1
                j += 1
            elif text.startswith('>>', j):
                depth -= 1
                j += 1
                if depth == 0:
                    break
            j += 1
        chunk = ' '.join(x.strip() for x in text[k:j + 1].splitlines())
        chunk = re.sub(r'<< ', '<<', chunk)
        chunk = re.sub(r' >>', '>>', chunk)
        chunk = re.sub(r'\{ ', '{', chunk)
        chunk = re.sub(r' \}', '}', chunk)
        out.append(chunk)
    return out


def _spec_path_dirs():
    return [SPEC, os.path.join(SPEC, 'mc'), os.path.join(SPEC, 'gen'), os.path.join(SPEC, 'trace')]


def prove(module, timeout=600):
    """Re-checks the TLAPS proofs of spec/<module>.tla with tlapm (in a scratch directory).
    -> dict(module, proved, obligations, wall_s[, reason]).  The proofs are statements about the SPECIFICATION
    only - no change to the code under test can make them fail - so the outcome is reported (log line, evidence key
    tlaps_proofs) and never turns into a verdict or a machinery failure of the check: a missing tlapm binary or a
    back end timing out on a loaded machine must not break a check whose verdict does not depend on it."""
    import shutil
    d = tempfile.mkdtemp(prefix='verif-prove-')
    t0 = time.time()
    try:
        for fn in os.listdir(SPEC):           # the module and whatever it EXTENDS
            if fn.endswith('.tla') and fn != 'TLAPS.tla':
                shutil.copy(os.path.join(SPEC, fn), d)
        try:
            p = subprocess.run(['tlapm', module + '.tla'], cwd=d, stdout=subprocess.PIPE, stderr=subprocess.STDOUT,
                               text=True, timeout=timeout)
        except (OSError, subprocess.TimeoutExpired) as e:
            return dict(module=module, proved=False, obligations=0, wall_s=round(time.time() - t0, 1),
                        reason='tlapm could not be run: %r' % (e,))
        m = re.search(r'All (\d+) obligations? proved', p.stdout)
        if not m:
            f = re.search(r'(\d+)/(\d+) obligations failed', p.stdout)
            return dict(module=module, proved=False, obligations=int(f.group(2)) if f else 0,
                        wall_s=round(time.time() - t0, 1),
                        reason=(f.group(0) if f else 'no result line') + ': ' + p.stdout[-300:].replace('\n', ' '))
        return dict(module=module, proved=True, obligations=int(m.group(1)), wall_s=round(time.time() - t0, 1))
    finally:
        shutil.rmtree(d, ignore_errors=True)


def tlc_cmd(module_path, cfg_path, workers=1, metadir=None, extra=(), xmx='3g', xss='64m', deque=False):
    libpath = os.pathsep.join(_spec_path_dirs())
    cmd = ['java', '-XX:+UseParallelGC', '-Xmx' + xmx, '-Xss' + xss,
           '-DTLA-Library=' + libpath]
    if metadir:
        cmd.append('-Djava.io.tmpdir=' + metadir)         # (TLC leaves an empty tlc-<n> directory per run in the temp dir)
    if deque:
        cmd.append('-Dtlc2.tool.queue.IStateQueue=StateDeque')
    cmd += ['-cp', JAR + ':' + DEPS, 'tlc2.TLC', '-noGenerateSpecTE',
            '-workers', str(workers), '-metadir', metadir, '-config', cfg_path]
    cmd += list(extra)
    cmd.append(module_path)
    return cmd


def run_tlc(module, cfg=None, workers=1, env=None, extra=(), timeout=1800, scratch=None,
            xmx='3g', coverage=False, allow_violation=False, cwd=None):
    """module: path relative to spec/ without .tla (e.g. 'mc/MC_Selection')."""
    module_path = os.path.join(SPEC, module + '.tla')
    cfg_path = os.path.join(SPEC, (cfg or module) + '.cfg')
    own = scratch is None
    scratch = scratch or tempfile.mkdtemp(prefix='verif-tlc-')
    metadir = tempfile.mkdtemp(prefix='meta-', dir=scratch)
    extra = list(extra)
    if coverage:
        extra += ['-coverage', '1']
    cmd = tlc_cmd(module_path, cfg_path, workers, metadir, extra, xmx=xmx)
    e = dict(os.environ)
    e.pop('JAVA_TOOL_OPTIONS', None)
    if env:
        e.update({k: str(v) for k, v in env.items()})
    res = TlcResult()
    t0 = time.time()
    try:
        p = subprocess.run(cmd, stdout=subprocess.PIPE, stderr=subprocess.STDOUT, env=e,
                           timeout=timeout, cwd=cwd or scratch, text=True, errors='replace')
    except subprocess.TimeoutExpired as ex:
        out = ex.stdout or ''
        if isinstance(out, bytes):
            out = out.decode('utf-8', 'replace')
        raise MachineryError('TLC timeout after %ss on %s\n%s' % (timeout, module, out[-2000:]))
    finally:
        shutil.rmtree(metadir, ignore_errors=True)
        if own:
            shutil.rmtree(scratch, ignore_errors=True)
    res.wall = time.time() - t0
    res.exit = p.returncode
    res.out = p.stdout
    for line in p.stdout.splitlines():
        m = _STATES_RE.search(line)
        if m:
            res.generated, res.distinct = int(m.group(1)), int(m.group(2))
        m = _DEPTH_RE.search(line)
        if m:
            res.depth = int(m.group(1))
        m = _COV_RE.match(line)
        if m:
            name = m.group(1)
            c, d = int(m.group(3)), int(m.group(4))
            old = res.coverage.get(name, (0, 0))
            res.coverage[name] = (old[0] + c, old[1] + d)
        m = _INV_RE.search(line)
        if m:
            res.violated = m.group(1)
        m = _POST_RE.search(line)
        if m:
            res.violated = 'POST:' + m.group(1)
        if line.startswith('Error: Action property') or line.startswith('Error: Temporal properties'):
            res.violated = res.violated or 'PROPERTY'
    res.printed = _printed_tuples(p.stdout)
    if res.violated is None and p.returncode != 0:
        res.error = p.stdout[-4000:]
    if res.error and not allow_violation:
        raise MachineryError('TLC failed on %s (exit %s):\n%s' % (module, p.returncode, res.error))
    if res.error:
        raise MachineryError('TLC failed on %s (exit %s):\n%s' % (module, p.returncode, res.error))
    return res


def model_check(module, cfg=None, workers=16, timeout=1800, must_cover=(), env=None, xmx='8g',
                extra=()):
    """MC role.  Returns TlcResult; raises MachineryError if the model itself is
    violated (the committed model must be green: after a fix: commit the Impl
    action is the repaired step) or if an action in must_cover was never taken."""
    r = run_tlc(module, cfg, workers=workers, timeout=timeout, coverage=True, env=env, xmx=xmx,
                extra=extra, allow_violation=True)
    if r.violated:
        raise MachineryError('model %s violates %s on its own (model/spec bug):\n%s'
                             % (module, r.violated, r.out[-3000:]))
    for a in must_cover:
        if r.coverage.get(a, (0, 0))[0] == 0:
            raise MachineryError('vacuity: action %s of %s never taken (coverage %s)'
                                 % (a, module, r.coverage))
    return r


_REJ_RE = re.compile(r'^<<"REJECT", (.+?), (\{.*\})>>$')
_JUD_RE = re.compile(r'^<<"JUDGED", (\d+), (\d+), (\d+)>>$')
_NOTE_RE = re.compile(r'^<<"NOTE", (.+)>>$')


def _parse_set_of_strings(s):
    return sorted(re.findall(r'"([^"]*)"', s))


def judge(trace_module, records, shards=16, timeout=3600, env=None, scratch=None, xmx='3g',
          cfg=None, group_key=None):
    """Judge role.  records: list of JSON-able dicts, each with a unique 'id'
    (int).  Records sharing group_key(record) are kept in the same shard in their
    original order (stateful traces).  Returns dict(judged, rejected=[(id, [clauses])],
    states, transitions, wall)."""
    t0 = time.time()
    own = scratch is None
    scratch = scratch or tempfile.mkdtemp(prefix='verif-judge-')
    try:
        if not records:
            return dict(judged=0, rejected=[], states=0, transitions=0, wall=0.0, notes=[])
        # shard
        if group_key is None:
            groups = [[r] for r in records]
        else:
            gm = {}
            order = []
            for r in records:
                k = group_key(r)
                if k not in gm:
                    gm[k] = []
                    order.append(k)
                gm[k].append(r)
            groups = [gm[k] for k in order]
        shards = max(1, min(shards, len(groups)))
        buckets = [[] for _ in range(shards)]
        sizes = [0] * shards
        # greedy balance by serialized size
        weighted = [(sum(len(json.dumps(r)) for r in g), idx, g) for idx, g in enumerate(groups)]
        if group_key is None:
            # keep order, round-robin
            for idx, g in enumerate(groups):
                buckets[idx % shards].extend(g)
        else:
            for w, idx, g in sorted(weighted, key=lambda x: -x[0]):
                b = sizes.index(min(sizes))
                buckets[b].extend(g)
                sizes[b] += w
        files = []
        for b, recs in enumerate(buckets):
            if not recs:
                continue
            path = os.path.join(scratch, 'shard%02d.ndjson' % b)
            with open(path, 'w') as f:
                for r in recs:
                    f.write(json.dumps(r, separators=(',', ':')) + '\n')
            files.append((path, len(recs)))

        def one(item):
            path, n = item
            e = {'TRACE_FILE': path}
            if env:
                e.update(env)
            r = run_tlc(trace_module, cfg, workers=1, env=e, timeout=timeout, scratch=scratch,
                        xmx=xmx, allow_violation=True)
            rejected = []
            judged = None
            notes = []
            for line in r.printed:
                m = _REJ_RE.match(line)
                if m:
                    rid = m.group(1)
                    try:
                        rid = int(rid)
                    except ValueError:
                        rid = rid.strip('"')
                    rejected.append((rid, _parse_set_of_strings(m.group(2))))
                    continue
                m = _JUD_RE.match(line)
                if m:
                    judged = (int(m.group(1)), int(m.group(2)), int(m.group(3)))
                    continue
                m = _NOTE_RE.match(line)
                if m:
                    notes.append(m.group(1))
            if judged is None:
                raise MachineryError('judge %s printed no JUDGED line for %s:\n%s'
                                     % (trace_module, path, r.out[-3000:]))
            if judged[0] != n or judged[2] - 1 != n:
                raise MachineryError('judge %s consumed %s of %s records (%s)'
                                     % (trace_module, judged[2] - 1, n, path))
            if judged[1] != len(rejected):
                raise MachineryError('judge %s: rejected count %s != REJECT lines %s'
                                     % (trace_module, judged[1], len(rejected)))
            if (r.violated is None) != (len(rejected) == 0):
                raise MachineryError('judge %s: postcondition/REJECT mismatch:\n%s'
                                     % (trace_module, r.out[-2000:]))
            return dict(judged=n, rejected=rejected, states=r.distinct, transitions=r.generated,
                        notes=notes)

        with ThreadPoolExecutor(max_workers=len(files)) as ex:
            parts = list(ex.map(one, files))
        out = dict(judged=sum(p['judged'] for p in parts),
                   rejected=[x for p in parts for x in p['rejected']],
                   states=sum(p['states'] for p in parts),
                   transitions=sum(p['transitions'] for p in parts),
                   notes=[x for p in parts for x in p['notes']],
                   wall=time.time() - t0)
        return out
    finally:
        if own:
            shutil.rmtree(scratch, ignore_errors=True)


def generate(module, cfg=None, out_name='cases.ndjson', workers=1, simulate=None, seed=0,
             timeout=1800, scratch=None, env=None, xmx='4g', depth=None):
    """Gen role: run TLC on a Gen_* instance that appends NDJSON lines to the file
    named by env GEN_FILE.  Returns (list of parsed cases, TlcResult)."""
    own = scratch is None
    scratch = scratch or tempfile.mkdtemp(prefix='verif-gen-')
    try:
        path = os.path.join(scratch, out_name)
        if os.path.exists(path):
            os.remove(path)
        open(path, 'w').close()
        e = {'GEN_FILE': path}
        if env:
            e.update(env)
        extra = []
        if simulate:
            extra += ['-simulate', 'num=%d' % simulate, '-seed', str(seed)]
            if depth:
                extra += ['-depth', str(depth)]
        r = run_tlc(module, cfg, workers=workers, env=e, extra=extra, timeout=timeout,
                    scratch=scratch, xmx=xmx, allow_violation=True)
        if r.violated:
            raise MachineryError('generator %s reported a violation %s:\n%s'
                                 % (module, r.violated, r.out[-2000:]))
        cases = []
        with open(path) as f:
            for line in f:
                line = line.strip()
                if line:
                    cases.append(json.loads(line))
        return cases, r
    finally:
        if own:
            shutil.rmtree(scratch, ignore_errors=True)
