"""Seeded generator of abstract, well-formed PELs (the syntax of spec/PelFormat.tla).

TLC enumerates *structure* (Gen_* instances); this module fills structures with
field values: boundary values plus seeded random bytes, chosen so that
neighbouring fields are always distinguishable (DESIGN.md 3.3).
"""
import json

from .encode import u16, u32, text, bcd_time

HEXDUMP_IDS = ['DH', 'SW', 'LR', 'HM', 'EP', 'IE', 'MI', 'CH', 'EI']
UNKNOWN_IDS = ['XX', 'ZZ', 'ID', 'PE', 'MR', 'ph', 'A1', '\x01\x02']
CREATORS = ['O', 'B', 'H', 'M', 'C', 'K', 'L', 'P', 'S', 'T', 'X', 'a', '9', 'Z']
PRINTABLE = [chr(c) for c in range(0x20, 0x7F)]
ALNUM = 'ABCDEFGHIJKLMNOPQRSTUVWXYZ0123456789'


def rbytes(rng, n):
    return [rng.randrange(256) for _ in range(n)]


def rtext(rng, n, alphabet=ALNUM):
    return ''.join(rng.choice(alphabet) for _ in range(n))


def padded(rng, width, minlen=1, alphabet=ALNUM, pad=0):
    """printable text of random length, NUL padded to width; first/last chars non-blank"""
    n = rng.choice([minlen, width, rng.randint(minlen, width)])
    return text(rtext(rng, n, alphabet), width, pad)


def rtime(rng):
    return bcd_time(rng.randint(1970, 2099), rng.randint(1, 12), rng.randint(1, 28), rng.randint(0, 23),
                    rng.randint(0, 59), rng.randint(0, 59), rng.randint(0, 99))


def rid32(rng):
    k = rng.randrange(6)
    if k == 0:
        return u32(rng.randrange(1, 0x10000000))          # fewer than 8 hex digits
    if k == 1:
        return u32(rng.randrange(0x80000000, 0x100000000))
    if k == 2:
        return u32(rng.choice([0, 1, 0xFF, 0x100, 0x0FFFFFFF, 0x10000000, 0x7FFFFFFF, 0x80000000,
                               0xFFFFFFFF]))
    return rbytes(rng, 4)


def gen_ph(rng, creator=None, eid=None):
    c = creator if creator is not None else rng.choice(CREATORS)
    t1, t2 = rtime(rng), rtime(rng)
    while t2 == t1:
        t2 = rtime(rng)
    comp = rbytes(rng, 2)
    if c == 'H':
        comp = rng.choice([text(rtext(rng, 2)), [0, rng.randrange(256)], [rng.randrange(1, 256), 0],
                           text(rtext(rng, 2)), [rng.randrange(0x80, 256), rng.randrange(1, 256)],
                           [rng.randrange(1, 256), rng.randrange(0x80, 256)]])
    return dict(ver=rng.randrange(256), sub=rng.randrange(256), comp=comp, create=t1, commit=t2,
                creator=ord(c), res=[0, 0], bmc=rid32(rng), cssver=rbytes(rng, 8), plid=rid32(rng),
                eid=eid if eid is not None else rid32(rng))


def gen_uh(rng, sev=None, flags=None):
    return dict(ver=rng.randrange(256), sub=rng.randrange(256), comp=rbytes(rng, 2),
                subsys=rng.randrange(256), scope=rng.randrange(8) if rng.random() < .7 else rng.randrange(256),
                sev=rng.randrange(256) if sev is None else sev,
                etype=rng.choice([0, 1, 2, 8, 0x30, rng.randrange(256)]),
                res=rbytes(rng, 4), pdomain=rng.randrange(256), pvector=rng.randrange(256),
                flags=u16(rng.randrange(65536)) if flags is None else u16(flags),
                states=[rng.randrange(256), rng.randrange(256), rng.choice([0, 1, 2, 3, 4, 0xFF]),
                        rng.choice([0, 1, 2, 3, 7, 0x80])])


def hdr(rng, sid, comp=None):
    return dict(id=text(sid), ver=rng.randrange(256), sub=rng.randrange(256),
                comp=comp if comp is not None else rbytes(rng, 2))


def gen_fru(rng, variant=None):
    """variant: subset of 'p' (part number) 'm' (maintenance procedure) 'c' (ccin) 's' (serial)"""
    if variant is None:
        variant = rng.choice(['', 'p', 'm', 'pc', 'ps', 'pcs', 'mc', 'ms', 'mcs', 'c', 's', 'cs', 'pm', 'pmc', 'pmcs'])
    fl = rng.choice([0x10, 0x20, 0x30, 0x40, 0x90, 0xA0, 0xB0, 0xC0, 0xE0, 0x00, 0x50, 0xF0])
    f = dict(flags=fl, pn=None, ccin=None, sn=None)
    if 'p' in variant:
        f['flags'] |= 0x08
        f['pn'] = padded(rng, 8)
        if 'm' in variant:
            f['flags'] |= 0x02        # both flags: the ONE 8-byte field is part number and procedure at once
    elif 'm' in variant:
        f['flags'] |= 0x02
        f['pn'] = text(rng.choice(['BMC0001', 'BMC0002', 'BMC0008', 'BMC0009', 'XYZ1234', 'A']), 8)
    if 'c' in variant:
        f['flags'] |= 0x04
        f['ccin'] = padded(rng, 4)
    if 's' in variant:
        f['flags'] |= 0x01
        f['sn'] = padded(rng, 12)
    return f


def gen_callout(rng, shape=None):
    """shape: dict(fru=variant, pce=None|namelen, mru=None|count, loc=len)"""
    from .encode import callout_bytes
    shape = dict(shape) if shape else None
    for attempt in range(200):
        c = _gen_callout(rng, shape)
        if len(callout_bytes(c)) <= 255:      # the callout size field is one byte
            return c
        if shape is not None and attempt >= 3:
            # the requested combination cannot fit: shorten the location code, then the MRU list
            if shape.get('loc', 0) > 0:
                shape['loc'] = max(0, shape['loc'] - 20)
            elif shape.get('mru'):
                shape['mru'] = shape['mru'] - 1
    raise RuntimeError('cannot build callout %r' % (shape,))


def _gen_callout(rng, shape=None):
    shape = shape or {}
    loclen = shape.get('loc', rng.choice([0, 4, 8, 12, 20, 40, 80]))
    loc = text(rtext(rng, max(0, loclen - rng.choice([0, 1, 2, 3]) if loclen else 0),
                     ALNUM + '-.'), loclen) if loclen else []
    if loclen and not any(loc):
        loc = text('U', loclen)
    if loclen >= 8 and rng.random() < .12:
        # a location code with characters that take two or three bytes each (the length byte counts BYTES)
        body = ('U78D' + rng.choice(['\u00e9', '\u20ac', '\u00b5\u00df', '\u4e2d\u00e9'])).encode('utf-8')
        body = body + rtext(rng, max(0, loclen - len(body) - rng.choice([0, 1, 3])), ALNUM).encode()
        loc = list(body[:loclen]) if len(body[:loclen].decode('utf-8', 'ignore').encode()) == len(body[:loclen]) else loc
        loc = (loc + [0] * loclen)[:loclen]
    c = dict(flags=rng.randrange(256), prio=rng.choice([0x48, 0x4D, 0x41, 0x42, 0x43, 0x4C, 0x00, 0x5A]),
             loc=loc, fru=gen_fru(rng, shape.get('fru')), pce=None, mru=None)
    pce = shape.get('pce', rng.choice([None, None, 1, 4, 9]))
    if pce is not None:
        c['pce'] = dict(flags=rng.randrange(256), mtm=padded(rng, 8) if rng.random() < .8 else [0] * 8,
                        sn=padded(rng, 12),
                        name=text(rtext(rng, pce)) if pce else [])
        if pce:
            # name is NUL padded to a multiple of 4 by the platform
            c['pce']['name'] = text(rtext(rng, pce), (pce + 3) // 4 * 4)
    mru = shape.get('mru', rng.choice([None, None, 0, 1, 2, 15]))
    if mru is not None:
        c['mru'] = dict(flags_hi=rng.choice([0, 0x10, 0xF0]), res=rbytes(rng, 4),
                        items=[dict(prio=rbytes(rng, 4), id=rbytes(rng, 4)) for _ in range(mru)])
    if rng.random() < .2:
        # the substructures in another order than FRU identity, PCE identity, MRU
        c['order'] = rng.choice([['ID', 'MR', 'PE'], ['PE', 'ID', 'MR'], ['MR', 'ID', 'PE'], ['PE', 'MR', 'ID'], ['MR', 'PE', 'ID']])
    return c


def gen_src(rng, sid='PS', ncallouts=None, kind=None, shapes=None):
    kind = kind or rng.choice(['BD', '11', 'BC', 'other'])
    if kind == 'other':
        ref = rtext(rng, 8)
        while ref[:2] in ('BD', '11', 'BC'):
            ref = rtext(rng, 8)
    else:
        ref = kind + rtext(rng, 6, '0123456789ABCDEF')
    ref = ref + rtext(rng, rng.choice([0, 0, 8, 24]), ALNUM)
    words = []
    for i in range(8):
        w = rbytes(rng, 4)
        w[0] = (w[0] & 0x0F) | ((i + 8) << 4) & 0xF0 if rng.random() < .5 else w[0]
        words.append(w)
    if ncallouts is None:
        ncallouts = rng.choice([None, None, 0, 1, 2, 3])
    elif ncallouts < 0:
        ncallouts = None
    callouts = None
    if ncallouts is not None:
        lst = [gen_callout(rng, shapes[i] if shapes else None) for i in range(ncallouts)]
        if not shapes and len(lst) >= 2 and rng.random() < .25:      # the same callout listed twice
            import copy
            a, b = rng.sample(range(len(lst)), 2)
            lst[b] = copy.deepcopy(lst[a])
        callouts = dict(id=0xC0, flags=rng.randrange(256), list=lst)
    flags = rng.randrange(256) & 0xFE
    if callouts is not None:
        flags |= 1
    s = hdr(rng, sid)
    s.update(kind='SRC', srcver=rng.randrange(256), flags=flags, res1=rng.randrange(256),
             wc=rng.choice([9, 9, 9, 1, 2, 5, 8, 0]), res2=rbytes(rng, 2), words=words,
             ascii=text(ref, 32, 0x20), callouts=callouts)
    return s


def gen_eh(rng):
    s = hdr(rng, 'EH')
    symlen = rng.choice([0, 4, 8, 20, 80, 255, rng.randrange(256)])
    sym = text(rtext(rng, max(0, symlen - rng.choice([0, 1, 3])), ALNUM + '_'), symlen) if symlen else []
    if symlen and not any(sym):
        sym = text('S', symlen)
    s.update(kind='EH', mtm=text(rtext(rng, 8), 8), sn=padded(rng, 12), fw=padded(rng, 16),
             subfw=padded(rng, 16), res=rbytes(rng, 4), reftime=rtime(rng), res3=rbytes(rng, 3),
             symptom=sym)
    return s


def gen_mt(rng):
    s = hdr(rng, 'MT')
    s.update(kind='MT', mtm=padded(rng, 8), sn=padded(rng, 12))
    return s


def gen_lp(rng, ntargets=None, namelen=None):
    s = hdr(rng, 'LP')
    if ntargets is None:
        ntargets = rng.choice([0, 1, 2, 3, 4, 7, 255, rng.randrange(256)])
    if namelen is None:
        namelen = rng.choice([0, 4, 5, 8, 16, 255, rng.randrange(256)])
    name = text(rtext(rng, max(1, namelen - rng.choice([0, 1, 2]))), namelen) if namelen else []
    targets = []
    seen = set()
    for _ in range(ntargets):
        t = rng.randrange(65536)
        while t in seen:
            t = rng.randrange(65536)
        seen.add(t)
        targets.append(u16(t))
    s.update(kind='LP', partid=rbytes(rng, 2), loglog=rbytes(rng, 4), name=name, targets=targets,
             pad=rbytes(rng, 2))
    return s


# characters that text-handling code tends to treat specially: non-ASCII, and everything str.splitlines()
# regards as a line boundary besides \n
WEIRD = '\u00e9\u4e2d\u0085\u2028\u2029\x0b\x0c\x1c\x1d\x1e\r\t\x7f\U0001F600\ud83d\udc00'      # (the last two: lone surrogates)


def weird_text(rng, n, alphabet):
    return ''.join(rng.choice(WEIRD) if rng.random() < .3 else rng.choice(alphabet) for _ in range(n))


def gen_json_value(rng, depth=0):
    k = rng.randrange(7 if depth < 3 else 4)
    if k == 0:
        return rng.randrange(-1000, 100000)
    if k == 1:
        if rng.random() < .2:
            return weird_text(rng, rng.randrange(1, 12), ALNUM + ' ":{}')
        return rtext(rng, rng.randrange(0, 12), ALNUM + ' ":{}[]\\,\'/')
    if k == 2:
        return rng.choice([True, False, None, 1.5])
    if k == 3:
        return rtext(rng, rng.randrange(1, 6))
    if k == 4:
        return [gen_json_value(rng, depth + 1) for _ in range(rng.randrange(0, 4))]
    return {(weird_text(rng, rng.randrange(1, 8), ALNUM + ' ":') if rng.random() < .1 else
             rtext(rng, rng.randrange(1, 8), ALNUM + ' ":{}\\')): gen_json_value(rng, depth + 1)
            for _ in range(rng.randrange(0, 4))}


def gen_hostile_json_ud(rng):
    """BMC JSON user data whose strings hold the characters output code trips over (non-ASCII, line separators,
    lone surrogates ...), at least one of them for certain"""
    s = hdr(rng, 'UD')
    ch = rng.choice(WEIRD + '\ud83d\udc00\ud83d')          # lone surrogates are the most hostile of them
    doc = {'k' + rng.choice(['', ch]): 'v' + ch + rtext(rng, rng.randrange(0, 6), ALNUM),
           'list': [weird_text(rng, rng.randrange(1, 8), ALNUM + ' ":'), ch * rng.randrange(1, 4)]}
    if rng.random() < .25:
        doc['reading'] = 'VERIF-NUMBER'
    try:
        raw = json.dumps(doc, ensure_ascii=rng.random() < .6).encode('utf-8')
    except UnicodeEncodeError:
        raw = json.dumps(doc).encode('utf-8')
    # numbers no float can hold, and the tokens some writers use for them: text that is JSON to a lenient reader only
    raw = raw.replace(b'"VERIF-NUMBER"', rng.choice([b'1E400', b'-1e999', b'NaN', b'Infinity', b'-Infinity', b'1E308',
                                                     b'123456789012345678901234567890', b'0.1E-400']))
    raw += b'\x00' * ((-len(raw)) % 4)
    s.update(kind='UD', comp=[0x20, 0x00], sub=1, payload=list(raw))
    return s


def gen_ud(rng, route=None, creator='O', sid='UD'):
    """route: 'json' | 'text' | 'cbor' | 'builtin_other' | 'noparser' | 'hd' (hexdump-only / unknown id)"""
    route = route or rng.choice(['json', 'text', 'cbor', 'builtin_other', 'noparser', 'noparser'])
    s = hdr(rng, sid)
    n = rng.choice([1, 2, 3, 4, 15, 16, 17, 31, 32, 33, 64, 100, rng.randrange(1, 300)])
    payload = rbytes(rng, n)
    if route in ('json', 'text', 'cbor', 'builtin_other'):
        s['comp'] = [0x20, 0x00]
        if route == 'json':
            s['sub'] = 1
            doc = gen_json_value(rng, 1) if rng.random() < .3 else \
                {rtext(rng, rng.randrange(1, 9), ALNUM + ' :"{\\'): gen_json_value(rng, 1)
                 for _ in range(rng.randrange(1, 5))}
            try:
                raw = json.dumps(doc, ensure_ascii=rng.random() < .6).encode('utf-8')
            except UnicodeEncodeError:          # a lone surrogate can only travel as an escape
                raw = json.dumps(doc).encode('utf-8')
            raw += b'\x00' * ((-len(raw)) % 4)
            payload = list(raw)
        elif route == 'text':
            s['sub'] = 3
            body = ''.join(rng.choice(PRINTABLE + ['\n', '\n', '\t', '\x01', '\x7f']) for _ in range(n))
            body = 'A' + body + 'z'
            raw = body.encode('utf-8')
            raw += b'\x00' * ((-len(raw)) % 4)
            payload = list(raw)
        elif route == 'cbor':
            s['sub'] = 2
        else:
            s['sub'] = rng.choice([0, 4, 5, 0x80, 0xFF])
    else:
        # a component no shipped parser serves
        while s['comp'] in ([0x20, 0x00], [0xE5, 0x00], [0x2C, 0x00]):
            s['comp'] = rbytes(rng, 2)
    s.update(kind='UD' if sid == 'UD' else 'OTHER', payload=payload)
    return s


def gen_ed(rng, creator=None):
    s = hdr(rng, 'ED')
    c = creator or rng.choice(['B', 'H', 'X', 'O'])
    while s['comp'] in ([0x20, 0x00], [0xE5, 0x00], [0x2C, 0x00]):
        s['comp'] = rbytes(rng, 2)
    s.update(kind='ED', creator=ord(c), res=rbytes(rng, 3),
             payload=rbytes(rng, rng.choice([1, 4, 5, 16, 17, 48, rng.randrange(1, 200)])))
    return s


def gen_other(rng, sid=None):
    sid = sid or rng.choice(HEXDUMP_IDS + UNKNOWN_IDS)
    s = hdr(rng, sid)
    s.update(kind='OTHER', payload=rbytes(rng, rng.choice([1, 4, 5, 16, 17, 40, rng.randrange(1, 120)])))
    return s


KINDS = ['SS', 'EH', 'MT', 'LP', 'UD', 'ED', 'HD']


def gen_section(rng, kind, creator='O'):
    if kind == 'PS':
        return gen_src(rng, 'PS')
    if kind == 'SS':
        return gen_src(rng, 'SS')
    if kind == 'EH':
        return gen_eh(rng)
    if kind == 'MT':
        return gen_mt(rng)
    if kind == 'LP':
        return gen_lp(rng)
    if kind == 'UD':
        return gen_ud(rng, creator=creator)
    if kind == 'ED':
        return gen_ed(rng)
    return gen_other(rng)


def gen_pel(rng, nsecs=None, creator=None, kinds=None, sev=None, flags=None, eid=None):
    ph = gen_ph(rng, creator, eid)
    cr = chr(ph['creator'])
    free = kinds is None
    if kinds is None:
        n = rng.choice([0, 1, 2, 3, 4, 5, 8]) if nsecs is None else nsecs
        kinds = []
        if n and rng.random() < .8:
            kinds.append('PS')
        while len(kinds) < n:
            kinds.append(rng.choice(KINDS))
    secs = [gen_section(rng, k, cr) for k in kinds]
    if free and len(secs) >= 2 and rng.random() < .12:      # one section twice, byte for byte
        import copy
        a, b = rng.sample(range(len(secs)), 2)
        if secs[a]['kind'] == secs[b]['kind'] or (a > 0 and b > 0 and secs[a]['kind'] != 'SRC' and secs[b]['kind'] != 'SRC'):
            secs[b] = copy.deepcopy(secs[a])
    return dict(ph=ph, uh=gen_uh(rng, sev, flags), secs=secs)
