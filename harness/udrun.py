"""Observation of one user-data-like section for Trace_UD (C04, C18)."""
import json

from . import encode, pelrun, project, seams

BASE = ('Section Version', 'Sub-section type', 'Created by')
FIXTURE_COMPS = {'ok': [0x11, 0x11], 'ok_lead0': [0x0A, 0x0B], 'ok_letters': [0xAB, 0xCD], 'ok_bmccomp': [0x20, 0x00], 'nondict': [0x22, 0x22], 'none': [0x33, 0x33], 'raise': [0x44, 0x44], 'raise_empty': [0x77, 0x77],
                 'importerror': [0x55, 0x55], 'importfails': [0x88, 0x88]}
# modules that exist but fail while being loaded: RuntimeError, NameError, FileNotFoundError, SyntaxError
BROKEN_COMPS = [[0x88, 0x88], [0x88, 0x89], [0x88, 0x8A], [0x88, 0x8B]]


def served_comps():
    """every component id some fixture user-data parser module serves (read off the fixture directory)"""
    import os
    d = os.path.join(os.path.dirname(os.path.abspath(__file__)), 'fixtures', 'plugins', 'udparsers')
    out = []
    for n in os.listdir(d):
        if len(n) == 5:
            try:
                out.append([int(n[1:3], 16), int(n[3:5], 16)])
            except ValueError:
                pass
    return out


def sec_view(pel, s):
    creator = s['creator'] if s['kind'] == 'ED' else pel['ph']['creator']
    return dict(kind=s['kind'], creator=creator, comp=s['comp'], sub=s['sub'], ver=s['ver'],
                payload=s['payload'])


def entry_view(e, collide=()):
    """collide: header field names that the section's own JSON object uses as member names as well - there the
    entry shows the member (the JSON value must appear as it is) and the header field cannot be compared"""
    if not isinstance(e, dict):
        raise project.ShapeError('entry is not an object')
    data = e.get('Data')
    has_data = isinstance(data, list) and all(isinstance(x, str) for x in data)
    rest = {k: v for k, v in e.items() if k not in BASE or k in collide}
    return dict(present=True,
                ver=0 if 'Section Version' in collide else project._int(project.get(e, 'Section Version')),
                sub=0 if 'Sub-section type' in collide else project._int(project.get(e, 'Sub-section type')),
                createdby=[] if 'Created by' in collide else project.cp(project.get(e, 'Created by')),
                has_error='Error' in e,
                has_data=has_data, data=[project.cp(x) for x in data] if has_data else [],
                canon=json.dumps(rest, sort_keys=True))


ABSENT_ENTRY = dict(present=False, ver=0, sub=0, createdby=[], has_error=False, has_data=False, data=[], canon='')


def observe(pel, focus, plugins, beh, family, expect_canon='', c18=False, pel_ok=None, fixture=False, collide=(),
            via_cli=False):
    import verif_fixture
    seams.install_fixture_plugins()
    log = seams.install_import_recorder()
    if c18:
        seams.clear_plugin_caches(unload=True)
    verif_fixture.reset()
    del log[:]
    before = seams.plugin_modules_loaded()
    data = encode.encode(pel)
    res = pelrun.decode_cli(data, plugins) if via_cli else \
        pelrun.decode(data, plugins, allow_proc=True, hexcfg=(len(data) + focus) % 4 == 1)
    after = seams.plugin_modules_loaded()
    imports = [n for n in log if n.split('.')[0] == 'udparsers']
    calls = [dict(name=c[1], sub=c[2], ver=c[3], payload=list(c[4])) for c in verif_fixture.CALLS if c[0] == 'ud']
    s = pel['secs'][focus]
    rec = dict(family=family, shape_ok=True, sec=sec_view(pel, s), pelcreator=pel['ph']['creator'],
               plugins=plugins, beh=beh, entry=dict(ABSENT_ENTRY), expect_canon=expect_canon, fixture=fixture,
               collide=sorted(collide),
               imports=[project.cp(n) for n in imports], calls=calls, others=[], others_ok=[],
               modules_before=before, modules_after=after, outcome=res['outcome'], detail=res['detail'])
    doc = res['doc']
    if doc is None:
        return rec
    try:
        entries = list(doc.values())
        if len(entries) == 2 + len(pel['secs']):
            rec['entry'] = entry_view(entries[2 + focus], collide)
            rec['others'] = [project.digest(e) for k, e in enumerate(entries) if k != 2 + focus]
    except (project.ShapeError, TypeError, ValueError) as e:
        rec['shape_ok'] = False
        rec['shape_error'] = repr(e)[:200]
        return rec
    if c18:
        if pel_ok is not None:
            seams.clear_plugin_caches(unload=True)
            r2 = pelrun.decode(encode.encode(pel_ok), plugins)
            if r2['doc'] is not None:
                ent = list(r2['doc'].values())
                rec['others_ok'] = [project.digest(e) for k, e in enumerate(ent) if k != 2 + focus]
            else:
                rec['others_ok'] = ['reference run failed: ' + r2['detail'][:80]]
        else:
            rec['others_ok'] = rec['others']
    return rec
