"""Self-test helper: run checks against a patched scratch copy of the repository.

  /venv/bin/python -m harness.mutate <patch.diff> <Cxx> [<Cyy> ...] [--tier quick] [--expect 0|1]

Copies VERIF_REPO (default /repo, working tree, without .git) to a mkdtemp outside
/repo and /verif, applies the patch there with `patch -p1`, runs ./check with
VERIF_REPO pointing at the copy, prints the exit status per property, removes the copy.
"""
import argparse
import os
import shutil
import subprocess
import sys
import tempfile

VERIF = os.path.dirname(os.path.dirname(os.path.abspath(__file__)))


def main():
    ap = argparse.ArgumentParser()
    ap.add_argument('patch')
    ap.add_argument('props', nargs='+')
    ap.add_argument('--tier', default='quick')
    ap.add_argument('--expect', type=int, default=None)
    ap.add_argument('--tests', action='store_true', help='also run the repository test suite on the copy')
    a = ap.parse_args()
    src = os.environ.get('VERIF_REPO', '/repo')
    tmp = tempfile.mkdtemp(prefix='verif-mutant-')
    copy = os.path.join(tmp, 'repo')
    rc_all = 0
    try:
        shutil.copytree(src, copy, ignore=shutil.ignore_patterns('.git', '__pycache__', '*.egg-info'))
        p = subprocess.run(['patch', '-p1', '-s', '-i', os.path.abspath(a.patch)], cwd=copy)
        if p.returncode != 0:
            print('PATCH-FAILED', a.patch)
            return 3
        if a.tests:
            t = subprocess.run(['/venv/bin/python', '-m', 'pytest', '-q', '-p', 'no:cacheprovider', '-x'],
                               cwd=copy, env=dict(os.environ, PYTHONPATH=os.path.join(copy, 'modules'),
                                                  PYTHONDONTWRITEBYTECODE='1'),
                               stdout=subprocess.PIPE, stderr=subprocess.STDOUT, text=True)
            print('TESTS', 'pass' if t.returncode == 0 else 'FAIL', t.stdout.strip().splitlines()[-1])
        for prop in a.props:
            env = dict(os.environ, VERIF_REPO=copy)
            r = subprocess.run([os.path.join(VERIF, 'check'), prop, '--tier', a.tier], cwd=VERIF, env=env,
                               stdout=subprocess.PIPE, stderr=subprocess.STDOUT, text=True)
            viol = [l for l in r.stdout.splitlines() if l.startswith('VIOLATION') or 'rejected record' in l
                    or l.startswith('MACHINERY')]
            print('MUTANT %s %s exit=%d' % (os.path.basename(a.patch), prop, r.returncode))
            for l in viol[:4]:
                print('   ', l[:220])
            if a.expect is not None and r.returncode != a.expect:
                rc_all = 1
    finally:
        shutil.rmtree(tmp, ignore_errors=True)
    return rc_all


if __name__ == '__main__':
    sys.exit(main())
