"""Decodes ONE PEL in a fresh interpreter (the oracle of C19).
stdin: JSON {"repo", "verif", "hex", "plugins"} -> stdout: JSON {"digest", "outcome"}"""
import json
import sys


def main():
    job = json.load(sys.stdin)
    sys.path.insert(0, job['repo'] + '/modules')
    sys.path.insert(0, job['verif'])
    from harness import pelrun, project, seams
    seams.install_fixture_plugins()
    seams.install_registry()
    res = pelrun.decode(bytes.fromhex(job['hex']), job['plugins'])
    if res['doc'] is not None:
        print(json.dumps(dict(digest=project.digest(res['doc']), outcome='doc')))
    else:
        print(json.dumps(dict(digest=res['outcome'] + ':' + res['detail'].split(':')[0], outcome=res['outcome'])))


if __name__ == '__main__':
    main()
