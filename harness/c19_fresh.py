"""Decodes ONE PEL in a fresh interpreter (the oracle of C19).
stdin: JSON {"repo", "verif", "hex", "plugins"} -> stdout: JSON {"digest", "outcome"}"""
import json
import sys


def main():
    job = json.load(sys.stdin)
    sys.path.insert(0, job['repo'] + '/modules')
    sys.path.insert(0, job['verif'])
    from harness import pelrun, project, seams
    seams.install_fixture_plugins()
    seams.install_registry()
    if job.get('tables'):
        import os
        os.environ.setdefault('VERIF_SCRATCH', job['scratch'])
        seams.install_comp_tables(os.path.join(job['scratch'], 'comptables-%d' % os.getpid()))
    else:
        seams.no_comp_tables()
    res = pelrun.decode(bytes.fromhex(job['hex']), job['plugins'])
    print(json.dumps(dict(digest=pelrun.full_digest(res), outcome=res['outcome'])))


if __name__ == '__main__':
    main()
