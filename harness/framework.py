"""Generic pipeline shared by all property checks.

  MC     : TLC model-checks the bounded instances of the spec modules (spec/mc)
  cases  : abstract cases (from TLC Gen instances and/or seeded enumeration)
  drive  : the real code of /repo (VERIF_REPO) is run on every case -> records
  judge  : TLC evaluates every record against the spec (spec/trace); verdicts are TLC's
  report : evidence/<id>.json, KNOWN-FINDING / VIOLATION lines, exit status

Exit status: 0 property held on everything explored (known findings listed),
1 a violation not listed in known_findings.json, 2 machinery failure.
"""
import importlib
import json
import multiprocessing as mp
import os
import signal
import sys
import time
import traceback

from . import tlc

VERIF = tlc.VERIF
REPO = os.environ.get('VERIF_REPO', '/repo')
EVIDENCE_DIR = os.path.join(VERIF, 'evidence')
REPLAY_DIR = os.path.join(VERIF, 'replays')
KNOWN = os.path.join(VERIF, 'known_findings.json')


def repo_on_path():
    p = os.path.join(REPO, 'modules')
    if p not in sys.path:
        sys.path.insert(0, p)
    fx = os.path.join(VERIF, 'harness', 'fixtures')
    if fx not in sys.path:
        sys.path.append(fx)


class CaseTimeout(Exception):
    pass


def _alarm(signum, frame):
    raise CaseTimeout()


_PROP = None


def _seed():
    return int(os.environ.get('VERIF_SEED') or 0)


def _worker_init(prop_name):
    global _PROP
    repo_on_path()
    _PROP = importlib.import_module('harness.props.' + prop_name)
    _foreign_use_of_shared_classes()
    if hasattr(_PROP, 'worker_init'):
        _PROP.worker_init()


def _foreign_use_of_shared_classes():
    """Every second worker process starts its life the way a process does in which OTHER code has used the
    shared classes before the code under test runs: the byte cursor in its documented signed / little-endian
    modes.  What such a use leaves behind (class-level caches, module state) must not colour the decodes."""
    try:
        ident = mp.current_process()._identity
        if not ident or ident[0] % 2 == 0:
            return
        from pel.datastream import DataStream
        raw = bytes([0x80 + (k * 7) % 0x80 for k in range(64)])
        for order in ('big', 'little'):
            st = DataStream(raw, byte_order=order, is_signed=True)
            for width in (1, 2, 4, 8, 3):
                st.get_int(width)
            st.get_mem(2)
    except Exception:
        pass


_ORIG_CWD = os.getcwd()
_TZS = [None, 'UTC0', 'EST5EDT,M3.2.0,M11.1.0', 'IST-5:30', 'LINT-14', 'America/Los_Angeles']
_LANGS = [None, 'C', 'C.utf8', 'de_DE.UTF-8', 'POSIX']


def _case_environment(idx):
    """What a decoder shows is a function of the bytes it is given: not of the time zone, the language settings, the
    current directory or HOME.  Every case runs under another combination of them (a function of the case number
    and the seed, so a run can be repeated); the expectations come from the specification and do not move."""
    import time
    if os.environ.get('VERIF_NO_ENV') == '1':
        return
    k = idx + _seed()
    for var, val in (('TZ', _TZS[k % len(_TZS)]), ('LANG', _LANGS[(k // 2) % len(_LANGS)]),
                     ('LC_ALL', _LANGS[(k // 3) % len(_LANGS)] if k % 4 == 0 else None),
                     ('HOME', [os.path.join(os.environ.get('VERIF_SCRATCH') or '/nonexistent', 'home'),
                               '/nonexistent/verif-home',
                               os.path.join(os.environ.get('VERIF_SCRATCH') or '/nonexistent', 'home two')][k % 3]),
                     ('COLUMNS', [None, '40', '200'][(k // 5) % 3])):
        if val is None:
            os.environ.pop(var, None)
        else:
            os.environ[var] = val
    time.tzset()
    # (never / or /tmp: the code under test may be a changed copy that removes or writes files where it stands)
    base = os.environ.get('VERIF_SCRATCH')
    if base:
        try:
            d = os.path.join(base, 'cwd-%d' % os.getpid(), ['here', 'with blank', 'deep/er/still'][k % 3])
            os.makedirs(d, exist_ok=True)
            os.chdir(d)
        except OSError:
            pass


_REPLAY_INDEX = None


def _worker_run(item):
    idx, case = item
    num = _REPLAY_INDEX[idx] if _REPLAY_INDEX and idx < len(_REPLAY_INDEX) else idx      # its number in the original run
    limit = getattr(_PROP, 'CASE_TIMEOUT', 300)
    signal.signal(signal.SIGALRM, _alarm)
    signal.setitimer(signal.ITIMER_REAL, limit)
    # every PROCESS_EVERY-th case of a check that opts in runs the command line as a REAL process, in one of
    # several ordinary environments (seams.PROC_VARIANTS), instead of calling main() in this process
    every = getattr(_PROP, 'PROCESS_EVERY', 0)
    from . import seams as _seams
    variant = None
    if every and num % every == every - 1 and os.environ.get('VERIF_NO_PROC') != '1':
        variant = _seams.PROC_ROTATION[(num // every + _seed()) % len(_seams.PROC_ROTATION)]
    _seams.set_proc_variant(variant)
    _case_environment(num)
    try:
        recs = _PROP.run_case(case)
        if variant:
            for r in recs or []:
                if isinstance(r, dict):
                    r.setdefault('via_process', variant)
        return idx, recs, None
    except CaseTimeout as e:
        # where was the case when the alarm fired?  Inside the code under test: a hang of the real code,
        # reported as a rejected record.  Inside the harness: machinery failure.
        root = os.path.join(os.path.realpath(REPO), '')
        mine = os.path.join(os.path.realpath(VERIF), '')
        tb = [f for f in traceback.extract_tb(e.__traceback__) if not f.filename.endswith('framework.py')
              and os.path.realpath(f.filename).startswith((root, mine))]
        if tb and os.path.realpath(tb[-1].filename).startswith(root):
            return idx, [dict(shape_ok=False, crashed=True, crash='no result after %ss (hang)' % limit,
                              where='%s:%d' % (os.path.relpath(tb[-1].filename, root), tb[-1].lineno),
                              case=json.dumps(case)[:400])], None
        return idx, None, 'driver timeout after %ss' % limit
    except BaseException as e:
        # An exception that escapes from the code under test (its innermost frame lies in the
        # repository) is an observation, not a machinery failure: it becomes a record the judge
        # rejects (clause Shape), so that a change that makes the real code raise is reported as a
        # violation.  Exceptions raised by the harness itself stay machinery failures.
        tb = traceback.extract_tb(e.__traceback__)
        root = os.path.join(os.path.realpath(REPO), '')
        mine = os.path.join(os.path.realpath(VERIF), '')
        # the innermost frame that is neither standard library nor an installed package decides: the exception
        # may surface inside enum.py or json/decoder.py and still be the repository's doing
        own = [f for f in tb if os.path.realpath(f.filename).startswith((root, mine))]
        if own and os.path.realpath(own[-1].filename).startswith(root) \
                and not isinstance(e, (KeyboardInterrupt, MemoryError)):
            return idx, [dict(shape_ok=False, crashed=True, crash='%s: %s' % (type(e).__name__, str(e)[:200]),
                              where='%s:%d' % (os.path.relpath(own[-1].filename, root), own[-1].lineno),
                              case=json.dumps(case)[:400])], None
        return idx, None, traceback.format_exc()
    finally:
        signal.setitimer(signal.ITIMER_REAL, 0)
        _seams.set_proc_variant(None)
        try:
            os.chdir(_ORIG_CWD)
        except OSError:
            pass


def drive(prop_name, cases, procs=16, chunks=8):
    """Run prop.run_case over all cases in worker processes.  Returns list of
    record lists aligned with cases.  A driver exception is a machinery failure."""
    prop = importlib.import_module('harness.props.' + prop_name)
    procs = int(os.environ.get('VERIF_PROCS') or procs)         # (VERIF_PROCS=1: everything in this process)
    procs = max(1, min(procs, getattr(prop, 'MAX_PROCS', procs), len(cases)))
    results = [None] * len(cases)
    if procs == 1 or getattr(prop, 'IN_PROCESS', False):
        _worker_init(prop_name)
        for item in enumerate(cases):
            idx, recs, err = _worker_run(item)
            if err:
                raise tlc.MachineryError('driver failed on case %d: %s\n%s'
                                         % (idx, json.dumps(cases[idx])[:500], err))
            results[idx] = recs
        return results
    ctx = mp.get_context('fork')
    with ctx.Pool(procs, initializer=_worker_init, initargs=(prop_name,),
                  maxtasksperchild=getattr(prop, 'MAX_TASKS_PER_CHILD', None)) as pool:
        for idx, recs, err in pool.imap_unordered(_worker_run, list(enumerate(cases)),
                                                  chunksize=max(1, len(cases) // (procs * chunks))):
            if err:
                pool.terminate()
                raise tlc.MachineryError('driver failed on case %d: %s\n%s'
                                         % (idx, json.dumps(cases[idx])[:500], err))
            results[idx] = recs
    return results


def seams_mod():
    from . import seams
    return seams


def load_known():
    if not os.path.exists(KNOWN):
        return []
    with open(KNOWN) as f:
        return json.load(f).get('findings', [])


def write_evidence(pid, tier, seed, level, coverage, wall, violations, assumptions, extra=False):
    # extra checks (conformance of spec modules that no listed property is about) keep their evidence apart
    EVIDENCE_DIR = os.path.join(VERIF, 'evidence', 'extra') if extra else globals()['EVIDENCE_DIR']
    if os.path.realpath(REPO) != '/repo':
        # a run against a scratch copy (harness.mutate, the seeded / equivalent intake): its evidence must not
        # replace the evidence of the runs against /repo itself
        EVIDENCE_DIR = os.path.join(VERIF, 'evidence', 'scratch-copies')
    os.makedirs(EVIDENCE_DIR, exist_ok=True)
    ev = dict(property_id=pid, tier=tier, seed=seed, level=level, coverage=coverage,
              assumptions=assumptions, wall_s=round(wall, 2), violations=violations)
    path = os.path.join(EVIDENCE_DIR, pid + '.json')
    tmp = path + '.%d.tmp' % os.getpid()
    with open(tmp, 'w') as f:
        json.dump(ev, f, indent=1, sort_keys=True)
        f.write('\n')
    os.replace(tmp, path)
    return path


def run_selftest(prop_name, seed=0):
    """Negative control of the binding: corrupt one field of recorded observations and demand that the
    judge rejects every corrupted record (a judge that accepts them is not bound to the records)."""
    import copy
    import shutil
    import tempfile
    scratch = tempfile.mkdtemp(prefix='verif-%s-' % prop_name)
    os.environ['VERIF_SCRATCH'] = scratch
    try:
        repo_on_path()
        prop = importlib.import_module('harness.props.' + prop_name)
        cases = prop.cases('quick', seed, {})
        step = max(1, len(cases) // 12)
        cases = cases[::step][:16]
        records = []
        for recs in drive(prop_name, cases):
            records.extend(recs)
        bad = []
        for r in records[:: max(1, len(records) // 150)]:
            c = prop.corrupt(copy.deepcopy(r))
            if c is not None:
                c['id'] = len(bad)
                bad.append(c)
        jr = tlc.judge(prop.TRACE, bad, shards=8, xmx=getattr(prop, 'JUDGE_XMX', '3g'))
        rejected = {rid for rid, _ in jr['rejected']}
        missed = [r['id'] for r in bad if r['id'] not in rejected]
        print('SELFTEST property=%s corrupted=%d rejected=%d %s'
              % (prop.ID, len(bad), len(rejected), 'ok' if bad and not missed else 'FAILED missed=%s' % missed[:10]),
              flush=True)
        return 0 if bad and not missed else 1
    finally:
        shutil.rmtree(scratch, ignore_errors=True)


def run_property(prop_name, tier='quick', seed=0, replay=None, verbose=True):
    import shutil
    import tempfile
    scratch = tempfile.mkdtemp(prefix='verif-%s-' % prop_name)
    os.environ['VERIF_SCRATCH'] = scratch
    try:
        return _run_property(prop_name, tier, seed, replay, verbose)
    finally:
        shutil.rmtree(scratch, ignore_errors=True)


def _run_property(prop_name, tier, seed, replay, verbose):
    t0 = time.time()
    repo_on_path()
    prop = importlib.import_module('harness.props.' + prop_name)
    pid = prop.ID

    def log(*a):
        if verbose:
            print('[%s %6.1fs]' % (pid, time.time() - t0), *a, flush=True)

    # ---- 1. model checking of the design ---------------------------------
    mc_states = mc_trans = 0
    mc_report = []
    if replay is None:
        for spec in prop.model_checks(tier):
            r = tlc.model_check(spec['module'], spec.get('cfg'), workers=spec.get('workers', 16),
                                timeout=spec.get('timeout', 1800),
                                must_cover=spec.get('must_cover', ()), env=spec.get('env'),
                                xmx=spec.get('xmx', '8g'), extra=spec.get('extra', ()))
            mc_states += r.distinct
            mc_trans += r.generated
            mc_report.append(dict(module=spec['module'], cfg=spec.get('cfg') or spec['module'],
                                  states=r.distinct, transitions=r.generated, depth=r.depth,
                                  wall_s=round(r.wall, 1),
                                  actions={k: v[0] for k, v in sorted(r.coverage.items())}))
            log('MC %s: %d distinct states, %d generated, depth %d, %.1fs'
                % (spec.get('cfg') or spec['module'], r.distinct, r.generated, r.depth, r.wall))

    proofs = []
    if replay is None:
        for m in getattr(prop, 'PROOFS', ()):
            pr = tlc.prove(m)
            proofs.append(pr)
            if pr['proved']:
                log('TLAPS %s: all %d obligations proved, %.1fs' % (m, pr['obligations'], pr['wall_s']))
            else:
                log('TLAPS %s: NOT re-proved in this run (%s) - the verdict below does not depend on it'
                    % (m, pr['reason'][:200]))

    # ---- 2. cases --------------------------------------------------------
    gen_info = {}
    if replay is not None:
        with open(replay) as f:
            rp = json.load(f)
        cases = rp['cases']
        # the environment and the process variant of a case are functions of its number in the original run and of
        # the seed: both are taken from the replay file, so that the case runs again as it ran
        global _REPLAY_INDEX
        _REPLAY_INDEX = rp.get('case_numbers')
        os.environ['VERIF_SEED'] = str(rp.get('seed', seed))
    else:
        cases = prop.cases(tier, seed, gen_info)
    log('%d cases' % len(cases))

    # ---- 3. drive the real code ---------------------------------------------
    rec_lists = drive(prop_name, cases)
    records = []
    owner = {}
    for ci, recs in enumerate(rec_lists):
        for r in recs:
            r['id'] = len(records)
            owner[r['id']] = ci
            records.append(r)
    log('%d records from the implementation' % len(records))

    # ---- 4. judge -------------------------------------------------------------
    gk = getattr(prop, 'group_key', None)
    jr = tlc.judge(prop.TRACE, records, shards=getattr(prop, 'JUDGE_SHARDS', 16),
                   timeout=getattr(prop, 'JUDGE_TIMEOUT', 3600), group_key=gk,
                   xmx=getattr(prop, 'JUDGE_XMX', '3g'))
    log('judged %d records in %.1fs, %d rejected' % (jr['judged'], jr['wall'], len(jr['rejected'])))

    # ---- 5. classify ----------------------------------------------------------
    known = [k for k in load_known() if k.get('property') == pid and k.get('status') == 'open']
    byid = {r['id']: r for r in records}
    new, seen_known = [], {}
    for rid, clauses in jr['rejected']:
        rec = byid[rid]
        fp = ('%s:Crashed:%s' % (pid, rec.get('where'))) if rec.get('crashed') else prop.fingerprint(rec, clauses)
        hit = None
        for k in known:
            if k['fingerprint'] == fp:
                hit = k
                break
        if hit is not None:
            seen_known.setdefault(hit['fingerprint'], [hit, 0])[1] += 1
        else:
            new.append((rid, clauses, fp))
    for fp, (k, n) in sorted(seen_known.items()):
        print('KNOWN-FINDING: property=%s %s (%d record(s) this run; fingerprint %s)'
              % (pid, k['what'], n, fp), flush=True)

    # ---- 6. evidence ------------------------------------------------------------
    nontriv = set()
    for r in records:
        if r.get('crashed'):
            continue
        k = prop.nontrivial(r)
        if k is not None:
            nontriv.add(k)
    good = [r for r in records if not r.get('crashed')] or records
    samples = [r if r.get('crashed') else prop.sample(r) for r in good[:: max(1, len(good) // 3)][:3]]
    coverage = dict(
        states=mc_states + jr['states'],
        transitions=mc_trans + jr['transitions'],
        traces_validated_against_impl=jr['judged'],
        samples=samples,
        evaluations=len(records),
        distinct_nontrivial=len(nontriv),
        rule=prop.RULE,
        model_checking=mc_report,
        tlaps_proofs=proofs,
        mc_states=mc_states, mc_transitions=mc_trans,
        judge_states=jr['states'], judge_transitions=jr['transitions'],
        cases=len(cases),
        rejected_records=len(jr['rejected']),
        known_finding_records=sum(n for _, n in seen_known.values()),
        generator=gen_info,
        judge_module=prop.TRACE,
        exhaustive=bool(getattr(prop, 'EXHAUSTIVE', {}).get(tier, False)),
        repo=REPO,
    )
    # how many records come from the tool run as a real process, per environment (seams.PROC_VARIANTS)
    via = {}
    for r in records:
        v = r.get('via_process') or ''
        for part in ([v] if v else [x for x in str(r.get('src', '')).split('-') if x in getattr(seams_mod(), 'PROC_VARIANTS', [])]):
            via[part] = via.get(part, 0) + 1
    coverage['records_from_real_processes'] = via
    coverage['environment_varied_per_case'] = os.environ.get('VERIF_NO_ENV') != '1'
    if hasattr(prop, 'extra_coverage'):
        coverage.update(prop.extra_coverage(records, cases))
    if replay is None:
        write_evidence(pid, tier, seed, prop.LEVEL, coverage, time.time() - t0, len(new),
                       prop.ASSUMPTIONS, extra=getattr(prop, 'EXTRA', False))

    # ---- 7. verdict ---------------------------------------------------------------
    if new:
        # (a run against a scratch copy - harness.mutate - keeps its replay apart from those of runs against /repo)
        rdir = REPLAY_DIR if os.path.realpath(REPO) == '/repo' else os.path.join(REPLAY_DIR, 'scratch-copies')
        os.makedirs(rdir, exist_ok=True)
        path = os.path.join(rdir, '%s-%s-seed%d.json' % (pid, tier, seed))
        bad_cases, bad_numbers, seen = [], [], set()
        detail = []
        for rid, clauses, fp in new[:200]:
            ci = owner[rid]
            if ci not in seen:
                seen.add(ci)
                bad_cases.append(cases[ci])
                bad_numbers.append(_REPLAY_INDEX[ci] if _REPLAY_INDEX else ci)
            detail.append(dict(record=byid[rid], clauses=clauses, fingerprint=fp))
        with open(path, 'w') as f:
            json.dump(dict(property=pid, tier=tier, seed=seed, cases=bad_cases, case_numbers=bad_numbers,
                           rejected=detail[:50], total_rejected=len(new)), f, indent=1)
        hist = {}
        for rid, clauses, fp in new:
            for c in clauses:
                hist[c] = hist.get(c, 0) + 1
        log('clause histogram over %d rejected records: %s' % (len(new), sorted(hist.items(), key=lambda x: -x[1])[:30]))
        for note in jr.get('notes', [])[:8]:
            log('judge note: ' + note[:600])
        for rid, clauses, fp in new[:10]:
            log('rejected record %d clauses=%s fingerprint=%s' % (rid, clauses, fp))
        if getattr(prop, 'EXTRA', False):
            print('DRIFT spec=%s replay=%s (the code no longer follows this part of the specification; '
                  'no listed property is decided by it)' % (pid, path), flush=True)
        else:
            print('VIOLATION property=%s replay=%s' % (pid, path), flush=True)
        return 1
    log('OK')
    return 0
