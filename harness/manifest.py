"""Regenerates /verif/MANIFEST.json from the table below (python3 -m harness.manifest)."""
import json
import os

VERIF = os.path.dirname(os.path.dirname(os.path.abspath(__file__)))

TECH = 'explicit TLA+ spec; TLC model-checks the bounded design; TLC judges records replayed/recorded from the real code'

CLAIMED = {
    'C07': dict(
        text='TLC model-checks the implementation-shaped considerPEL procedure against the documented rules '
             '(Selection!RuleSet) over every constrained option record (64 switch sets x 128 group subsets + 5 '
             'look-ups) x severities x the 8 settings of the three flag bits the rules read; the real '
             'considerPEL is then swept over the same space (plus flag words with the 13 other bits set, and in '
             'the thorough tier all 65536 flag words) and the real CLI over all 64 switch sets x group subsets '
             'x -l/-a/-n/-j and the look-ups (--plid, --src, --src-exclude, and --bmc-id / --id for PELs of every '
             'class incl. BMC id 0); every recorded verdict is judged by TLC with the same RuleSet.',
        design='DESIGN.md 4.7, 5 C07',
        note='Trusted: TLC, the TLA+ transcription of the rule text.  Look-ups combined with selection options '
             'are outside the statement.  For severities 0x01..0x0F either reading of "informational" is accepted '
             'in the serviceable test.',
        technique='TLC model checking of Selection.tla (Impl vs Rule) + TLAPS proof of Impl vs Rule for every severity / flag word / option record + TLC-judged exhaustive sweep of the real considerPEL and CLI'),
}

CLAIMED['C05'] = dict(
    text='TLC model-checks the cursor machine of DataStream.tla (Read / ReadRejected; InBounds, NoFabrication, '
         'Monotone hold for the checked machine and InBounds fails for the unchecked -O deviation).  The real '
         'parsePEL is run over every proper prefix and single-byte corruptions at every offset of generated '
         'well-formed PELs (all section kinds, shipped plugins included) plus random strings, under python and '
         'python -O, with every cursor movement logged by a DataStream subclass; TLC judges each logged event as a '
         'step of the cursor machine and each outcome against the statement (allowed outcomes, prefixes rejected, '
         'bounded work, python = python -O); a sample runs through the real command line as subprocesses.  '
         'DataStreamProof.tla proves InBounds, NoFabrication, Monotone and RaisedIsFinal with the TLA+ proof system for '
         'inputs of every size and all integer requests (53 obligations, re-checked on every run); MC_PelDecoder '
         'model-checks parsePEL over every PEL of <= 3 sections x every truncation length.',
    design='DESIGN.md 4.3, 5 C05, 17.2',
    note='Trusted: TLC; the traced DataStream subclass calls the real methods.  Any Exception subclass counts as an '
         'ordinary error.  Value space is sampled (prefixes exhaustive per base PEL, corruptions 1-3 values per offset).',
    technique='TLC model checking of DataStream.tla / PelDecoder.tla + TLAPS proof of cursor safety (unbounded) + TLC trace validation of recorded cursor events and outcomes of the real decoder (python and python -O)')

CLAIMED['C12'] = dict(
    text='TLC model-checks CleanWrite.tla - one action per step of the decode/open/write/flush/close/unlink protocol '
         'of --json --clean and --file --clean, the environment choosing which step fails and a Crash action enabled '
         'everywhere - for Safe (input removed => output complete) in every reachable state.  TLC then emits every '
         'fault schedule (Gen_CleanWrite); each is replayed against the real parseAndWriteOutput and main() with '
         'faults injected at the I/O seam (open/write/flush/close of the output object, sys.stdout) and os.remove '
         'recorded; the recorded event sequence is folded through the spec\'s effect operators by TLC and Safe is '
         'evaluated in every intermediate state, together with the final on-disk state.  CleanWriteN.tla lifts the '
         'protocol to the whole -j -c loop: any set of files, any number of write calls, any step failing, the process '
         'dying anywhere; its THEOREM Safety is proved with the TLA+ proof system (tlapm, 46 obligations, re-checked on '
         'every run), a TLC instance checks the inductive invariant for 3 files x 2 write calls, and TLC enumerates ALL '
         '7483 behaviours of that instance (2058 complete, 5425 ending in a crash), which are replayed step by step '
         'through the real `peltool -j -c` (quick: a stratified sample) - the disk must end in the state the behaviour '
         'ends in.  Crash points and RLIMIT_FSIZE runs in subprocesses complete the picture.',
    design='DESIGN.md 4.10, 5 C12, 17',
    note='Trusted: TLC; fault injection at the Python I/O seam stands for ENOSPC/EIO/EPIPE.  For --file the document '
         'counts as emitted once stdout was flushed successfully.',
    technique='TLC model checking of CleanWrite.tla / CleanWriteN.tla + TLAPS proof of the multi-file protocol (unbounded) + TLC-enumerated behaviours and fault schedules replayed into the real code, event traces and disk states validated by TLC')

CLAIMED['C11'] = dict(
    text='PelDir.tla states the allowed effect of every CLI mode on the directory tree (frame condition for read-only '
         'modes, --delete removes at most one top-level file whose name contains the id, --delete-all exactly the '
         'top-level regular files, --json only adds <file>.<eid>.json in the output directory) and contains the '
         'implementation-shaped os.walk loops with their break statements; TLC checks the loops against the rules over '
         'every tree of a 5-entry universe, every walk order and every command.  TLC (-simulate, Gen_PelDir) then emits '
         'command sequences which, with seeded random sequences on larger random trees, are replayed through the real '
         'CLI with recursive snapshots around every command; TLC judges every step with the same effect rules.',
    design='DESIGN.md 4.9, 5 C11',
    note='Trusted: TLC; snapshots (path, type, sha256).  Trees hold regular files and directories only.  An invocation '
         'naming both a read-only mode and a delete option may take either effect.',
    technique='TLC model checking of PelDir.tla (walk loops vs effect rules) + TLC-simulated command sequences replayed into the real CLI, snapshots validated by TLC')

CLAIMED['C06'] = dict(
    text='PrettyPrint.tla defines which output lines are an allowed alignment of an input line (spaces inserted only '
         'between the key\'s closing quote and the value, the key scanned as a JSON string) and contains the scanner of '
         'prettyPrint as it is shaped; TLC checks scanner against rule for every json.dumps-shaped line with keys <= 3 / '
         'string values <= 2 characters over the alphabet " \\ : { a space , and validates the judge\'s key-end scanner '
         'against the construction.  The real prettyPrint is then observed on the same lines, at the module seam while '
         'the real decoder and CLI print generated PELs (JSON / text user data full of quotes, colons, braces), and on '
         'adversarial documents, both widths; TLC judges every line and demands the recorded round trip.  The files '
         'that -j WRITES are judged too, over whatever already sits under the result\'s name (nothing, an earlier '
         'result made with other options, a longer or a shorter file); JSON user data carries the characters that '
         'str.splitlines() treats as line boundaries, raw or escaped.',
    design='DESIGN.md 4.8, 5 C06',
    note='Trusted: TLC; json.loads equality as the round-trip projection.  Alignment is permitted, never required.',
    technique='TLC model checking of PrettyPrint.tla (scanner vs alignment rule) + TLC-judged lines recorded from the real prettyPrint / CLI')

CLAIMED['C13'] = dict(
    text='HexDump.tla transcribes hexdump() (layout arithmetic, chunking, padding), the line templates and parse() as a '
         'per-character scanner with the code\'s break semantics, plus the two I/O-drawer formats.  TLC checks the round '
         'trip, line count, equal width and offsets for every byte string of length <= 5 over 6 byte classes and every '
         'layout <= 3x3, the default layout and both drawer formats on 20-byte strings, and pins the three literal line '
         'formats.  The real hexdump / parse are run on every length 0..80 (+ a spread), boundary byte values, 400 '
         '(thorough: all 65536) layouts, the three formats with short last lines and comment / blank lines, and '
         '`peltool -x`; TLC judges each result (line count, width, offsets, spec-parse and real-parse give back the bytes).  '
         'HexDump.tla also models the dump-FILE reader (formats tried in order, first one yielding a byte wins; the '
         'reversed order is a deviation config that TLC refutes) and what a comment line is; generated dump files with '
         'title / comment / blank lines before, between and after the data lines, and dumps beyond 64 KiB (the 4-digit '
         'address column wraps), go through the real parse_dump_file.',
    design='DESIGN.md 4.11, 5 C13',
    note='Used as an executable reference under TLC (encode/decode fidelity is not a protocol).  The ASCII column and the '
         'spacing of non-default layouts are not fixed by the statement and are not compared.',
    technique='TLA+ transcription of hexdump/parse model-checked for the round trip in small bounds + TLC-judged results of the real functions')

CLAIMED['C01'] = dict(
    text='PelDecoder.tla models parsePEL (headers, count-driven section loop, buildOutput naming) over abstract PELs and '
         'every truncation point; TLC checks Framing, the naming rule (PelNaming: two-pass implementation vs the '
         '"numbered iff repeated" rule), PrefixRejected, termination over 76k initial configurations, and '
         'SrcCallouts.tla (the peek-driven callout walk) for NoDesync / WalkExact whatever follows the callout.  TLC then '
         'emits every sequence of <= 3 section kind classes (12 classes incl. the ids that collide with callout tags); '
         'each is filled, encoded and decoded by the real parsePEL through a traced cursor and the sectionFun seam, '
         'plus long PELs (up to 253 optional sections) and all creator ids; TLC judges EncoderAgrees (the harness '
         'encoder against PelFormat!Encode), Names, OneEntryPerSection, Compositional, Cursor and Boundaries.',
    design='DESIGN.md 4.2, 4.4, 4.5, 5 C01',
    note='Trusted: TLC, PelFormat.tla as the statement of the layout.  Value space sampled, structure exhaustive to the '
         'bound.  PH/UH ids are not placed in optional positions.',
    technique='TLC model checking of PelDecoder.tla / SrcCallouts.tla + TLC-enumerated PEL structures replayed into the real decoder, observations judged by TLC')
CLAIMED['C02'] = dict(
    text='PelDisplay.tla states, per displayed field, what the tool must show for the Private/User Header, Extended User '
         'Header, Failing MTMS and Impacted Partition sections (BCD times, numeric ids, NUL stripping, published tables '
         'with fallbacks, action-flag set, every target id); TLC checks the action-flag rule for all 65536 words and field '
         'independence of the Private Header.  Generated PELs with every coded byte swept through all 256 values, id '
         'boundaries, 0..255 targets / name and symptom lengths, all creator ids are decoded by the real parsePEL and '
         'TLC compares every field (one clause per field) after a mechanical projection.',
    design='DESIGN.md 4.1, 5 C02, Appendix A',
    note='The spec acts as an executable reference under TLC (encode/decode fidelity is not a protocol property).  Ids are '
         'compared numerically, timestamps and text literally.  PelTables.tla is a static transcription of the published tables.',
    technique='TLA+ reference of the display rules (PelDisplay.tla) evaluated by TLC on records from the real decoder; small exhaustive TLC checks of the rules')
CLAIMED['C03'] = dict(
    text='PelDisplay!ShowSRC / ShowCallout state what must be shown for an SRC (words 2..count, format, flags, CCIN, '
         'status bits by SRC type, reference code, every callout field, Callout Count, registry message); SrcCallouts.tla '
         'is model-checked for the walk (count, order, no desynchronisation).  TLC enumerates all 960 callout shapes; the '
         'harness composes SRC sections from them (all types, word counts 1..9, flag bits, distinguishable words), runs '
         'the real decoder with and without registry entries (installed through src.registry.pels / '
         'comp_id.componentIDs) and TLC compares field by field, callout by callout, plus the filled message.',
    design='DESIGN.md 4.5, 5 C03, Appendix A',
    note='Executable-reference use of the spec.  Every generated callout has a FRU identity; registry placeholders are in '
         'order; plugins are off (C18 covers SRC Details / procedure descriptions).',
    technique='TLC model checking of SrcCallouts.tla + TLC-enumerated callout shapes replayed into the real decoder, display judged by TLC against PelDisplay.tla')

CLAIMED['C04'] = dict(
    text='UserData.tla states the route of every user-data-like section (built-in JSON / text, parser module, lossless '
         'dump, dump plus error note) and what the entry must contain; DecodeHistory.tla is the implementation-shaped '
         'cache/import/call structure, model-checked against it (ErrorNoted, HistoryIndependent), and MC_UserData checks '
         'that the route function is total and that every non-rendering class carries the payload.  TLC emits the whole '
         'route space (290 routes); each is realised with fixture parser modules and payload families (JSON documents, '
         'text with control characters, binary of all length classes, maximum-size 65527 / 65523 byte payloads) and decoded '
         'by the real parsePEL; TLC judges Lossless (HexDump!Parse of the entry\'s Data = payload), ErrorNote, JsonSame, '
         'TextLines, PluginOutput, BaseKeys.  Failing parsers fail in every way: 24 kinds of exception type and text '
         '(braces, format fields, percent signs, newlines, non-ASCII, empty, 3000 characters, custom __str__), ImportError '
         'from inside the call, and modules that fail WHILE BEING LOADED (RuntimeError, NameError, FileNotFoundError, '
         'SyntaxError) - all must end as the section\'s error note plus a lossless dump.',
    design='DESIGN.md 4.6, 5 C04',
    note='Invalid built-in JSON / non-UTF-8 text are outside the statement.  The canonical JSON the generator predicts is '
         'compared by TLC as text.',
    technique='TLC model checking of UserData/DecodeHistory + TLC-enumerated route space replayed into the real decoder, entries judged by TLC (lossless-dump oracle HexDump.tla)')
CLAIMED['C18'] = dict(
    text='UserData.tla gives the module-name rules (udparsers.<creator><comp %04x>, srcparsers.<creator>src, the BMC '
         'wrapper\'s component / hostboot target, calloutparsers.<creator>callouts) and DecodeHistory.tla the '
         'import/call/containment structure (model-checked: NoPoisoning, ErrorNoted).  Fixture parser modules on the '
         'package paths record their arguments and behave ok / non-object / None / raising / raising ImportError; shipped '
         'osrc/oe500/m2c00/ocallouts are exercised too.  An import_module recorder and sys.modules snapshots observe '
         'every consultation during real decodes; TLC judges ModuleName, Args, Contained (all other entries equal the '
         'well-behaved run), ErrorNote + Lossless, NothingImported / NothingLoaded with plugins off, SrcModuleName, '
         'SrcArgs, DrawerRouting / DrawerDecoder / AlwaysObject for the I/O drawer plug-in.  Parser modules that '
         'fail while being loaded (at the user-data, SRC, BMC-wrapper and callout sites) and parsers raising every kind '
         'of exception text are among the behaviours.',
    design='DESIGN.md 4.6, 5 C18',
    note='Fixture modules stand for arbitrary parsers.  Words beyond the valid word count may be zeros or as stored.  The '
         'stand-alone drawer decoders are the oracle for which decoder was routed to.',
    technique='TLC model checking of DecodeHistory.tla + import/call recording of real decodes with fixture and shipped parser modules, judged by TLC against UserData.tla')
CLAIMED['C19'] = dict(
    text='DecodeHistory.tla models the four module-level import caches and every consultation (cache look-up, import, '
         'call, except) as the code is shaped; TLC checks HistoryIndependent and NoPoisoning over all histories <= 4 of '
         'a 45-item alphabet (and shows both fail for the as-found variant).  TLC emits every history of length 2 and '
         'simulated longer ones; each item is realised as a PEL, the history is played in ONE interpreter with the '
         'document and the projection of the real caches recorded after every decode, and every PEL is decoded first in '
         'a FRESH interpreter.  TLC replays the history through DecodeHistory!ImplStep (CacheStep: model state = real '
         'caches at every step) and judges SameAsFresh, Repeatable, NoForeignValue; random histories of 10-40 decodes '
         '(damaged, header-damaged, hidden, shipped-plugin PELs) and directories shown in both orders and file by '
         'file go through the same judge.  DecodeHistoryProof.tla proves HistoryIndependent and NoPoisoning with the '
         'TLA+ proof system for every history length and every set of present / absent / broken modules (60 '
         'obligations, re-checked on every run); a message registry is part of the environment so that messages '
         'filled from one log\'s words cannot leak into the next.',
    design='DESIGN.md 4.6, 5 C19, 17',
    note='The fresh-interpreter decode is the oracle document.  Sentinels are unique ids / serial numbers per PEL.',
    technique='TLC model checking of DecodeHistory.tla + TLAPS proof of history independence (unbounded) + TLC-generated histories replayed into one interpreter, cache state and documents validated by TLC against the spec and a fresh-interpreter oracle')

CLAIMED['C08'] = dict(
    text='Listing.tla models the listing loop of -l / -a / -n (sorted top-level file list, per-file decode inside an '
         'exception barrier) against the rule Shown(dir, mode, rev); TLC checks MatchesRule, Agree (count = list = all, '
         'reverse = Reverse) over every directory of <= 3 files x 3 kinds x selected / not.  Generated directories of '
         'well-formed PELs with adversarial names are then shown by the real CLI with -n, -l, -a, -l -x, -a -x under random '
         'option sets, --reverse and --extension; TLC computes the selected set with Selection!RuleSet, orders it with its '
         'own code-point order and judges CountEq, ListIds, AllIds, Hex*Ids and SummaryFields.',
    design='DESIGN.md 4.9, 5 C08',
    note='Directories hold only well-formed PELs with distinct entry ids; ambiguous severities 0x01..0x0F are not used.',
    technique='TLC model checking of Listing.tla + real CLI outputs on generated directories judged by TLC (Selection rule + name order computed in the spec)')
CLAIMED['C09'] = dict(
    text='Listing.tla (model-checked: JunkInvariant, ExitZero; the variant without the exception barrier fails) states that '
         'files a mode cannot decode contribute nothing.  For generated directories and junk sets (12 junk kinds incl. '
         'every header / body truncation class, PCE-size and text-field corruptions, random bytes, empty files, nested '
         'directories with valid PELs; names sorting before / between / after) every directory mode is run with and '
         'without the junk it cannot decode (established by a stand-alone run); TLC judges ExitZero, OneJsonDocument, '
         'OthersUnchanged (identical stdout), JsonFilesUnchanged, NoFileForJunk.  Junk includes files whose decodable '
         'front part holds sections whose parser module raises before the file ends early.',
    design='DESIGN.md 4.9, 5 C09',
    note='OS-level unreadable files are outside the statement.  For -j stdout is expected to stay empty.',
    technique='TLC model checking of Listing.tla + differential runs of the real CLI (directory vs directory plus junk) judged by TLC')
CLAIMED['C10'] = dict(
    text='Trace_Dir computes, from the abstract attributes of every PEL in a directory, the match set of each look-up '
         '(platform log id equal as a number, BMC id equal, file stored under the entry id, reference code containing '
         'the string / not in the exclusion list) - all PELs considered, hidden and non-serviceable included, as '
         'Selection.tla (model-checked) demands for look-ups without selection options.  Directories with colliding ids '
         '(ids below 0x10000000, shared digits, prefix-related decimal BMC ids, several PELs per id) are queried through '
         'the real CLI in every spelling; TLC judges PlidExact, BmcIdFound, IdFound, SrcExact, SrcExcludeExact, '
         'NotFoundReport.  Reference codes also use more of their 32 characters (blanks inside); for --src-exclude '
         'the judge demands: a PEL whose code IS a line of the file is never listed, one whose code occurs nowhere '
         'in the file always is (a code that is only part of a longer line is left open).',
    design='DESIGN.md 4.9, 5 C10',
    note='Queries have 8 hex digits after prefix stripping; reference codes are 8 characters; file names carry their entry id.',
    technique='TLC-computed match sets (PelDir/Selection operators) against real CLI look-up results on generated directories')

CLAIMED['C14'] = dict(
    text='Ilog.tla transcribes the ILOG rules (8-byte entry cursor, all-zero skip, partial tail, timestamp rule, wildcard '
         'match per nibble, first match in table order, retry with the reported flag cleared for error PTEs only, parameter '
         'bytes, suffix) and PyFormat.tla the subset of Python %-formatting the tables use; TLC checks the rule '
         'consequences over tables of <= 3 overlapping patterns x 9 PTEs and the cursor.  The real parse_ilog_data is run '
         'against both shipped tables (independent reader, cross-checked by PTE_TABLE_SIZE; for every one of the 615 / 598 '
         'patterns: wildcard fills, reported variants, near misses) and synthetic tables rendered in varied surface syntax; '
         'TLC recomputes every line (Timestamp, Seq, Pte, Message clauses).',
    design='DESIGN.md 4.11, 5 C14, Appendix C',
    note='Executable-reference use of the spec.  Patterns are 8 characters of hex digits and *; directives are those of PyFormat.tla.',
    technique='TLA+ transcription (Ilog.tla, PyFormat.tla) model-checked on small tables + TLC-judged output of the real decoder on shipped and synthetic tables')
CLAIMED['C15'] = dict(
    text='TraceBuf.tla transcribes header reading, the entry loop bounded by the declared size, entry framing (fixed 16 '
         'bytes, data, padding, trailing size word) with its four stop reasons, string look-up (first exact, else last '
         'partial modulo 100000), up to five big-endian arguments, warning and dump rules and the loss-less fall-back; TLC '
         'checks the framing over data lengths {0,1,3,4,1024,1025} x malformed variants x declared sizes.  The real '
         'parse_trace_data is run on buffers with every stop reason, alignment, hash class, tag and argument count against '
         'both shipped string files and synthetic ones; TLC recomputes header, every entry line, warnings and dumps.  '
         'A pool of hash values recurs in many string files of one process (other text / partial only / absent) and '
         'scratch paths are reused with other content, so answers remembered across decodes show up.',
    design='DESIGN.md 4.11, 5 C15',
    note='Executable-reference use of the spec; 32-bit quantities are handled as byte sequences in TLA+.',
    technique='TLA+ transcription (TraceBuf.tla) with model-checked framing + TLC-judged output of the real decoder')
CLAIMED['C16'] = dict(
    text='Hlog.tla states the field cursor (contiguous from offset 0, stop at the first misfit, listed iff non-zero, value '
         'padded to the field width); TLC checks it over all tables of <= 3 fields x all data of length <= total+1.  The '
         'real parse_hlog_data is run on both shipped field tables and synthetic ones for every length class and value '
         'pattern; TLC judges DumpLossless (HexDump!Parse of the dump part = data) and Fields.',
    design='DESIGN.md 4.11, 5 C16',
    note='Field lines are read as name / separator / hex value; the exact separator is not compared.',
    technique='TLC model checking of Hlog.tla + TLC-judged output of the real decoder')
CLAIMED['C17'] = dict(
    text='DrawerDump.tla defines the regions (first occurrence of each start-bytes + name, sorted, each running to the next) '
         'and TLC checks over all token strings of <= 4 tokens that they partition the input in address order and start at '
         'recognised headers.  The real parse_dump_data is run on inputs with every placement of headers and decoys, and the '
         'same bytes as text in both hex formats through parse_dump_file; TLC judges that the sections of the real output '
         'are exactly the spec\'s regions (count, kinds, bounds), each decoded as the stand-alone real decoder decodes those '
         'bytes, FileEqualsRaw and EmptyGivesNothing.',
    design='DESIGN.md 4.11, 5 C17',
    note='The stand-alone decoders are the oracle for region content (their output is C14 / C15).',
    technique='TLC model checking of DrawerDump.tla + TLC-judged partition of real outputs')

CLAIMED['C20'] = dict(
    text='HwDiags.tla transcribes the signature slicing (model/EC word, 16-bit chip position, node, attention type, '
         'signature id, instance, bit), the case-folded keyed look-ups with every fallback, and the register-dump framing '
         'and line layout; TLC checks field independence of the signature per hex character (with and without chip data) '
         'and case-blindness.  The real ParserData, the oe500 SRC parser and the oe500 user-data parsers are run directly '
         'and end-to-end through parsePEL, with chip data absent / partial / full (synthetic data files selected through '
         'pel.hwdiags.data.__file__), upper- and lower-case words and swept bytes; TLC recomputes every string '
         '(ChipDesc, Signature, AttnType, RegisterDump, ScratchRegisters, ScratchSignature, CalloutFFDC, NeverError).',
    design='DESIGN.md 4.11, 5 C20',
    note='Executable-reference use of the spec.  Partial chip data means missing keys, not malformed values.',
    technique='TLA+ transcription (HwDiags.tla) with model-checked field independence + TLC-judged output of the real parsers')

REASON_NOT_YET = 'check not built yet in this session (planned per DESIGN.md 5); not claimed until its TLC-judged check runs green on the unchanged tree'


def main():
    ids = []
    with open(os.path.join(VERIF, 'properties.jsonl')) as f:
        for line in f:
            ids.append(json.loads(line)['id'])
    checks = []
    na = []
    for pid in ids:
        if pid in CLAIMED:
            c = CLAIMED[pid]
            checks.append(dict(
                property_id=pid,
                quick_cmd='./check %s --tier quick' % pid,
                thorough_cmd='./check %s --tier thorough' % pid,
                evidence_file='/verif/evidence/%s.json' % pid,
                replay_cmd_template='./check %s --replay {path}' % pid,
                engine='tlc',
                level_claimed=dict(category='model_checking', text=c['text'], design_ref=c['design']),
                level_note=c['note'],
                technique=c['technique'],
            ))
        else:
            na.append(dict(property_id=pid, reason=REASON_NOT_YET))
    m = dict(
        version=1,
        setup_cmd='./setup.sh',
        hooks=dict(guard='OPENPOWER_PEL_PARSERS_VERIF',
                   enable='no source hooks: all observation is through seams wrapped from outside (DESIGN.md 8); '
                          'checks import /repo/modules of the working tree directly (VERIF_REPO overrides)',
                   baseline_off_cmd='cd /repo && /venv/bin/python -m pytest -ra -q -p no:cacheprovider --timeout=900 --continue-on-collection-errors',
                   source_commits=[], add_only=True),
        engines=[dict(name='tlc', path='/opt/veriftools/tla/tla2tools.jar',
                      serves_properties=sorted(CLAIMED),
                      kind_free_text='TLC 1.8 explicit-state model checker used three ways: MC of bounded spec '
                                     'instances (spec/mc), generator of abstract cases (spec/gen), judge of '
                                     'records from the real code (spec/trace)')],
        checks=checks,
        not_applicable=na,
        notes='Exit codes of ./check: 0 held, 1 violation (VIOLATION line), 2 machinery failure. '
              'known_findings.json lists fixed/open findings.  VERIF_SEED / VERIF_TIER / VERIF_REPO honoured.',
    )
    with open(os.path.join(VERIF, 'MANIFEST.json'), 'w') as f:
        json.dump(m, f, indent=1)
        f.write('\n')


if __name__ == '__main__':
    main()
